"""parse_iso (orso/tools.py): the `except` tuple, the epoch types, and — lifted from the AST with
harness/pyexpr.py — every guard of the text path as a Lean expression (`Gen.Iso.*`):

    10 <= len(value) <= 33            lenWindow len
    not 10 <= len(value) <= 28        plusReject len
    value[4] != "-" or value[7] != "-"    dashTestA c / dashTestB c (+ indices, + the joining operator)
    val_len == 10 / >= 16 / == 16     dateLenTest n / timeLenTest n / minLenTest n
    value[10] not in ("T", " ") and value[13] != ":"   sepTestA c / sepTestB c (+ indices, + operator)
    val_len >= 19 and value[16] == ":"                 secLenTest n / secCharTest c (+ index)

plus the slice offsets of the three `datetime(*map(int, [...]))` calls and the `Z` / `+` characters.
Model/Iso.lean assembles them in a hand-written skeleton (where Python short-circuits and which
subscript is read when); the theorems are re-checked against the expressions the code contains now.
"""
import ast
import copy

import os

from ..extract import HEADER, Src, lean_list, lean_str
from ..pyexpr import Untranslatable, to_lean
from ..pystmt_dispatch import DispatchProgram
from ..pystmt_text import CastProgram, Program

PINNED_TEXT_BRANCH = os.path.join(os.path.dirname(os.path.abspath(__file__)), "c08_IsoText.pinned.lean")
PINNED_CASTS = os.path.join(os.path.dirname(os.path.abspath(__file__)), "c08_IsoCast.pinned.lean")
PINNED_DISPATCH = os.path.join(os.path.dirname(os.path.abspath(__file__)), "c08_IsoDispatch.pinned.lean")

PIN_SLICES = [
    [[0, 4], [5, 7], [8, 10]],
    [[0, 4], [5, 7], [8, 10], [11, 13], [14, 16], [17, 19]],
    [[0, 4], [5, 7], [8, 10], [11, 13], [14, 16]],
]
PIN = {
    "lenWindow": "((10 ≤ len) ∧ (len ≤ 33))",
    "plusReject": "(¬ ((10 ≤ len) ∧ (len ≤ 28)))",
    "dash": [[4, "(c ≠ '-')"], [7, "(c ≠ '-')"], "or"],
    "lenTests": ["(n = 10)", "(n ≥ 16)", "(n = 16)"],
    "sep": [[10, "((c ≠ 'T') ∧ (c ≠ ' '))"], [13, "(c ≠ ':')"], "and"],
    "sec": ["(n ≥ 19)", [16, "(c = ':')"]],
}


PIN_DISPATCH = [
    "def parse_iso(value)",
    "input_type = type(value)",
    "if isinstance(value, bytes): value = value.decode('utf-8') input_type = str",
    "if input_type == str and value.isdigit(): value = int(value) input_type = int",
    "if input_type == numpy.datetime64: value = value.astype(datetime.datetime) input_type = type(value) if input_type is int: value /= 1000000000",
    "if input_type in (int, numpy.int64, float, numpy.float64): return datetime.datetime.fromtimestamp(int(value), tz=datetime.timezone.utc).replace(tzinfo=None)",
    "if hasattr(value, 'to_pydatetime'): return value.to_pydatetime()",
    "if input_type == datetime.datetime: return value.replace(microsecond=0)",
    "if input_type == datetime.date: return datetime.datetime.combine(value, datetime.time.min)",
]


def lean_char(c):
    return {"'": "'\\''", "\\": "'\\\\'", "\n": "'\\n'", "\t": "'\\t'"}.get(c, "'%s'" % c)


class _Prep(ast.NodeTransformer):
    """`x not in (a, b)` -> `x != a and x != b`;  `x in (a, b)` -> `x == a or x == b` (same truth value)."""

    def visit_Compare(self, n):
        self.generic_visit(n)
        if len(n.ops) == 1 and isinstance(n.ops[0], (ast.NotIn, ast.In)) and isinstance(n.comparators[0], (ast.Tuple, ast.List)):
            neg = isinstance(n.ops[0], ast.NotIn)
            parts = [ast.Compare(left=copy.deepcopy(n.left), ops=[ast.NotEq() if neg else ast.Eq()], comparators=[e]) for e in n.comparators[0].elts]
            if not parts:
                raise Untranslatable("empty tuple")
            return parts[0] if len(parts) == 1 else ast.BoolOp(op=ast.And() if neg else ast.Or(), values=parts)
        return n


def tr(node, env):
    """pyexpr translation with one-character string constants as Lean `Char` literals."""
    node = ast.fix_missing_locations(_Prep().visit(copy.deepcopy(node)))
    env = dict(env)
    for n in ast.walk(node):
        if isinstance(n, ast.Constant) and isinstance(n.value, str):
            if len(n.value) != 1:
                raise Untranslatable("string constant %r" % n.value)
            env[ast.unparse(n)] = lean_char(n.value)
    return to_lean(node, env)


def subscripts(node):
    """Constant indices of `value[...]` read in an expression."""
    out = []
    for n in ast.walk(node):
        if isinstance(n, ast.Subscript) and isinstance(n.value, ast.Name) and n.value.id == "value" and not isinstance(n.slice, ast.Slice):
            out.append(ast.literal_eval(n.slice))
    return out


def char_test(node):
    """An operand that reads exactly one `value[i]`: returns [i, lean expr over `c`]."""
    idx = subscripts(node)
    if len(set(idx)) != 1 or idx[0] < 0:
        raise KeyError("operand reads %r" % (idx,))
    return [idx[0], tr(node, {"value[%d]" % idx[0]: "c"})]


def generate(o):
    src = Src("orso/tools.py")

    def fn():
        return src.func("parse_iso")

    def tests():
        out = [n for n in ast.walk(fn()) if isinstance(n, ast.If)]
        out.sort(key=lambda n: (n.lineno, n.col_offset))
        return [n.test for n in out]

    def caught():
        tries = [n for n in ast.walk(fn()) if isinstance(n, ast.Try)]
        if len(tries) != 1 or len(tries[0].handlers) != 1:
            raise KeyError("try/except shape")
        t = tries[0].handlers[0].type
        if t is None:
            return ["BaseException"]
        elts = t.elts if isinstance(t, ast.Tuple) else [t]
        return [ast.unparse(e) for e in elts]

    def len_window():
        c = [t for t in tests() if "len(value)" in ast.unparse(t) and not isinstance(t, ast.UnaryOp)]
        if len(c) != 1 or not (isinstance(c[0], ast.BoolOp) and isinstance(c[0].op, ast.And) and len(c[0].values) == 2
                               and ast.unparse(c[0].values[0]) == "input_type == str"):
            raise KeyError("`input_type == str and <window>`")
        return tr(c[0].values[1], {"len(value)": "len"})

    def plus_reject():
        c = [t for t in tests() if "len(value)" in ast.unparse(t) and isinstance(t, ast.UnaryOp)]
        if len(c) != 1:
            raise KeyError("`not <window>` after the split")
        return tr(c[0], {"len(value)": "len"})

    def two_operand(pred):
        c = [t for t in tests() if isinstance(t, ast.BoolOp) and len(t.values) == 2 and pred(t)]
        if len(c) != 1:
            raise KeyError("two-operand test")
        return c[0]

    def dash():
        t = two_operand(lambda t: len(subscripts(t)) == 2 and all(len(subscripts(v)) == 1 for v in t.values)
                        and not any(isinstance(op, (ast.In, ast.NotIn)) for n in ast.walk(t) if isinstance(n, ast.Compare) for op in n.ops))
        return [char_test(t.values[0]), char_test(t.values[1]), "and" if isinstance(t.op, ast.And) else "or"]

    def sep():
        t = two_operand(lambda t: len(subscripts(t)) == 2 and all(len(subscripts(v)) == 1 for v in t.values)
                        and any(isinstance(op, (ast.In, ast.NotIn)) for n in ast.walk(t) if isinstance(n, ast.Compare) for op in n.ops))
        return [char_test(t.values[0]), char_test(t.values[1]), "and" if isinstance(t.op, ast.And) else "or"]

    def sec():
        t = two_operand(lambda t: "val_len" in ast.unparse(t.values[0]) and len(subscripts(t.values[0])) == 0 and len(subscripts(t.values[1])) == 1)
        if not isinstance(t.op, ast.And):
            raise KeyError("seconds test is not an `and`")
        return [tr(t.values[0], {"val_len": "n"}), char_test(t.values[1])]

    def len_tests():
        c = [t for t in tests() if isinstance(t, ast.Compare) and isinstance(t.left, ast.Name) and t.left.id == "val_len"]
        if len(c) != 3:
            raise KeyError("three val_len tests")
        return [tr(t, {"val_len": "n"}) for t in c]

    def z_char():
        c = [t for t in tests() if isinstance(t, ast.Compare) and subscripts(t) == [-1] and isinstance(t.ops[0], ast.Eq)]
        if len(c) != 1:
            raise KeyError("value[-1] == 'Z'")
        v = ast.literal_eval(c[0].comparators[0])
        if not (isinstance(v, str) and len(v) == 1):
            raise KeyError("Z constant")
        return v

    def plus_char():
        ins = [n for n in ast.walk(fn()) if isinstance(n, ast.Compare) and isinstance(n.ops[0], ast.In)
               and isinstance(n.left, ast.Constant) and isinstance(n.left.value, str)]
        sp = [n for n in ast.walk(fn()) if isinstance(n, ast.Call) and isinstance(n.func, ast.Attribute) and n.func.attr == "split"]
        if len(ins) != 1 or len(sp) != 1 or ast.literal_eval(sp[0].args[0]) != ins[0].left.value or len(ins[0].left.value) != 1:
            raise KeyError("'+' test / split")
        # value.split("+")[0]
        par = [n for n in ast.walk(fn()) if isinstance(n, ast.Subscript) and n.value is sp[0]]
        if len(par) != 1 or ast.literal_eval(par[0].slice) != 0:
            raise KeyError("split(...)[0]")
        return ins[0].left.value

    def slices():
        calls = []
        for n in ast.walk(fn()):
            if isinstance(n, ast.Call) and ast.unparse(n.func) == "datetime.datetime" and n.args and isinstance(n.args[0], ast.Starred):
                m = n.args[0].value
                if not (isinstance(m, ast.Call) and getattr(m.func, "id", None) == "map" and ast.unparse(m.args[0]) == "int"):
                    raise KeyError("map(int, ...)")
                sl = []
                for e in m.args[1].elts:
                    if not (isinstance(e, ast.Subscript) and isinstance(e.slice, ast.Slice) and e.slice.step is None):
                        raise KeyError("slice shape")
                    lo = 0 if e.slice.lower is None else ast.literal_eval(e.slice.lower)
                    hi = ast.literal_eval(e.slice.upper)
                    if lo < 0 or hi < 0:
                        raise KeyError("negative slice")
                    sl.append([lo, hi])
                calls.append((n.lineno, sl))
        calls.sort()
        if len(calls) != 3:
            raise KeyError("three datetime(...) calls")
        return [c[1] for c in calls]

    def epoch_test():
        """The class table in front of the Unix-seconds branch (the `if` whose body calls `fromtimestamp`) and how it is consulted:
        ["exact", names] for `input_type in (A, B, ...)` / `type(value) in (...)` (identity of the class), ["subclass", names] for
        `isinstance(value, (A, B, ...))` (the class or any subclass of it)."""
        for n in ast.walk(fn()):
            if not isinstance(n, ast.If):
                continue
            if not any(isinstance(m, ast.Attribute) and m.attr == "fromtimestamp" for st in n.body for m in ast.walk(st)):
                continue
            if n.orelse:
                raise KeyError("epoch branch with else")
            t = n.test
            names = lambda seq: [ast.unparse(e) for e in seq.elts]
            if isinstance(t, ast.Compare) and len(t.ops) == 1 and isinstance(t.ops[0], ast.In) and isinstance(t.comparators[0], (ast.Tuple, ast.List, ast.Set)):
                left = ast.unparse(t.left)
                if left in ("input_type", "type(value)"):
                    return ["exact", names(t.comparators[0])]
            if isinstance(t, ast.Call) and isinstance(t.func, ast.Name) and t.func.id == "isinstance" and len(t.args) == 2 and not t.keywords \
                    and ast.unparse(t.args[0]) == "value":
                cl = t.args[1]
                return ["subclass", names(cl) if isinstance(cl, ast.Tuple) else [ast.unparse(cl)]]
            raise KeyError("epoch type test of an unknown shape")
        raise KeyError("epoch branch")

    def cast_bodies():
        """parse_date / parse_time / parse_timestamp: statements with string constants blanked."""
        tys = Src("orso/types.py")

        class Blank(ast.NodeTransformer):
            def visit_Constant(self, n):
                return ast.Constant(value="") if isinstance(n.value, str) else n

            def visit_JoinedStr(self, n):
                return ast.Constant(value="")

            def visit_Raise(self, n):
                # the message of a raised exception is not behaviour the property speaks about: `raise E(<anything>)` -> `raise E('')`
                if isinstance(n.exc, ast.Call) and isinstance(n.exc.func, ast.Name):
                    return ast.Raise(exc=ast.Call(func=n.exc.func, args=[ast.Constant(value="")], keywords=[]), cause=None)
                return self.generic_visit(n)

        out = []
        for f in ("parse_date", "parse_time", "parse_timestamp"):
            fn_ = copy.deepcopy(tys.func(f))
            body = [st for st in fn_.body if not (isinstance(st, ast.Expr) and isinstance(st.value, ast.Constant))]
            out.append("; ".join(ast.unparse(ast.fix_missing_locations(Blank().visit(st))).replace("\n", " ").replace("    ", "") for st in body))
        return out

    def text_branch():
        """The string branch of parse_iso, statement by statement (harness/pystmt.py): the `if input_type == str and
        <window>:` statement and the `return None` it falls through to, as the Lean program `Gen.IsoText.textBranch`."""
        tries = [n for n in ast.walk(fn()) if isinstance(n, ast.Try)]
        if len(tries) != 1:
            raise KeyError("try/except shape")
        body = tries[0].body
        at = [i for i, st in enumerate(body) if isinstance(st, ast.If) and isinstance(st.test, ast.BoolOp) and isinstance(st.test.op, ast.And)
              and ast.unparse(st.test.values[0]) == "input_type == str" and "len(value)" in ast.unparse(st.test)]
        if len(at) != 1:
            raise KeyError("`if input_type == str and <window>:`")
        st = body[at[0]]
        rest = st.test.values[1:]
        test = rest[0] if len(rest) == 1 else ast.BoolOp(op=ast.And(), values=rest)
        prog = Program("textBranch", [("value", "str")])
        prog.define([ast.If(test=test, body=st.body, orelse=st.orelse)] + body[at[0] + 1:],
                    "`parse_iso`'s string branch: `if input_type == str and %s: ...` and the statements after it" % ast.unparse(test))
        return prog.lean()

    def dispatch():
        """Decorators of parse_iso and the statements of the `try` body before the string branch (type dispatch, epoch
        branch, native branches), one normalised line each: what `Iso.body` was written from."""
        tries = [n for n in ast.walk(fn()) if isinstance(n, ast.Try)]
        if len(tries) != 1:
            raise KeyError("try/except shape")
        outer = [st for st in fn().body if not (isinstance(st, ast.Expr) and isinstance(st.value, ast.Constant))]
        if len(outer) != 1 or outer[0] is not tries[0] or tries[0].orelse or tries[0].finalbody:
            raise KeyError("statements around the try")
        body = tries[0].body
        at = [i for i, st in enumerate(body) if isinstance(st, ast.If) and "len(value)" in ast.unparse(st.test)]
        if len(at) != 1:
            raise KeyError("string branch")
        lines = ["@" + ast.unparse(d) for d in fn().decorator_list]
        lines += ["def parse_iso(%s)" % ast.unparse(fn().args)]
        for st in body[:at[0]]:
            lines.append(" ".join(ast.unparse(st).split()))
        return lines

    def cast_programs():
        """parse_date / parse_time / parse_timestamp of orso/types.py, statement by statement (CastProgram): the Lean programs
        `Gen.IsoCast.parseDate / parseTime / parseTimestamp` that `Iso.cast` runs."""
        tys = Src("orso/types.py")
        return "".join(CastProgram(n, tys.func(f)).lean() for f, n in (("parse_date", "parseDate"), ("parse_time", "parseTime"), ("parse_timestamp", "parseTimestamp")))

    try:
        pinned_casts = open(PINNED_CASTS).read()
    except OSError:
        pinned_casts = ""
    cp = o.item("iso.cast_programs", cast_programs, pinned_casts)
    o.files["IsoCast.lean"] = HEADER + "import OrsoVerif.Model.IsoCastPrim\nnamespace Gen.IsoCast\nopen _root_.Iso\n\n" + cp + "end Gen.IsoCast\n"

    def cast_table():
        """Which function the DATE / TIMESTAMP / TIME entries of ORSO_TO_PYTHON_PARSER name, and the glue of OrsoTypes.parse."""
        tys = Src("orso/types.py")
        tab = None
        if tys.tree is None:
            raise KeyError("orso/types.py does not parse")
        for n in tys.tree.body:
            tgt = n.target if isinstance(n, ast.AnnAssign) else (n.targets[0] if isinstance(n, ast.Assign) and len(n.targets) == 1 else None)
            if isinstance(tgt, ast.Name) and tgt.id == "ORSO_TO_PYTHON_PARSER" and isinstance(n.value, ast.Dict):
                tab = n.value
        if tab is None:
            raise KeyError("ORSO_TO_PYTHON_PARSER")
        ent = {ast.unparse(k): ast.unparse(v) for k, v in zip(tab.keys, tab.values)}
        glue = " ".join(" ".join(ast.unparse(st).split()) for st in tys.func("parse", "OrsoTypes").body
                        if not (isinstance(st, ast.Expr) and isinstance(st.value, ast.Constant)))
        return [[k, ent["OrsoTypes." + k]] for k in ("DATE", "TIMESTAMP", "TIME")] + [["parse", glue]]

    PIN_TABLE = [["DATE", "parse_date"], ["TIMESTAMP", "parse_timestamp"], ["TIME", "parse_time"],
                 ["parse", "if value is None: return None return ORSO_TO_PYTHON_PARSER[self.value](value, **kwargs)"]]
    ct = o.item("iso.cast_table", cast_table, PIN_TABLE)

    disp = o.item("iso.dispatch", dispatch, PIN_DISPATCH)

    def dispatch_program():
        """The statements of the `try` body in front of the string branch as the Lean `do` block `Gen.IsoDispatch.dispatch`."""
        return DispatchProgram("dispatch", fn()).lean()

    def decorators():
        return [["@" + ast.unparse(d) for d in fn().decorator_list], ast.unparse(fn().args)]

    try:
        pinned_dp = open(PINNED_DISPATCH).read()
    except OSError:
        pinned_dp = ""
    dp = o.item("iso.dispatch_program", dispatch_program, pinned_dp)
    deco, sig = o.item("iso.decorators", decorators, [[], "value"])
    o.files["IsoDispatch.lean"] = (HEADER + "import OrsoVerif.Model.IsoDispatchPrim\nnamespace Gen.IsoDispatch\nopen _root_.Iso\n\n"
                                   + "/-- decorators of parse_iso (a cache between the caller and the `try` would sit here) -/\n"
                                   + "def decorators : List String := %s\n" % lean_list(deco, lean_str)
                                   + "/-- its parameters -/\ndef signature : String := %s\n\n" % lean_str(sig)
                                   + dp + "end Gen.IsoDispatch\n")

    try:
        pinned_tb = open(PINNED_TEXT_BRANCH).read()
    except OSError:
        pinned_tb = ""
    tb = o.item("iso.text_branch", text_branch, pinned_tb)
    o.files["IsoText.lean"] = HEADER + "import OrsoVerif.Model.IsoPrim\nnamespace Gen.IsoText\nopen Iso\n\n" + tb + "end Gen.IsoText\n"

    cb = o.item("iso.cast_bodies", cast_bodies, [
        "result = parse_iso(x); if result is None: raise ValueError(''); return result.date()",
        "if isinstance(x, datetime.time): return x; result = parse_iso(x); if result is None: if isinstance(x, (str, bytes)): try: return datetime.time.fromisoformat(x.decode('') if isinstance(x, bytes) else x) except ValueError: pass raise ValueError(''); return result.time()",
        "result = parse_iso(x); if result is None: raise ValueError(''); return result",
    ])
    c = o.item("iso.caught", caught, ["ValueError", "TypeError", "OverflowError", "OSError"])
    em, et = o.item("iso.epoch_types", epoch_test, ["exact", ["int", "numpy.int64", "float", "numpy.float64"]])
    zc = o.item("iso.z_char", z_char, "Z")
    pc = o.item("iso.plus_char", plus_char, "+")
    lw = o.item("iso.expr.len_window", len_window, PIN["lenWindow"])
    pr = o.item("iso.expr.plus_reject", plus_reject, PIN["plusReject"])
    da = o.item("iso.expr.dash", dash, PIN["dash"])
    lt = o.item("iso.expr.len_tests", len_tests, PIN["lenTests"])
    se = o.item("iso.expr.sep", sep, PIN["sep"])
    sc = o.item("iso.expr.sec", sec, PIN["sec"])
    sl = o.item("iso.slices", slices, PIN_SLICES)

    pair = lambda p: "(%d, %d)" % (p[0], p[1])

    def prop(name, args, body, doc):
        t = "/-- %s -/\n" % doc
        t += "def %s %s : Prop := %s\n" % (name, args, body)
        t += "instance %s : Decidable (%s %s) := by unfold %s; infer_instance\n" % (args, name, args.strip("()").split(":")[0].strip(), name)
        return t

    t = HEADER + "namespace Gen.Iso\n"
    t += "/-- classes named in `except (...)` of parse_iso -/\n"
    t += "def caught : List String := %s\n" % lean_list(c, lean_str)
    t += "/-- types sent to the epoch branch -/\n"
    t += "def epochTypes : List String := %s\n" % lean_list(et, lean_str)
    t += "/-- the table is consulted with `isinstance` (a class or any subclass of it) rather than by identity of `type(value)` -/\n"
    t += "def epochBySubclass : Bool := %s\n" % ("true" if em == "subclass" else "false")
    t += "def zChar : Char := %s\n" % lean_char(zc)
    t += "def plusChar : Char := %s\n" % lean_char(pc)
    t += prop("lenWindow", "(len : Int)", lw, "`%s` (the length window of the text path)" % "10 <= len(value) <= 33")
    t += prop("plusReject", "(len : Int)", pr, "the test after `value.split(\"+\")[0]` under which the parser gives up")
    t += "def dashA : Nat := %d\ndef dashB : Nat := %d\n" % (da[0][0], da[1][0])
    t += prop("dashTestA", "(c : Char)", da[0][1], "first operand of the dash test, `c = value[dashA]`")
    t += prop("dashTestB", "(c : Char)", da[1][1], "second operand of the dash test, `c = value[dashB]`")
    t += "/-- the two dash operands are joined by `and` (else `or`) -/\ndef dashJoinAnd : Bool := %s\n" % ("true" if da[2] == "and" else "false")
    t += prop("dateLenTest", "(n : Int)", lt[0], "`val_len` test of the date-only form")
    t += prop("timeLenTest", "(n : Int)", lt[1], "`val_len` test under which a time part is looked for")
    t += prop("minLenTest", "(n : Int)", lt[2], "`val_len` test of the minute form")
    t += "def sepIdx : Nat := %d\ndef colonA : Nat := %d\n" % (se[0][0], se[1][0])
    t += prop("sepTestA", "(c : Char)", se[0][1], "first operand of the separator test, `c = value[sepIdx]`")
    t += prop("sepTestB", "(c : Char)", se[1][1], "second operand of the separator test, `c = value[colonA]`")
    t += "/-- the two separator operands are joined by `and` (else `or`) -/\ndef sepJoinAnd : Bool := %s\n" % ("true" if se[2] == "and" else "false")
    t += prop("secLenTest", "(n : Int)", sc[0], "first operand of the seconds test")
    t += "def colonB : Nat := %d\n" % sc[1][0]
    t += prop("secCharTest", "(c : Char)", sc[1][1], "second operand of the seconds test, `c = value[colonB]`")
    t += "def slicesDate : List (Nat × Nat) := %s\n" % lean_list(sl[0], pair)
    t += "def slicesSec : List (Nat × Nat) := %s\n" % lean_list(sl[1], pair)
    t += "def slicesMin : List (Nat × Nat) := %s\n" % lean_list(sl[2], pair)
    t += "/-- bodies of parse_date / parse_time / parse_timestamp (orso/types.py), string constants blanked; the TIME cast is not part of\nC08's statement: `parseTimeBody` is recorded for information and is not mentioned by any theorem -/\n"
    t += "def parseDateBody : String := %s\ndef parseTimeBody : String := %s\ndef parseTimestampBody : String := %s\n" % tuple(lean_str(x) for x in cb)
    t += "/-- the functions the DATE / TIMESTAMP / TIME entries of ORSO_TO_PYTHON_PARSER name, and the body of OrsoTypes.parse -/\n"
    t += "def castTable : List (String × String) := %s\n" % lean_list(ct, lambda p: "(%s, %s)" % (lean_str(p[0]), lean_str(p[1])))
    t += "/-- decorators, signature and the statements of parse_iso before the string branch (normalised source text) -/\n"
    t += "def dispatch : List String := %s\n" % lean_list(disp, lean_str)
    t += "end Gen.Iso\n"
    o.files["Iso.lean"] = t
