"""parse_iso (orso/tools.py): caught exception classes, length windows, index checks, slice offsets."""
import ast

from ..extract import HEADER, Src, lean_list, lean_str

PIN_SLICES = [
    [[0, 4], [5, 7], [8, 10]],
    [[0, 4], [5, 7], [8, 10], [11, 13], [14, 16], [17, 19]],
    [[0, 4], [5, 7], [8, 10], [11, 13], [14, 16]],
]
OPS = {ast.Eq: "==", ast.NotEq: "!=", ast.Lt: "<", ast.LtE: "<=", ast.Gt: ">", ast.GtE: ">=", ast.In: "in", ast.NotIn: "not in"}


def lean_char(c):
    return {"'": "'\\''", "\\": "'\\\\'", "\n": "'\\n'", "\t": "'\\t'"}.get(c, "'%s'" % c)


def generate(o):
    src = Src("orso/tools.py")

    def fn():
        return src.func("parse_iso")

    def caught():
        tries = [n for n in ast.walk(fn()) if isinstance(n, ast.Try)]
        if len(tries) != 1 or len(tries[0].handlers) != 1:
            raise KeyError("try/except shape")
        t = tries[0].handlers[0].type
        if t is None:
            return ["BaseException"]
        elts = t.elts if isinstance(t, ast.Tuple) else [t]
        return [ast.unparse(e) for e in elts]

    def windows():
        out = []
        for n in ast.walk(fn()):
            if isinstance(n, ast.Compare) and len(n.ops) == 2 and all(isinstance(op, ast.LtE) for op in n.ops):
                mid = n.comparators[0]
                if isinstance(mid, ast.Call) and getattr(mid.func, "id", None) == "len":
                    out.append((n.lineno, n.col_offset, [ast.literal_eval(n.left), ast.literal_eval(n.comparators[1])]))
        out.sort()
        if len(out) != 2:
            raise KeyError("length windows")
        return [w[2] for w in out]

    def index_checks():
        """value[<const>] <op> <const>, in source order."""
        out = []
        for n in ast.walk(fn()):
            if isinstance(n, ast.Compare) and len(n.ops) == 1 and isinstance(n.left, ast.Subscript):
                s = n.left
                if isinstance(s.value, ast.Name) and s.value.id == "value" and not isinstance(s.slice, ast.Slice):
                    idx = ast.literal_eval(s.slice)
                    rhs = ast.literal_eval(n.comparators[0])
                    out.append((n.lineno, n.col_offset, [idx, OPS[type(n.ops[0])], list(rhs) if isinstance(rhs, tuple) else [rhs]]))
        out.sort()
        return [x[2] for x in out]

    def sep_join():
        for n in ast.walk(fn()):
            if isinstance(n, ast.BoolOp) and len(n.values) == 2:
                a, b = n.values
                if (isinstance(a, ast.Compare) and isinstance(a.ops[0], (ast.NotIn, ast.In)) and isinstance(a.left, ast.Subscript)):
                    return "and" if isinstance(n.op, ast.And) else "or"
        raise KeyError("separator test")

    def len_tests():
        out = []
        for n in ast.walk(fn()):
            if isinstance(n, ast.Compare) and len(n.ops) == 1 and isinstance(n.left, ast.Name) and n.left.id == "val_len":
                out.append((n.lineno, n.col_offset, [OPS[type(n.ops[0])], ast.literal_eval(n.comparators[0])]))
        out.sort()
        return [x[2] for x in out]

    def slices():
        calls = []
        for n in ast.walk(fn()):
            if isinstance(n, ast.Call) and ast.unparse(n.func) == "datetime.datetime" and n.args and isinstance(n.args[0], ast.Starred):
                m = n.args[0].value
                if not (isinstance(m, ast.Call) and getattr(m.func, "id", None) == "map" and ast.unparse(m.args[0]) == "int"):
                    raise KeyError("map(int, ...)")
                lst = m.args[1]
                sl = []
                for e in lst.elts:
                    if not (isinstance(e, ast.Subscript) and isinstance(e.slice, ast.Slice) and e.slice.step is None):
                        raise KeyError("slice shape")
                    lo = 0 if e.slice.lower is None else ast.literal_eval(e.slice.lower)
                    hi = ast.literal_eval(e.slice.upper)
                    if lo < 0 or hi < 0:
                        raise KeyError("negative slice")
                    sl.append([lo, hi])
                calls.append((n.lineno, sl))
        calls.sort()
        if len(calls) != 3:
            raise KeyError("three datetime(...) calls")
        return [c[1] for c in calls]

    def epoch_types():
        for n in ast.walk(fn()):
            if isinstance(n, ast.Compare) and isinstance(n.ops[0], ast.In) and isinstance(n.left, ast.Name) and n.left.id == "input_type":
                return [ast.unparse(e) for e in n.comparators[0].elts]
        raise KeyError("epoch type tuple")

    def plus_char():
        ins = [n for n in ast.walk(fn()) if isinstance(n, ast.Compare) and isinstance(n.ops[0], ast.In)
               and isinstance(n.left, ast.Constant) and isinstance(n.left.value, str)]
        sp = [n for n in ast.walk(fn()) if isinstance(n, ast.Call) and isinstance(n.func, ast.Attribute) and n.func.attr == "split"]
        if len(ins) != 1 or len(sp) != 1 or ast.literal_eval(sp[0].args[0]) != ins[0].left.value or len(ins[0].left.value) != 1:
            raise KeyError("'+' test / split")
        return ins[0].left.value

    pc = o.item("iso.plus_char", plus_char, "+")
    c = o.item("iso.caught", caught, ["ValueError", "TypeError", "OverflowError", "OSError"])
    w = o.item("iso.windows", windows, [[10, 33], [10, 28]])
    ic = o.item("iso.index_checks", index_checks,
                [[-1, "==", ["Z"]], [4, "!=", ["-"]], [7, "!=", ["-"]], [10, "not in", ["T", " "]], [13, "!=", [":"]], [16, "==", [":"]]])
    sj = o.item("iso.sep_join", sep_join, "and")
    lt = o.item("iso.len_tests", len_tests, [["==", 10], [">=", 16], [">=", 19], ["==", 16]])
    sl = o.item("iso.slices", slices, PIN_SLICES)
    et = o.item("iso.epoch_types", epoch_types, ["int", "numpy.int64", "float", "numpy.float64"])

    def shape_ok():
        ops = [x[1] for x in ic]
        if [x[0] for x in ic][0] != -1 or ops != ["==", "!=", "!=", "not in", "!=", "=="] or any(len(x[2]) != 1 for i, x in enumerate(ic) if i != 3):
            raise KeyError("index checks have another shape: %r" % (ic,))
        if [x[0] for x in lt] != ["==", ">=", ">=", "=="]:
            raise KeyError("val_len tests have another shape: %r" % (lt,))
        return True

    ok = o.item("iso.shape", shape_ok, False)
    if not ok:
        ic = [[-1, "==", ["Z"]], [4, "!=", ["-"]], [7, "!=", ["-"]], [10, "not in", ["T", " "]], [13, "!=", [":"]], [16, "==", [":"]]]
        lt = [["==", 10], [">=", 16], [">=", 19], ["==", 16]]

    pair = lambda p: "(%d, %d)" % (p[0], p[1])
    t = HEADER + "namespace Gen.Iso\n"
    t += "/-- classes named in `except (...)` of parse_iso -/\n"
    t += "def caught : List String := %s\n" % lean_list(c, lean_str)
    t += "/-- types sent to the epoch branch -/\n"
    t += "def epochTypes : List String := %s\n" % lean_list(et, lean_str)
    t += "def lenLo : Nat := %d\ndef lenHi : Nat := %d\n" % tuple(w[0])
    t += "def plusLo : Nat := %d\ndef plusHi : Nat := %d\n" % tuple(w[1])
    t += "def zChar : Char := %s\n" % lean_char(ic[0][2][0])
    t += "def plusChar : Char := %s\n" % lean_char(pc)
    t += "def dashA : Nat := %d\ndef dashAChar : Char := %s\n" % (ic[1][0], lean_char(ic[1][2][0]))
    t += "def dashB : Nat := %d\ndef dashBChar : Char := %s\n" % (ic[2][0], lean_char(ic[2][2][0]))
    t += "def sepIdx : Nat := %d\ndef sepChars : List Char := %s\n" % (ic[3][0], lean_list(ic[3][2], lean_char))
    t += "def colonA : Nat := %d\ndef colonAChar : Char := %s\n" % (ic[4][0], lean_char(ic[4][2][0]))
    t += "def colonB : Nat := %d\ndef colonBChar : Char := %s\n" % (ic[5][0], lean_char(ic[5][2][0]))
    t += "/-- `value[10] not in (..) <sepJoin> value[13] != ':'` -/\n"
    t += "def sepJoinAnd : Bool := %s\n" % ("true" if sj == "and" else "false")
    t += "def lenDate : Nat := %d\ndef lenTimeGe : Nat := %d\ndef lenSecGe : Nat := %d\ndef lenMinEq : Nat := %d\n" % (lt[0][1], lt[1][1], lt[2][1], lt[3][1])
    t += "def slicesDate : List (Nat × Nat) := %s\n" % lean_list(sl[0], pair)
    t += "def slicesSec : List (Nat × Nat) := %s\n" % lean_list(sl[1], pair)
    t += "def slicesMin : List (Nat × Nat) := %s\n" % lean_list(sl[2], pair)
    t += "end Gen.Iso\n"
    o.files["Iso.lean"] = t
