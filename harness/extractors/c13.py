"""Histogram constants: orso/profiler/distogram/__init__.py and the profiler's bin count."""
import ast

from ..extract import HEADER, Src


def generate(o):
    src = Src("orso/profiler/distogram/__init__.py")
    prof = Src("orso/profiler/profiler.py")

    def default_cap():
        # the limit a histogram gets from `Distogram()` — what `load` constructs
        fn = src.func("__init__", "Distogram")
        d = fn.args.defaults[-1]
        if isinstance(d, ast.Name):
            return int(src.assign(d.id))
        return int(ast.literal_eval(d))

    def bulk_factor():
        fn = src.func("bulkload", "Distogram")
        for n in ast.walk(fn):
            if isinstance(n, ast.Compare) and isinstance(n.comparators[0], ast.BinOp) and isinstance(n.comparators[0].op, ast.Mult):
                b = n.comparators[0]
                for side in (b.left, b.right):
                    if isinstance(side, ast.Constant) and isinstance(side.value, int):
                        return side.value
        raise KeyError("bulk threshold")

    def class_node():
        for n in src.tree.body:
            if isinstance(n, ast.ClassDef) and n.name == "Distogram":
                return n
        raise KeyError("Distogram")

    def class_dunders():
        # every `__x__` the class body defines: `def __x__` or `__x__ = ...` (e.g. `__iadd__ = __add__`)
        names = set()
        for n in class_node().body:
            if isinstance(n, (ast.FunctionDef, ast.AsyncFunctionDef)):
                names.add(n.name)
            elif isinstance(n, ast.Assign):
                names.update(t.id for t in n.targets if isinstance(t, ast.Name))
        return sorted(x for x in names if x.startswith("__") and x.endswith("__") and x != "__slots__")

    def augmented_add():
        """What `acc += part` runs.  No `__iadd__` in the class: Python falls back to `__add__`.  An `__iadd__` that hands
        over to `__add__` (`__iadd__ = __add__`, `return self + operand`, `return self.__add__(operand)`) is `__add__` too;
        one that returns the bare `merge(self, operand)` is the bare merge (bounds from the operand's bin centres);
        anything else is not recognised (degrades to the pinned value; the `+=` histories judge it on every run)."""
        for n in class_node().body:
            if isinstance(n, ast.Assign) and any(isinstance(t, ast.Name) and t.id == "__iadd__" for t in n.targets):
                if isinstance(n.value, ast.Name) and n.value.id == "__add__":
                    return "__add__"
                raise KeyError("__iadd__ assigned from something else")
            if isinstance(n, ast.FunctionDef) and n.name == "__iadd__":
                args = [a.arg for a in n.args.args]
                body = [b for b in n.body if not (isinstance(b, ast.Expr) and isinstance(b.value, ast.Constant))]
                if len(args) == 2 and len(body) == 1 and isinstance(body[0], ast.Return) and body[0].value is not None:
                    text = ast.unparse(body[0].value).replace(" ", "")
                    me, op = args
                    if text in ("%s+%s" % (me, op), "%s.__add__(%s)" % (me, op), "Distogram.__add__(%s,%s)" % (me, op)):
                        return "__add__"
                    if text in ("merge(%s,%s)" % (me, op), "merge(h1=%s,h2=%s)" % (me, op)):
                        return "merge"
                raise KeyError("__iadd__ body not recognised")
        return "__add__"

    dunders = o.item("distogram.class_dunders", class_dunders, ["__add__", "__init__"])
    aug = o.item("distogram.augmented_add", augmented_add, "__add__")
    cap = o.item("distogram.default_bin_count", default_cap, 50)
    fac = o.item("distogram.bulk_factor", bulk_factor, 5)
    pb = o.item("profiler.DISTOGRAM_BIN_COUNT", lambda: int(prof.assign("DISTOGRAM_BIN_COUNT")), 50)
    text = HEADER + "namespace Gen.Distogram\n"
    text += "/-- `Distogram(bin_count=BIN_COUNT)`: the limit of a histogram made by `load` -/\n"
    text += "def binCount : Nat := %d\n" % cap
    text += "/-- bulkload bins through numpy.histogram above `bin_count * bulkFactor` distinct values -/\n"
    text += "def bulkFactor : Nat := %d\n" % fac
    text += "/-- number of numpy.histogram bins in a numeric column profile -/\n"
    text += "def profileBins : Nat := %d\n" % pb
    text += "/-- the special methods `class Distogram` defines itself (`def __x__` / `__x__ = ...`) -/\n"
    text += "def classDunders : List String := [%s]\n" % ", ".join('"%s"' % d for d in dunders)
    text += "/-- what `acc += part` runs: `__add__` when the class has no `__iadd__` (Python's fallback) or one that hands over\n"
    text += "to `__add__`; `merge` when `__iadd__` returns the bare `merge(self, operand)` -/\n"
    text += "def augmentedAdd : String := \"%s\"\n" % aug
    text += "end Gen.Distogram\n"
    o.files["Distogram.lean"] = text
