"""Histogram constants: orso/profiler/distogram/__init__.py and the profiler's bin count."""
import ast

from ..extract import HEADER, Src


def generate(o):
    src = Src("orso/profiler/distogram/__init__.py")
    prof = Src("orso/profiler/profiler.py")

    def default_cap():
        # the limit a histogram gets from `Distogram()` — what `load` constructs
        fn = src.func("__init__", "Distogram")
        d = fn.args.defaults[-1]
        if isinstance(d, ast.Name):
            return int(src.assign(d.id))
        return int(ast.literal_eval(d))

    def bulk_factor():
        fn = src.func("bulkload", "Distogram")
        for n in ast.walk(fn):
            if isinstance(n, ast.Compare) and isinstance(n.comparators[0], ast.BinOp) and isinstance(n.comparators[0].op, ast.Mult):
                b = n.comparators[0]
                for side in (b.left, b.right):
                    if isinstance(side, ast.Constant) and isinstance(side.value, int):
                        return side.value
        raise KeyError("bulk threshold")

    cap = o.item("distogram.default_bin_count", default_cap, 50)
    fac = o.item("distogram.bulk_factor", bulk_factor, 5)
    pb = o.item("profiler.DISTOGRAM_BIN_COUNT", lambda: int(prof.assign("DISTOGRAM_BIN_COUNT")), 50)
    text = HEADER + "namespace Gen.Distogram\n"
    text += "/-- `Distogram(bin_count=BIN_COUNT)`: the limit of a histogram made by `load` -/\n"
    text += "def binCount : Nat := %d\n" % cap
    text += "/-- bulkload bins through numpy.histogram above `bin_count * bulkFactor` distinct values -/\n"
    text += "def bulkFactor : Nat := %d\n" % fac
    text += "/-- number of numpy.histogram bins in a numeric column profile -/\n"
    text += "def profileBins : Nat := %d\n" % pb
    text += "end Gen.Distogram\n"
    o.files["Distogram.lean"] = text
