"""C18: the arithmetic of ascii_table / trunc_printable / markdown, lifted from the AST into Lean terms.

Generated/DisplayExpr.lean holds the *expressions* orso/display.py contains now (thresholds, guards,
label shifts, width formulas, padding, divisors).  Model/Display.lean assembles them in a hand-written
skeleton (`srcArith`), so the C18 theorems are re-checked against the arithmetic in the code: a changed
operator or constant makes the matching `src_*` theorem of Props/C18.lean fail to compile.
Every item degrades to its pinned text when the statement is not found in the expected shape.
"""
import ast

from ..extract import HEADER, Src
from ..pyexpr import assignments, find_function, to_lean

PINNED = {
    "headTailTest": "(n ≥ ((2 * limit) + 1))",
    "lazyLenUpdate": "(ll + (headLen + 1))",
    "lazyHeadOnlyLen": "tlen",
    "lazyLenInit": "0",
    "idxWidthLazy": "((id (digits (ll + 1))) + 2)",
    "idxWidthEager": "((id (digits n)) + 2)",
    "colWidth": "(min (max3 cw ctw dw) maxcol)",
    "measureRows": "tlen",
    "lazyHeadOnlyTake": "limit",
    "lazyHeadTake": "limit",
    "dequeMax": "limit",
    "eagerHeadSize": "limit",
    "eagerTailSize": "limit",
    "eagerSliceLen": "limit",
    "eagerSplitTest": "(n > (2 * limit))",
    "eagerEllipsisTest": "(i = limit)",
    "eagerTailTest": "(i ≥ limit)",
    "eagerShift": "(i + (n - (2 * limit)))",
    "eagerLabel": "(i + 1)",
    "labelPad": "(iw - 1)",
    "lazyOffsetInit": "1",
    "lazyEllipsisTest": "((i = limit) ∧ (ll > (2 * limit)))",
    "lazyOffsetUpdate": "(offset + (ll - (2 * limit)))",
    "lazyLabel": "(i + offset)",
    "truncStopTest": "(offset ≥ width)",
    "truncPad": "(width - offset)",
    "truncNewlineStep": "(offset + 1)",
    "mdIdxWidth": "(id (digits n))",
    "mdColWidth": "(min (max cw dw) maxcol)",
    "mdHeadPad": "(iw - 2)",
    "mdSepLen": "iw",
    "mdLabel": "(i + 1)",
    "mdLabelPad": "(iw - 1)",
    "mdFloor": "4",
    "hourDiv": "3600",
    "minuteDiv": "60",
    "monthDiv": "12",
}

SIGS = [
    ("headTailTest", "(n limit : Int) : Prop", "`table.rowcount >= 2 * limit + 1`: head and tail are cut out of an eager table"),
    ("lazyLenInit", ": Int", "`lazy_length = 0`"),
    ("lazyLenUpdate", "(ll headLen : Int) : Int", "`lazy_length += len(head) + 1` after the loop over the remaining rows"),
    ("lazyHeadOnlyLen", "(tlen : Int) : Int", "`lazy_length = t.rowcount` in head-only mode"),
    ("idxWidthLazy", "(digits : Int → Int) (ll : Int) : Int", "`len(str(lazy_length + 1)) + 2` (`digits x` = `len(str(x))`)"),
    ("idxWidthEager", "(digits : Int → Int) (n : Int) : Int", "`len(str(len(table))) + 2`"),
    ("colWidth", "(cw ctw dw maxcol : Int) : Int", "`min(max(cw, ctw, dw), max_column_width)`"),
    ("measureRows", "(tlen limit : Int) : Int", "how many rows of the printed frame `t` are measured for the column widths: `calculate_data_width(t.collect(i))` measures all `t.rowcount` of them"),
    ("lazyHeadOnlyTake", "(limit : Int) : Int", "head-only, lazy: `islice(table._rows, limit)`"),
    ("lazyHeadTake", "(limit : Int) : Int", "head and tail, lazy: `head = list(islice(table._rows, limit))`"),
    ("dequeMax", "(limit : Int) : Int", "head and tail, lazy: `deque(maxlen=limit)`"),
    ("eagerHeadSize", "(limit : Int) : Int", "head and tail, eager: `table.head(size=limit)`"),
    ("eagerTailSize", "(limit : Int) : Int", "head and tail, eager: `table.tail(size=limit)`"),
    ("eagerSliceLen", "(limit : Int) : Int", "head-only, eager: `table.slice(length=limit)`"),
    ("eagerSplitTest", "(n limit : Int) : Prop", "`table.rowcount > 2 * limit` (eager label branch)"),
    ("eagerEllipsisTest", "(i limit : Int) : Prop", "`i == limit`: the ellipsis goes before this row"),
    ("eagerTailTest", "(i limit : Int) : Prop", "`i >= limit`: the row belongs to the tail"),
    ("eagerShift", "(i n tlen limit : Int) : Int", "`i` after `i += table.rowcount - 2 * limit` (`tlen` = `t.rowcount`)"),
    ("eagerLabel", "(i : Int) : Int", "`str(i + 1)`"),
    ("labelPad", "(iw : Int) : Int", "`.rjust(index_width - 1)`"),
    ("lazyOffsetInit", ": Int", "`offset = 1`"),
    ("lazyEllipsisTest", "(i limit ll : Int) : Prop", "`i == limit and lazy_length > 2 * limit`"),
    ("lazyOffsetUpdate", "(offset ll limit : Int) : Int", "`offset += lazy_length - 2 * limit`"),
    ("lazyLabel", "(i offset : Int) : Int", "`str(i + offset)`"),
    ("truncStopTest", "(offset width : Int) : Prop", "trunc_printable: `offset >= width` ends the text"),
    ("truncPad", "(width offset : Int) : Int", "trunc_printable: `\" \" * (width - offset)`"),
    ("truncNewlineStep", "(offset : Int) : Int", "trunc_printable: `offset += 1` for a line break"),
    ("mdIdxWidth", "(digits : Int → Int) (n : Int) : Int", "markdown: `len(str(len(table)))`"),
    ("mdColWidth", "(cw dw maxcol : Int) : Int", "markdown: `min(max(cw, dw), max_column_width)`"),
    ("mdHeadPad", "(iw : Int) : Int", "markdown header: `\" \" * (index_width - 2)`"),
    ("mdSepLen", "(iw : Int) : Int", "markdown separator: `\"-\" * index_width`"),
    ("mdLabel", "(i : Int) : Int", "markdown: `str(i + 1)`"),
    ("mdLabelPad", "(iw : Int) : Int", "markdown: `.rjust(index_width - 1)`"),
    ("mdFloor", ": Int", "markdown: the `[4]` floor of a column's data width"),
    ("hourDiv", ": Int", "interval: `divmod(seconds, 3600)`"),
    ("minuteDiv", ": Int", "interval: `divmod(seconds, 60)`"),
    ("monthDiv", ": Int", "interval: `divmod(months, 12)`"),
]


def _walk_sorted(node, kind):
    out = [n for n in ast.walk(node) if isinstance(n, kind)]
    out.sort(key=lambda n: (n.lineno, n.col_offset))
    return out


def _compare_with(test, needle):
    """The comparison mentioning `needle` inside a test (the test itself or a conjunct of it)."""
    cands = [test] + (list(test.values) if isinstance(test, ast.BoolOp) and isinstance(test.op, ast.And) else [])
    for c in cands:
        if isinstance(c, ast.Compare) and needle in ast.unparse(c):
            return c
    raise KeyError("comparison with " + needle)


def generate(o):
    src = Src("orso/display.py")
    DIG = {"len": "id", "str": "digits"}

    def fn():
        return find_function(src.tree, "ascii_table")

    def inner():
        return find_function(fn(), "_inner")

    def trunc():
        return find_function(fn(), "trunc_printable")

    def md():
        return find_function(src.tree, "markdown")

    # ---- selection
    def head_tail():
        for st in _walk_sorted(fn(), ast.If):
            t = ast.unparse(st.test)
            if "table.rowcount" in t and "is_lazy" in t and "table.head" in ast.unparse(st.body[0]):
                return to_lean(_compare_with(st.test, "table.rowcount"), {"table.rowcount": "n", "limit": "limit"})
        raise KeyError("if not is_lazy and table.rowcount >= ...")

    def lazy_assigns():
        f = fn()
        return [(st, e) for st, e in assignments(f, "lazy_length")]

    def lazy_init():
        for st, e in lazy_assigns():
            if isinstance(st, ast.Assign) and st in fn().body or isinstance(st, ast.Assign) and isinstance(e, ast.Constant):
                return to_lean(e, {})
        raise KeyError("lazy_length = 0")

    def lazy_update():
        aug = [e for st, e in lazy_assigns() if isinstance(st, ast.AugAssign)]
        if len(aug) != 1:
            raise KeyError("lazy_length += ...")
        return to_lean(aug[0], {"lazy_length": "ll", "len(head)": "headLen"})

    def lazy_head_only():
        for st, e in lazy_assigns():
            if isinstance(st, ast.Assign) and "t.rowcount" in ast.unparse(e):
                return to_lean(e, {"t.rowcount": "tlen"})
        raise KeyError("lazy_length = t.rowcount (head-only)")

    def idx(part):
        for st, e in assignments(fn(), "index_width"):
            if isinstance(e, ast.IfExp) and ast.unparse(e.test) == "is_lazy":
                node = e.body if part == "lazy" else e.orelse
                return to_lean(node, {"lazy_length": "ll", "len(table)": "n"}, funcs=DIG)
        raise KeyError("index_width = ... if is_lazy else ...")

    def col_width():
        for st, e in assignments(inner(), "col_width"):
            if isinstance(e, ast.ListComp) and isinstance(e.elt, ast.Call):
                elt = e.elt
                env = {"cw": "cw", "ctw": "ctw", "dw": "dw", "max_column_width": "maxcol"}
                funcs = {}
                for c in ast.walk(elt):
                    if isinstance(c, ast.Call) and isinstance(c.func, ast.Name) and c.func.id in ("max", "min") and len(c.args) == 3:
                        funcs[c.func.id] = c.func.id + "3"
                text = to_lean(elt, env, funcs=funcs)
                for name in ("cw", "ctw", "dw", "maxcol"):
                    if name not in text:
                        raise KeyError("column width does not use " + name)
                return text
        raise KeyError("col_width = [min(max(...), max_column_width) ...]")

    def measure_rows():
        """`data_width = [calculate_data_width(t.collect(i)) ...]`: the number of rows of `t` that are measured.
        `collect(i)` / `collect(i, None)` measures all rows (`tlen`); a row limit is translated (a name is resolved
        through its single assignment in `_inner`)."""
        f = inner()
        for st, e in assignments(f, "data_width"):
            calls = [c for c in ast.walk(e) if isinstance(c, ast.Call) and isinstance(c.func, ast.Attribute) and c.func.attr == "collect"]
            if len(calls) != 1 or ast.unparse(calls[0].func.value) != "t":
                continue
            if "calculate_data_width" not in ast.unparse(e):
                continue
            c = calls[0]
            lim = None
            if len(c.args) >= 2:
                lim = c.args[1]
            for kw in c.keywords:
                if kw.arg == "limit":
                    lim = kw.value
                elif kw.arg != "columns":
                    raise KeyError("collect keyword " + str(kw.arg))
            if lim is None:
                return "tlen"
            if isinstance(lim, ast.Name):
                defs = assignments(f, lim.id)
                if len(defs) != 1 or not isinstance(defs[0][0], ast.Assign):
                    raise KeyError("row limit %s is not a single assignment" % lim.id)
                lim = defs[0][1]
            return to_lean(lim, {"None": "tlen", "limit": "limit", "t.rowcount": "tlen", "len(t)": "tlen"})
        raise KeyError("data_width = [calculate_data_width(t.collect(i)) ...]")

    def _arg(call, pos, kw):
        for k in call.keywords:
            if k.arg == kw:
                return k.value
        if len(call.args) > pos:
            return call.args[pos]
        raise KeyError("argument %s of %s" % (kw, ast.unparse(call.func)))

    def cut_sizes():
        """The sizes in the head / tail selection: islice counts, deque maxlen, head / tail / slice sizes."""
        f = fn()
        env = {"limit": "limit"}
        out = {}
        stmts = [st for st in ast.walk(f) if isinstance(st, ast.Assign) and len(st.targets) == 1]
        for st in stmts:
            tgt = ast.unparse(st.targets[0])
            calls = [c for c in ast.walk(st.value) if isinstance(c, ast.Call)]
            for c in calls:
                name = ast.unparse(c.func)
                if name == "islice" and ast.unparse(c.args[0]) == "table._rows":
                    key = "lazyHeadTake" if tgt == "head" else ("lazyHeadOnlyTake" if tgt == "t" else None)
                    if key is None or key in out or len(c.args) != 2:
                        raise KeyError("islice site")
                    out[key] = to_lean(c.args[1], env)
                elif name == "deque":
                    if "dequeMax" in out:
                        raise KeyError("two deques")
                    out["dequeMax"] = to_lean(_arg(c, 1, "maxlen"), env)
                elif name == "table.head" and tgt == "t":
                    out["eagerHeadSize"] = to_lean(_arg(c, 0, "size"), env)
                elif name == "table.tail" and tgt == "t":
                    out["eagerTailSize"] = to_lean(_arg(c, 0, "size"), env)
                elif name == "table.slice" and tgt == "t":
                    if [k.arg for k in c.keywords] != ["length"] or c.args:
                        raise KeyError("table.slice arguments")
                    out["eagerSliceLen"] = to_lean(c.keywords[0].value, env)
        want = {"lazyHeadOnlyTake", "lazyHeadTake", "dequeMax", "eagerHeadSize", "eagerTailSize", "eagerSliceLen"}
        if set(out) != want:
            raise KeyError("selection sizes not found: %s" % sorted(want - set(out)))
        return out

    # ---- labels
    def branches():
        for st in _walk_sorted(inner(), ast.If):
            if ast.unparse(st.test) == "is_lazy" and st.orelse:
                lz = [n for n in st.body if isinstance(n, ast.For)]
                eg = [n for n in st.orelse if isinstance(n, ast.For)]
                if len(lz) == 1 and len(eg) == 1:
                    return lz[0], eg[0]
        raise KeyError("if is_lazy: for ... else: for ...")

    def eager_parts():
        _, loop = branches()
        env = {"table.rowcount": "n", "t.rowcount": "tlen", "limit": "limit", "i": "i"}
        for outer in _walk_sorted(loop, ast.If):
            inner_ifs = [s for s in outer.body if isinstance(s, ast.If)]
            shift = [s for s in inner_ifs if any(isinstance(b, ast.AugAssign) and ast.unparse(b.target) == "i" for b in s.body)]
            ell = [s for s in inner_ifs if any(isinstance(b, ast.Expr) and isinstance(b.value, ast.Yield) for b in s.body)]
            if len(shift) == 1 and len(ell) == 1:
                aug = [b for b in shift[0].body if isinstance(b, ast.AugAssign)][0]
                if not isinstance(aug.op, ast.Add):
                    raise KeyError("i += ...")
                return {
                    "split": to_lean(_compare_with(outer.test, "limit"), env),
                    "ell": to_lean(ell[0].test, env),
                    "tail": to_lean(shift[0].test, env),
                    "shift": to_lean(ast.BinOp(left=aug.target, op=aug.op, right=aug.value), env),
                }
        raise KeyError("eager label branch")

    def label_of(loop, env):
        for c in _walk_sorted(loop, ast.Call):
            if isinstance(c.func, ast.Attribute) and c.func.attr == "rjust" and isinstance(c.func.value, ast.Call) \
                    and ast.unparse(c.func.value.func) == "str" and len(c.args) == 1 and "index_width" in ast.unparse(c.args[0]):
                return to_lean(c.func.value.args[0], env), to_lean(c.args[0], {"index_width": "iw"})
        raise KeyError("str(label).rjust(index_width - 1)")

    def lazy_parts():
        loop, _ = branches()
        env = {"lazy_length": "ll", "limit": "limit", "i": "i", "offset": "offset"}
        ifs = [s for s in _walk_sorted(loop, ast.If) if any(isinstance(b, ast.AugAssign) and ast.unparse(b.target) == "offset" for b in s.body)]
        if len(ifs) != 1:
            raise KeyError("lazy ellipsis branch")
        aug = [b for b in ifs[0].body if isinstance(b, ast.AugAssign)][0]
        if not isinstance(aug.op, ast.Add):
            raise KeyError("offset += ...")
        return {"test": to_lean(ifs[0].test, env), "upd": to_lean(ast.BinOp(left=aug.target, op=aug.op, right=aug.value), env)}

    def lazy_offset_init():
        for st in _walk_sorted(inner(), ast.If):
            if ast.unparse(st.test) == "is_lazy":
                for b in st.body:
                    if isinstance(b, ast.Assign) and ast.unparse(b.targets[0]) == "offset":
                        return to_lean(b.value, {})
        raise KeyError("offset = 1")

    # ---- trunc_printable
    def trunc_stop():
        for st in _walk_sorted(trunc(), ast.If):
            t = ast.unparse(st.test)
            if "offset" in t and "width" in t and isinstance(st.body[0], ast.Return):
                return to_lean(_compare_with(st.test, "offset"), {"offset": "offset", "width": "width"})
        raise KeyError("if not ignoring and offset >= width: return")

    def trunc_pad():
        for b in _walk_sorted(trunc(), ast.BinOp):
            if isinstance(b.op, ast.Mult) and isinstance(b.left, ast.Constant) and b.left.value == " ":
                return to_lean(b.right, {"offset": "offset", "width": "width"})
        raise KeyError('" " * (width - offset)')

    def trunc_newline():
        for st in _walk_sorted(trunc(), ast.If):
            if "'\\n'" in ast.unparse(st.test):
                for b in st.body:
                    if isinstance(b, ast.AugAssign) and ast.unparse(b.target) == "offset":
                        return to_lean(ast.BinOp(left=b.target, op=b.op, right=b.value), {"offset": "offset"})
        raise KeyError("offset += 1 for a line break")

    # ---- markdown
    def md_idx():
        for st, e in assignments(md(), "index_width"):
            return to_lean(e, {"len(table)": "n"}, funcs=DIG)
        raise KeyError("markdown index_width")

    def md_col():
        for st, e in assignments(md(), "col_width"):
            if isinstance(e, ast.ListComp) and isinstance(e.elt, ast.Call):
                text = to_lean(e.elt, {"cw": "cw", "dw": "dw", "max_column_width": "maxcol"})
                for name in ("cw", "dw", "maxcol"):
                    if name not in text:
                        raise KeyError("markdown column width does not use " + name)
                return text
        raise KeyError("markdown col_width")

    def md_mults():
        out = {}
        for b in _walk_sorted(md(), ast.BinOp):
            if isinstance(b.op, ast.Mult) and isinstance(b.left, ast.Constant) and b.left.value in (" ", "-") \
                    and "index_width" in ast.unparse(b.right):
                out[b.left.value] = to_lean(b.right, {"index_width": "iw"})
        if set(out) != {" ", "-"}:
            raise KeyError("markdown paddings")
        return out

    def md_floor():
        for st, e in assignments(md(), "data_width"):
            lists = [n for n in ast.walk(e) if isinstance(n, ast.List) and len(n.elts) == 1 and isinstance(n.elts[0], ast.Constant)
                     and isinstance(n.elts[0].value, int)]
            if len(lists) == 1:
                return "%d" % lists[0].elts[0].value
        raise KeyError("markdown data width floor")

    def divisors():
        tf = find_function(fn(), "type_formatter")
        out = {}
        for st in _walk_sorted(tf, ast.Assign):
            if isinstance(st.value, ast.Call) and ast.unparse(st.value.func) == "divmod" and len(st.value.args) == 2 \
                    and isinstance(st.value.args[1], ast.Constant) and isinstance(st.targets[0], ast.Tuple):
                names = tuple(ast.unparse(x) for x in st.targets[0].elts)
                arg = ast.unparse(st.value.args[0])
                out[(names, arg)] = int(st.value.args[1].value)
        want = {"hourDiv": (("hours", "seconds"), "seconds"), "minuteDiv": (("minutes", "seconds"), "seconds"),
                "monthDiv": (("years", "months"), "months")}
        res = {}
        for k, key in want.items():
            if key not in out:
                raise KeyError("divmod for " + k)
            res[k] = "%d" % out[key]
        return res

    v = {}

    def item(key, getter):
        v[key] = o.item("displayexpr." + key, getter, PINNED[key])

    item("headTailTest", head_tail)
    item("lazyLenInit", lazy_init)
    item("lazyLenUpdate", lazy_update)
    item("lazyHeadOnlyLen", lazy_head_only)
    item("idxWidthLazy", lambda: idx("lazy"))
    item("idxWidthEager", lambda: idx("eager"))
    item("colWidth", col_width)
    item("measureRows", measure_rows)
    cs = o.item("displayexpr.selection_sizes", cut_sizes, {k: PINNED[k] for k in ("lazyHeadOnlyTake", "lazyHeadTake", "dequeMax", "eagerHeadSize",
                                                                                 "eagerTailSize", "eagerSliceLen")})
    v.update(cs)
    ep = o.item("displayexpr.eager_branch", eager_parts, {"split": PINNED["eagerSplitTest"], "ell": PINNED["eagerEllipsisTest"],
                                                         "tail": PINNED["eagerTailTest"], "shift": PINNED["eagerShift"]})
    v["eagerSplitTest"], v["eagerEllipsisTest"], v["eagerTailTest"], v["eagerShift"] = ep["split"], ep["ell"], ep["tail"], ep["shift"]
    el = o.item("displayexpr.eager_label", lambda: list(label_of(branches()[1], {"i": "i"})), [PINNED["eagerLabel"], PINNED["labelPad"]])
    v["eagerLabel"], v["labelPad"] = el[0], el[1]
    item("lazyOffsetInit", lazy_offset_init)
    lp = o.item("displayexpr.lazy_branch", lazy_parts, {"test": PINNED["lazyEllipsisTest"], "upd": PINNED["lazyOffsetUpdate"]})
    v["lazyEllipsisTest"], v["lazyOffsetUpdate"] = lp["test"], lp["upd"]
    ll = o.item("displayexpr.lazy_label", lambda: list(label_of(branches()[0], {"i": "i", "offset": "offset"})), [PINNED["lazyLabel"], PINNED["labelPad"]])
    v["lazyLabel"] = ll[0]
    if ll[1] != v["labelPad"]:
        o.degraded.append("displayexpr.lazy_label_pad (differs from the eager one: %s)" % ll[1])
    item("truncStopTest", trunc_stop)
    item("truncPad", trunc_pad)
    item("truncNewlineStep", trunc_newline)
    item("mdIdxWidth", md_idx)
    item("mdColWidth", md_col)
    mm = o.item("displayexpr.md_paddings", md_mults, {" ": PINNED["mdHeadPad"], "-": PINNED["mdSepLen"]})
    v["mdHeadPad"], v["mdSepLen"] = mm[" "], mm["-"]
    ml = o.item("displayexpr.md_label", lambda: list(label_of(md(), {"i": "i"})), [PINNED["mdLabel"], PINNED["mdLabelPad"]])
    v["mdLabel"], v["mdLabelPad"] = ml[0], ml[1]
    item("mdFloor", md_floor)
    dv = o.item("displayexpr.interval_divisors", divisors, {k: PINNED[k] for k in ("hourDiv", "minuteDiv", "monthDiv")})
    v.update(dv)

    text = HEADER + "set_option linter.unusedVariables false\nnamespace Gen.DisplayExpr\n"
    text += "def max3 (a b c : Int) : Int := max (max a b) c\n"
    text += "def min3 (a b c : Int) : Int := min (min a b) c\n"
    for name, sig, doc in SIGS:
        text += "/-- %s -/\n" % doc
        text += "def %s %s := %s\n" % (name, sig, v[name])
        if sig.endswith(": Prop"):
            args = sig[: sig.rindex(":")].strip()
            names = " ".join(a for a in args.replace("(", " ").replace(")", " ").replace(": Int", " ").split())
            text += "instance %s : Decidable (%s %s) := by unfold %s; infer_instance\n" % (args, name, names, name)
    text += "end Gen.DisplayExpr\n"
    o.files["DisplayExpr.lean"] = text
