/-- `parse_iso`, the body of the `try`: the type dispatch in front of the string branch, statement by statement -/
def dispatch (value0 : DVal) : Except Exc (Option DateTime) := do
  let mut value := value0
  let mut input_type := ""
  -- input_type = type(value)
  input_type := pyType value
  -- if isinstance(value, bytes):
  if pyIsInstanceD value ["bytes"] then
    -- value = value.decode('utf-8')
    value ← pyDecodeUtf8 value
    -- input_type = str
    input_type := "str"
  -- if input_type == str and value.isdigit():
  if input_type == "str" then
   if (← pyIsDigit value) then
     -- value = int(value)
     value := DVal.intv (← pyIntOf value)
     -- input_type = int
     input_type := "int"
  -- if input_type == numpy.datetime64:
  if input_type == "numpy.datetime64" then
    -- (block not translated: no modelled input has this class)
    throw (pyUnmodelled "numpy.datetime64")
  -- if input_type in (int, numpy.int64, float, numpy.float64):
  if pyTypeIn input_type ["int", "numpy.int64", "float", "numpy.float64"] then
    -- return datetime.datetime.fromtimestamp(int(value), tz=datetime.timezone.utc).replace(tzinfo=None)
    return ← pyFromTimestampUtc (← pyIntOf value)
  -- if hasattr(value, 'to_pydatetime'):
  if pyHasAttr value "to_pydatetime" then
    -- return value.to_pydatetime()
    return ← pyCallNoArg value "to_pydatetime"
  -- if input_type == datetime.datetime:
  if input_type == "datetime.datetime" then
    -- return value.replace(microsecond=0)
    return ← pyReplaceMicro0 value
  -- if input_type == datetime.date:
  if input_type == "datetime.date" then
    -- return datetime.datetime.combine(value, datetime.time.min)
    return ← pyCombineMin value
  -- if input_type == str and 10 <= len(value) <= 33: <the string branch, Gen.IsoText.textBranch> ; return None
  if input_type == "str" then
    return ← pyTextBranch value
  return none
