"""C01: the *tag texts* of the row codec, read from the working tree on every run -> `Generated/RowMarkers.lean`
(namespace `Gen.RowMarkers`).

The property reserves exactly one form, the two-element list `['__datetime__', x]`.  A second tag (a `Decimal` written as
`('__decimal__', text)` and rebuilt by a test `value[0] == '__decimal__'` in `Row.from_bytes` or a helper of it) takes
ordinary values of the domain away.  Three lists:

* `testedPyx`  -- the texts `from_bytes_cython` (compiled.pyx) compares something with (`== "…"`, `!= "…"`, `in ("…", …)`),
  and every quoted `__word__` literal in the text of that function;
* `testedRow`  -- the texts orso/row.py (the whole module: `Row.from_bytes`, helpers at module level) compares a value
  with, when the text looks like a tag (`__word__`) or the other side of the comparison is an element picked by a constant
  index (`value[0] == "…"`); names are resolved through `NAME = "text"` / `NAME = b"text"` assignments (module level or local; binary literals count as their text); `match` patterns count;
* `writtenRow` -- the first elements of the tuple / list literals of orso/row.py (two or more elements) that are such texts:
  what `serialize` (the `default=` hook of `packb`) can put in front of a payload.

`Props/C01.lean: only_rewritten_shape_is_reserved_pair` states that every one of them is the reserved marker.  A shape
that cannot be read degrades to the pinned lists (of the tree as it is)."""
import ast
import re

from ..extract import HEADER, Src, lean_list, lean_str

_TAG = re.compile(r"^__\w+__$")


def _python_names():
    """the special names of Python itself (`__dict__`, `__new__`, `__main__`, …): a comparison with one of them is
    introspection, not a tag test"""
    import types

    names = {"__main__", "__slots__", "__dict__", "__weakref__", "__all__", "__file__", "__path__", "__builtins__", "__annotations__",
             "__wrapped__", "__match_args__", "__post_init__", "__class_getitem__", "__set_name__", "__missing__", "__fspath__"}
    for t in (object, type, tuple, list, dict, set, int, float, str, bytes, types.FunctionType, types.ModuleType, BaseException):
        names.update(n for n in dir(t) if _TAG.match(n))
    return names


_PYTHON_NAMES = _python_names()


class _TagLike:
    @staticmethod
    def match(t):
        return bool(_TAG.match(t)) and t not in _PYTHON_NAMES


TAGLIKE = _TagLike


def _module_texts(tree):
    env = {}
    for n in ast.walk(tree):  # module level and local names alike
        tgt = val = None
        if isinstance(n, ast.Assign) and len(n.targets) == 1:
            tgt, val = n.targets[0], n.value
        elif isinstance(n, ast.AnnAssign) and n.value is not None:
            tgt, val = n.target, n.value
        if isinstance(tgt, ast.Name) and isinstance(val, ast.Constant) and isinstance(val.value, (str, bytes)):
            env[tgt.id] = val.value if isinstance(val.value, str) else val.value.decode("latin-1")
    return env


def _texts(node, env):
    """the texts an expression denotes: a literal, a module-level name of one, a tuple/list/set of those"""
    if isinstance(node, ast.Constant) and isinstance(node.value, str):
        return [node.value]
    if isinstance(node, ast.Constant) and isinstance(node.value, bytes):
        return [node.value.decode("latin-1")]
    if isinstance(node, ast.Name) and node.id in env:
        return [env[node.id]]
    if isinstance(node, (ast.Tuple, ast.List, ast.Set)):
        return [t for e in node.elts for t in _texts(e, env)]
    return []


def _const_index(node):
    return isinstance(node, ast.Subscript) and isinstance(node.slice, ast.Constant) and isinstance(node.slice.value, int)


def tested_row(row):
    if row.tree is None:
        raise KeyError("orso/row.py does not parse")
    env = _module_texts(row.tree)
    out = []
    for n in ast.walk(row.tree):
        if isinstance(n, ast.Compare):
            sides = [n.left] + list(n.comparators)
            picked = any(_const_index(s) for s in sides)
            for s in sides:
                for t in _texts(s, env):
                    if TAGLIKE.match(t) or picked:
                        out.append(t)
        elif isinstance(n, ast.MatchValue):
            out += [t for t in _texts(n.value, env) if TAGLIKE.match(t)]
        elif isinstance(n, ast.Call) and isinstance(n.func, ast.Attribute) and n.func.attr in ("get", "pop", "startswith") and n.args:
            out += [t for t in _texts(n.args[0], env) if TAGLIKE.match(t)]
    return sorted(set(out))


def written_row(row):
    if row.tree is None:
        raise KeyError("orso/row.py does not parse")
    env = _module_texts(row.tree)
    out = []
    for n in ast.walk(row.tree):
        if isinstance(n, (ast.Tuple, ast.List)) and len(n.elts) >= 2 and isinstance(getattr(n, "ctx", None), ast.Load):
            for t in _texts(n.elts[0], env) if not isinstance(n.elts[0], (ast.Tuple, ast.List, ast.Set)) else []:
                if TAGLIKE.match(t):
                    out.append(t)
        elif isinstance(n, ast.Dict):
            for k in n.keys:
                if k is not None and isinstance(k, ast.Constant) and isinstance(k.value, str) and TAGLIKE.match(k.value) and k.value.strip("_") in ("type", "class", "tag", "kind"):
                    out.append(k.value)
    return sorted(set(out))


def tested_pyx(pyx):
    m = re.search(r"(?ms)^(?:cpdef|def)\s[^\n]*?\bfrom_bytes_cython\s*\(.*?(?=^\S)", pyx.text + "\nX")
    if not m:
        raise KeyError("from_bytes_cython")
    text = "\n".join(l.split("#", 1)[0] for l in m.group(0).split("\n"))
    text = re.sub(r'(?s)""".*?"""', "", text)
    out = []
    q = r"""(["'])((?:(?!\1).)*)\1"""
    for mm in re.finditer(r"(?:==|!=|\bin\b)\s*[\(\[\{]?\s*" + q, text):
        out.append(mm.group(2))
    for mm in re.finditer(q + r"\s*(?:==|!=)", text):
        out.append(mm.group(2))
    for mm in re.finditer(q, text):
        if TAGLIKE.match(mm.group(2)):
            out.append(mm.group(2))
    return sorted(set(out))


def generate(o):
    row = Src("orso/row.py")
    pyx = Src("orso/compute/compiled.pyx")
    tp = o.item("c01.markers.tested_pyx", lambda: tested_pyx(pyx), ["__datetime__"])
    tr = o.item("c01.markers.tested_row", lambda: tested_row(row), [])
    wr = o.item("c01.markers.written_row", lambda: written_row(row), ["__datetime__"])
    text = HEADER + "namespace Gen.RowMarkers\n"
    text += "/-- the texts `from_bytes_cython` (compiled.pyx) compares an item / an element of an item with -/\n"
    text += "def testedPyx : List String := %s\n" % lean_list(tp, lean_str)
    text += "/-- the tag-like texts orso/row.py (any function of the module) compares a value with -/\n"
    text += "def testedRow : List String := %s\n" % lean_list(tr, lean_str)
    text += "/-- the tag-like texts that head a tuple / list literal of orso/row.py (what `serialize` can put in front of a payload) -/\n"
    text += "def writtenRow : List String := %s\n" % lean_list(wr, lean_str)
    text += "end Gen.RowMarkers\n"
    o.files["RowMarkers.lean"] = text
