"""C13: the statements *around* the update path of the streaming histogram, lifted from the AST into Lean terms.

`Generated/DistogramOps.lean` holds what `orso/profiler/distogram/__init__.py` says now about
  * `Distogram.__add__`: the test that decides whether the right operand contributes bounds (an `Option`-level test:
    `x is not None`, `x is None`, bare truthiness, and/or/not) and the two bound expressions (`min(..)`, `max(..)`);
  * `Distogram.bulkload`: the test that sends an array through numpy.histogram (number of distinct values against the
    limit), the guard on a count inside the insertion loop, the test for "no bounds yet" and the two bound expressions;
  * `update`: whether the two bound updates are independent statements (`if … if …`) or chained (`if … elif …`), and the
    new cached minimum after an append (`min(h.min_diff, diff)`);
  * `_update_diffs`: the two position guards (`i > 0`, `i < len(h.bins) - 1`), the stale-minimum test, the lowering
    test and the stored gap;
  * `_trim`: the positions it reads, pops (bins and cache) and refreshes (`i`, `i + 1`, `i`, `i`);
  * the six tests on the optional gap cache (`h.diffs is not None` in `_update_diffs`, twice in `_trim`, twice in `update`;
    `h.diffs is None` in `_search_in_place_index`) as tests over `Option (List K)` — `is not None`, `is None`, bare
    truthiness (`None` *and the empty list* are false: what `load()` of a single bin creates), and/or/not;
  * `update`: the test that separates the append from the insert (`index == -1`); `merge`: which component of a bin is
    handed to `update` as the value and which as the count; `_compute_diffs`: the gap it caches; `load`: the test that
    decides between `min(diffs)` and infinity; `_trim` without a cache: the position and the gap it scans.
`Model/Distogram.lean` is the skeleton over them; `Lemmas/Distogram.lean` proves the `*_def` equations that give each one
the meaning the proofs use, so a changed test, operator, offset or statement chain breaks a named lemma *and* is followed
by the executable model.  A statement that is not found in the expected shape degrades to the pinned text, never alarms.
"""
import ast
import re

from ..extract import HEADER, Src
from ..pyexpr import Untranslatable, find_function, to_lean
from .c13expr import one

PIN = {
    "add.guard": "omin.isSome",
    "add.min": "(pyMin a c)",
    "add.max": "(pyMax b d)",
    "bulk.above": "(distinct > (cap * 5))",
    "bulk.take": "(count > 0)",
    "bulk.fresh": "smin.isNone",
    "bulk.min": "(pyMin a lo)",
    "bulk.max": "(pyMax b hi)",
    "update.bump_chained": "false",
    "update.append_min_diff": "(pyMin m diff)",
    "ud.left": "(i > 0)",
    "ud.right": "(i < (len - 1))",
    "ud.stale": "(eqK old md)",
    "ud.lower": "(nd < md)",
    "ud.gap": "(hi - lo)",
    "trim.stored": "(pyMin (pyMax c v1) v2)",
    "inplace.stored": "(pyMin (pyMax c (pyMin sv nv)) (pyMax sv nv))",
    "trim.keep": "i",
    "trim.pop_bin": "(i + 1)",
    "trim.pop_diff": "i",
    "trim.refresh": "i",
    "cache.ud": "d.isSome",
    "cache.trim_pick": "d.isSome",
    "cache.trim_keep": "d.isSome",
    "cache.append": "d.isSome",
    "cache.insert": "d.isSome",
    "cache.search_missing": "d.isNone",
    "update.is_append": "(index = (-1))",
    "merge.value": "value",
    "merge.count": "counts",
    "compute.gap": "(v2 - v1)",
    "load.has_diffs": "(listTruthy d)",
    "load.turns": "(len - 1)",
    "load.no_diffs": "none",
    "trim.scan_idx": "(i - 1)",
    "trim.scan_gap": "(cur - prev)",
}


def nows(node):
    return ast.unparse(node).replace(" ", "")


class _Eq(ast.NodeTransformer):
    def visit_Compare(self, n):
        self.generic_visit(n)
        if len(n.ops) == 1 and isinstance(n.ops[0], ast.Eq):
            return ast.Call(func=ast.Name(id="eqK", ctx=ast.Load()), args=[n.left, n.comparators[0]], keywords=[])
        return n


def field(node, env):
    """Arithmetic / comparison over the carrier; Python's two-argument min/max keep their tie rule (pyMin/pyMax)."""
    node = ast.fix_missing_locations(_Eq().visit(ast.parse(ast.unparse(node), mode="eval").body))
    return to_lean(node, env, mode="field", funcs={"eqK": "eqK", "min": "pyMin", "max": "pyMax"})


def opt_bool(node, env):
    """A Python test over values that may be None -> Bool over `Option K`."""
    if isinstance(node, ast.BoolOp):
        j = " && " if isinstance(node.op, ast.And) else " || "
        return "(" + j.join(opt_bool(v, env) for v in node.values) + ")"
    if isinstance(node, ast.UnaryOp) and isinstance(node.op, ast.Not):
        return "(!%s)" % opt_bool(node.operand, env)
    if (isinstance(node, ast.Compare) and len(node.ops) == 1 and isinstance(node.comparators[0], ast.Constant)
            and node.comparators[0].value is None and ast.unparse(node.left) in env):
        x = env[ast.unparse(node.left)]
        if isinstance(node.ops[0], ast.IsNot):
            return "%s.isSome" % x
        if isinstance(node.ops[0], ast.Is):
            return "%s.isNone" % x
    if ast.unparse(node) in env:  # bare truthiness: None and zero are false
        return "(optTruthy %s)" % env[ast.unparse(node)]
    raise Untranslatable("option test: %s" % ast.unparse(node))


def cache_bool(node, names=("h.diffs",), var="d", truthy="cacheTruthy"):
    """A Python test on the optional gap cache -> Bool over `Option (List K)`: `is not None`, `is None`, bare truthiness
    (None and the EMPTY list are false), and/or/not."""
    if isinstance(node, ast.BoolOp):
        j = " && " if isinstance(node.op, ast.And) else " || "
        return "(" + j.join(cache_bool(v, names, var, truthy) for v in node.values) + ")"
    if isinstance(node, ast.UnaryOp) and isinstance(node.op, ast.Not):
        return "(!%s)" % cache_bool(node.operand, names, var, truthy)
    if (isinstance(node, ast.Compare) and len(node.ops) == 1 and isinstance(node.comparators[0], ast.Constant)
            and node.comparators[0].value is None and ast.unparse(node.left) in names and truthy == "cacheTruthy"):
        if isinstance(node.ops[0], ast.IsNot):
            return "%s.isSome" % var
        if isinstance(node.ops[0], ast.Is):
            return "%s.isNone" % var
    if ast.unparse(node) in names:
        return "(%s %s)" % (truthy, var)
    raise Untranslatable("cache test: %s" % ast.unparse(node))


def is_cache_test(node):
    try:
        cache_bool(node)
        return True
    except Untranslatable:
        return False


def body_of(f):
    b = list(f.body)
    if b and isinstance(b[0], ast.Expr) and isinstance(getattr(b[0], "value", None), ast.Constant) and isinstance(b[0].value.value, str):
        b = b[1:]
    return b


def generate(o):
    src = Src("orso/profiler/distogram/__init__.py")

    def fn(name, cls=None):
        return find_function(src.tree, name, cls)

    v = {}

    # ---- Distogram.__add__: dgram = merge(self, operand); if <guard>: dgram.min = ...; dgram.max = ...; return dgram
    def add_parts():
        b = body_of(fn("__add__", "Distogram"))
        if len(b) != 3 or nows(b[0]) != "dgram=merge(self,operand)" or not isinstance(b[2], ast.Return) or nows(b[2].value) != "dgram":
            raise KeyError("__add__: dgram = merge(self, operand); if ...; return dgram")
        g = b[1]
        if not isinstance(g, ast.If) or g.orelse or len(g.body) != 2:
            raise KeyError("__add__: if <operand has bounds>: two assignments")
        a1, a2 = g.body
        if not (isinstance(a1, ast.Assign) and nows(a1.targets[0]) == "dgram.min" and isinstance(a2, ast.Assign) and nows(a2.targets[0]) == "dgram.max"):
            raise KeyError("__add__: dgram.min = ...; dgram.max = ...")
        return g.test, a1.value, a2.value

    oenv = {"operand.min": "omin", "operand.max": "omax"}
    v["add.guard"] = o.item("distogram.ops.add.guard", lambda: opt_bool(add_parts()[0], oenv), PIN["add.guard"])
    # merge() returns its first argument: `self` and `dgram` are one object when the bounds are read
    v["add.min"] = o.item("distogram.ops.add.min", lambda: field(add_parts()[1], {"self.min": "a", "dgram.min": "a", "operand.min": "c"}), PIN["add.min"])
    v["add.max"] = o.item("distogram.ops.add.max", lambda: field(add_parts()[2], {"self.max": "b", "dgram.max": "b", "operand.max": "d"}), PIN["add.max"])

    # ---- Distogram.bulkload
    def bulk_body():
        return body_of(fn("bulkload", "Distogram"))

    def bulk_above():
        g = [n for n in bulk_body() if isinstance(n, ast.If) and not n.orelse and "numpy.histogram" in ast.unparse(stmts(n.body))]
        return to_lean(one(g, "bulkload: if <many distinct values>: numpy.histogram").test,
                       {"len(bin_values)": "distinct", "self._bin_count": "cap"}, mode="int")

    def stmts(nodes):
        return ast.Module(body=list(nodes), type_ignores=[])

    def bulk_take():
        loops = [n for n in bulk_body() if isinstance(n, ast.For) and nows(n.target).strip("()") == "index,count" and nows(n.iter) == "enumerate(counts)"]
        f = one(loops, "bulkload: for index, count in enumerate(counts)")
        if len(f.body) != 1 or not isinstance(f.body[0], ast.If) or f.body[0].orelse or len(f.body[0].body) != 1:
            raise KeyError("bulkload: if count > 0: update(...)")
        call = f.body[0].body[0]
        if not (isinstance(call, ast.Expr) and isinstance(call.value, ast.Call) and nows(call.value.func) == "update"):
            raise KeyError("bulkload: update(self, value=bin_values[index], count=count)")
        kw = {k.arg: nows(k.value) for k in call.value.keywords}
        if [nows(a) for a in call.value.args] != ["self"] or kw != {"value": "bin_values[index]", "count": "count"}:
            raise KeyError("bulkload: update(self, value=bin_values[index], count=count)")
        return field(f.body[0].test, {"count": "count"})

    def bulk_bounds():
        g = [n for n in bulk_body() if isinstance(n, ast.If) and n.orelse and "values.min()" in ast.unparse(stmts(n.body))]
        t = one(g, "bulkload: if self.min is None: ... else: ...")
        if [nows(s) for s in t.body] != ["self.min=values.min()", "self.max=values.max()"]:
            raise KeyError("bulkload: self.min = values.min(); self.max = values.max()")
        if len(t.orelse) != 2 or [nows(s.targets[0]) for s in t.orelse if isinstance(s, ast.Assign)] != ["self.min", "self.max"]:
            raise KeyError("bulkload: else: self.min = ...; self.max = ...")
        return t.test, t.orelse[0].value, t.orelse[1].value

    v["bulk.above"] = o.item("distogram.ops.bulk.above", bulk_above, PIN["bulk.above"])
    v["bulk.take"] = o.item("distogram.ops.bulk.take", bulk_take, PIN["bulk.take"])
    v["bulk.fresh"] = o.item("distogram.ops.bulk.fresh", lambda: opt_bool(bulk_bounds()[0], {"self.min": "smin", "self.max": "smax"}), PIN["bulk.fresh"])
    v["bulk.min"] = o.item("distogram.ops.bulk.min", lambda: field(bulk_bounds()[1], {"self.min": "a", "values.min()": "lo"}), PIN["bulk.min"])
    v["bulk.max"] = o.item("distogram.ops.bulk.max", lambda: field(bulk_bounds()[2], {"self.max": "b", "values.max()": "hi"}), PIN["bulk.max"])

    # ---- update: the two bound statements, and the cached minimum after an append
    def bump_chained():
        top = body_of(fn("update"))
        sets_min = lambda n: isinstance(n, ast.If) and len(n.body) == 1 and nows(n.body[0]) == "h.min=value"
        sets_max = lambda n: isinstance(n, ast.If) and len(n.body) == 1 and nows(n.body[0]) == "h.max=value" and not n.orelse
        i = one([j for j, n in enumerate(top) if sets_min(n)], "update: if ...: h.min = value")
        first = top[i]
        if not first.orelse:
            if i + 1 < len(top) and sets_max(top[i + 1]):
                return "false"  # two independent statements
            raise KeyError("update: if ...: h.max = value after the minimum")
        if len(first.orelse) == 1 and sets_max(first.orelse[0]):
            return "true"  # `elif`: the maximum is only looked at when the minimum did not move
        raise KeyError("update: if/elif over h.min, h.max")

    def append_min_diff():
        f = fn("update")
        g = [n for n in ast.walk(f) if isinstance(n, ast.If) and n.body and nows(n.body[0]).startswith("h.bins.append(")]
        blk = one(g, "update: if index == -1: h.bins.append(...)").body
        inner = [n for n in blk if isinstance(n, ast.If) and is_cache_test(n.test) and not n.orelse]
        st = one(inner, "update: append: if <h.diffs>").body
        if [nows(s) for s in st[:2]] != ["diff=h.bins[-1][0]-h.bins[-2][0]", "h.diffs.append(diff)"] or len(st) != 3:
            raise KeyError("update: diff = last - previous; h.diffs.append(diff); h.min_diff = ...")
        a = st[2]
        if not (isinstance(a, ast.Assign) and nows(a.targets[0]) == "h.min_diff"):
            raise KeyError("update: h.min_diff = min(h.min_diff, diff)")
        return field(a.value, {"h.min_diff": "m", "diff": "diff"})

    v["update.bump_chained"] = o.item("distogram.ops.update.bump_chained", bump_chained, PIN["update.bump_chained"])
    v["update.append_min_diff"] = o.item("distogram.ops.update.append_min_diff", append_min_diff, PIN["update.append_min_diff"])

    # ---- _update_diffs
    def ud_guard():
        """The guard of `_update_diffs` and the statements it protects -> (test under which the cache is maintained, statements).
        Two spellings of the same function: `if <cache test>: <statements>`, and the early return `if <negated test>: return`
        followed by the statements at the function's own level (a trailing bare `return` is not a statement of either)."""
        b = body_of(fn("_update_diffs"))
        while b and isinstance(b[-1], ast.Return) and (b[-1].value is None or (isinstance(b[-1].value, ast.Constant) and b[-1].value.value is None)):
            b = b[:-1]
        outer = one([n for n in b if isinstance(n, ast.If) and is_cache_test(n.test)], "_update_diffs: if <h.diffs>")
        early = (len(outer.body) == 1 and isinstance(outer.body[0], ast.Return) and not outer.orelse
                 and (outer.body[0].value is None or (isinstance(outer.body[0].value, ast.Constant) and outer.body[0].value.value is None)))
        if not early:
            return outer.test, outer.body
        if b.index(outer) != 0:
            raise KeyError("_update_diffs: the early return is the first statement")
        t = outer.test
        if isinstance(t, ast.Compare) and len(t.ops) == 1 and isinstance(t.ops[0], (ast.Is, ast.IsNot)):
            neg = ast.Compare(left=t.left, ops=[ast.IsNot() if isinstance(t.ops[0], ast.Is) else ast.Is()], comparators=t.comparators)
        elif isinstance(t, ast.UnaryOp) and isinstance(t.op, ast.Not):
            neg = t.operand
        else:
            neg = ast.UnaryOp(op=ast.Not(), operand=t)
        return ast.fix_missing_locations(ast.copy_location(neg, t)), b[1:]

    def ud_blocks():
        _, guarded = ud_guard()
        blocks = {}
        for n in guarded:
            if not isinstance(n, ast.If) or n.orelse:
                continue
            for key in ("h.diffs[i-1]", "h.diffs[i]"):
                asg = [s for s in n.body if isinstance(s, ast.Assign) and nows(s.targets[0]) == key]
                if len(asg) == 1:
                    stale = [s for s in n.body if isinstance(s, ast.If) and [nows(x) for x in s.body] == ["update_min=True"] and not s.orelse]
                    lower = [s for s in n.body if isinstance(s, ast.If) and [nows(x) for x in s.body] == ["h.min_diff=" + key] and not s.orelse]
                    order = [n.body.index(one(stale, "stale test")), n.body.index(asg[0]), n.body.index(one(lower, "lowering test"))]
                    if order != sorted(order) or len(n.body) != 3:
                        raise KeyError("_update_diffs: compare old entry, store gap, lower min_diff")
                    if key in blocks:
                        raise KeyError("_update_diffs: two blocks for " + key)
                    blocks[key] = (n.test, stale[0].test, asg[0].value, lower[0].test)
        if set(blocks) != {"h.diffs[i-1]", "h.diffs[i]"}:
            raise KeyError("_update_diffs: a block for the gap left of bin i and one for the gap right of it")
        return blocks["h.diffs[i-1]"], blocks["h.diffs[i]"]

    def ud_same(ix, lenv, renv):
        left, right = ud_blocks()
        a, b = field(left[ix], lenv), field(right[ix], renv)
        if a != b:
            raise KeyError("_update_diffs: the two blocks differ (%s / %s)" % (a, b))
        return a

    ienv = {"i": "i", "len(h.bins)": "len"}
    v["ud.left"] = o.item("distogram.ops.ud.left", lambda: to_lean(ud_blocks()[0][0], ienv, mode="int"), PIN["ud.left"])
    v["ud.right"] = o.item("distogram.ops.ud.right", lambda: to_lean(ud_blocks()[1][0], ienv, mode="int"), PIN["ud.right"])
    v["ud.stale"] = o.item("distogram.ops.ud.stale", lambda: ud_same(1, {"h.diffs[i - 1]": "old", "h.min_diff": "md"}, {"h.diffs[i]": "old", "h.min_diff": "md"}), PIN["ud.stale"])
    v["ud.gap"] = o.item("distogram.ops.ud.gap", lambda: ud_same(2, {"h.bins[i][0]": "hi", "h.bins[i - 1][0]": "lo"}, {"h.bins[i + 1][0]": "hi", "h.bins[i][0]": "lo"}), PIN["ud.gap"])
    v["ud.lower"] = o.item("distogram.ops.ud.lower", lambda: ud_same(3, {"h.diffs[i - 1]": "nd", "h.min_diff": "md"}, {"h.diffs[i]": "nd", "h.min_diff": "md"}), PIN["ud.lower"])

    # ---- _trim: the positions of one turn
    def trim_positions():
        f = fn("_trim")
        loop = one([n for n in body_of(f) if isinstance(n, (ast.While, ast.If))], "_trim: guard statement")
        st = loop.body
        read = one([s for s in st if isinstance(s, ast.Assign) and nows(s.targets[0]).strip("()") == "v1,f1"], "_trim: v1, f1 = h.bins[...]")
        pop = one([s for s in st if isinstance(s, ast.Assign) and nows(s.targets[0]).strip("()") == "v2,f2"], "_trim: v2, f2 = h.bins.pop(...)")
        store = one([s for s in st if isinstance(s, ast.Assign) and isinstance(s.targets[0], ast.Subscript) and nows(s.targets[0].value) == "h.bins"], "_trim: h.bins[...] = ...")
        if not (st.index(read) < st.index(pop) < st.index(store)):
            raise KeyError("_trim: read, pop, store in this order")
        if not (isinstance(read.value, ast.Subscript) and nows(read.value.value) == "h.bins"):
            raise KeyError("_trim: v1, f1 = h.bins[i]")
        if not (isinstance(pop.value, ast.Call) and nows(pop.value.func) == "h.bins.pop" and len(pop.value.args) == 1):
            raise KeyError("_trim: h.bins.pop(i + 1)")
        if nows(store.targets[0].slice) != nows(read.value.slice):
            raise KeyError("_trim: the merged bin is stored where the first one was read")
        tail = one([s for s in st if isinstance(s, ast.If) and is_cache_test(s.test) and not s.orelse and st.index(s) > st.index(store)],
                   "_trim: if <h.diffs>: (after the merge)").body
        if len(tail) != 3 or nows(tail[2]) != "h.min_diff=min(h.diffs)":
            raise KeyError("_trim: h.diffs.pop(i); _update_diffs(h, i); h.min_diff = min(h.diffs)")
        dp, ud = tail[0], tail[1]
        if not (isinstance(dp, ast.Expr) and isinstance(dp.value, ast.Call) and nows(dp.value.func) == "h.diffs.pop" and len(dp.value.args) == 1):
            raise KeyError("_trim: h.diffs.pop(i)")
        if not (isinstance(ud, ast.Expr) and isinstance(ud.value, ast.Call) and nows(ud.value.func) == "_update_diffs" and len(ud.value.args) == 2 and nows(ud.value.args[0]) == "h"):
            raise KeyError("_trim: _update_diffs(h, i)")
        return read.value.slice, pop.value.args[0], dp.value.args[0], ud.value.args[1]

    for ix, key in enumerate(("trim.keep", "trim.pop_bin", "trim.pop_diff", "trim.refresh")):
        v[key] = o.item("distogram.ops." + key, lambda ix=ix: to_lean(trim_positions()[ix], {"i": "i"}, mode="int"), PIN[key])

    # ---- the centre a merge stores: the computed one (Gen.DistogramExpr.trimCentre / inPlaceCentre), kept within a pair
    def stored(fname, env, local_pairs=False):
        f = fn(fname)
        hits = [n for n in ast.walk(f) if isinstance(n, ast.Assign) and len(n.targets) == 1
                and isinstance(n.targets[0], ast.Subscript) and ast.unparse(n.targets[0].value).endswith("bins")
                and isinstance(n.value, ast.Tuple) and len(n.value.elts) == 2]
        e = one(hits, fname + ": bins[...] = (centre, count)").value.elts[0]
        if not (isinstance(e, ast.Call) and nows(e.func) == "min" and len(e.args) == 2 and not e.keywords
                and isinstance(e.args[0], ast.Call) and nows(e.args[0].func) == "max" and len(e.args[0].args) == 2):
            return "c"  # the computed centre is stored as it is
        inner = ast.unparse(e.args[0].args[0])
        env = dict(env)
        env[inner] = "c"
        if local_pairs:
            # low, high = min(stored_value, new_value), max(stored_value, new_value)
            pairs = [n for n in body_of(f) if isinstance(n, ast.Assign) and isinstance(n.targets[0], ast.Tuple) and isinstance(n.value, ast.Tuple)
                     and len(n.targets[0].elts) == len(n.value.elts) and all(isinstance(t, ast.Name) for t in n.targets[0].elts)]
            for n in pairs:
                for t, val in zip(n.targets[0].elts, n.value.elts):
                    if t.id in (ast.unparse(e.args[0].args[1]), ast.unparse(e.args[1])):
                        env[t.id] = field(val, env)
        return field(e, env)

    v["trim.stored"] = o.item("distogram.ops.trim.stored", lambda: stored("_trim", {"v1": "v1", "v2": "v2"}), PIN["trim.stored"])
    v["inplace.stored"] = o.item("distogram.ops.inplace.stored",
                                 lambda: stored("_trim_in_place", {"stored_value": "sv", "current_value": "sv", "new_value": "nv"}, True), PIN["inplace.stored"])

    # ---- the tests on the optional gap cache (`is not None` / `is None` / truthiness: an EMPTY cache is not None)
    def cache_ud():
        return cache_bool(ud_guard()[0])

    def trim_turn():
        f = fn("_trim")
        return one([n for n in body_of(f) if isinstance(n, (ast.While, ast.If))], "_trim: guard statement").body

    def cache_trim_pick():
        st = trim_turn()
        g = one([s for s in st if isinstance(s, ast.If) and is_cache_test(s.test) and s.orelse], "_trim: if <h.diffs>: i = ... else: ...")
        if [nows(x) for x in g.body] != ["i=h.diffs.index(h.min_diff)"]:
            raise KeyError("_trim: i = h.diffs.index(h.min_diff)")
        return g

    def cache_trim_keep():
        st = trim_turn()
        pick = cache_trim_pick()
        g = one([s for s in st if isinstance(s, ast.If) and is_cache_test(s.test) and not s.orelse and st.index(s) > st.index(pick)],
                "_trim: if <h.diffs>: (after the merge)")
        return cache_bool(g.test)

    def update_split():
        top = body_of(fn("update"))
        g = one([n for n in top if isinstance(n, ast.If) and n.orelse and n.body and nows(n.body[0]).startswith("h.bins.append(")],
                "update: if index == -1: h.bins.append(...) else: h.bins.insert(...)")
        if not (g.orelse and nows(g.orelse[0]).startswith("h.bins.insert(index,")):
            raise KeyError("update: else: h.bins.insert(index, ...)")
        if nows(g.body[0]) != "h.bins.append((_caster(value),count))" or nows(g.orelse[0]) != "h.bins.insert(index,(_caster(value),count))":
            raise KeyError("update: the appended / inserted bin is (_caster(value), count)")
        return g

    def cache_in(block, what):
        return cache_bool(one([n for n in block if isinstance(n, ast.If) and is_cache_test(n.test) and not n.orelse], what).test)

    def cache_insert():
        blk = update_split().orelse
        g = one([n for n in blk if isinstance(n, ast.If) and is_cache_test(n.test) and not n.orelse], "update: insert: if <h.diffs>")
        if [nows(x) for x in g.body] != ["h.diffs.insert(index,0)", "_update_diffs(h,index)"]:
            raise KeyError("update: h.diffs.insert(index, 0); _update_diffs(h, index)")
        return cache_bool(g.test)

    def cache_search():
        b = body_of(fn("_search_in_place_index"))
        g = one([n for n in b if isinstance(n, ast.If) and is_cache_test(n.test)], "_search_in_place_index: if <h.diffs>")
        if g.orelse or [nows(x) for x in g.body] != ["h.diffs=_compute_diffs(h)"] or b.index(g) != 0:
            raise KeyError("_search_in_place_index: if h.diffs is None: h.diffs = _compute_diffs(h) (first statement)")
        return cache_bool(g.test)

    v["cache.ud"] = o.item("distogram.ops.cache.ud", cache_ud, PIN["cache.ud"])
    v["cache.trim_pick"] = o.item("distogram.ops.cache.trim_pick", lambda: cache_bool(cache_trim_pick().test), PIN["cache.trim_pick"])
    v["cache.trim_keep"] = o.item("distogram.ops.cache.trim_keep", cache_trim_keep, PIN["cache.trim_keep"])
    v["cache.append"] = o.item("distogram.ops.cache.append", lambda: cache_in(update_split().body, "update: append: if <h.diffs>"), PIN["cache.append"])
    v["cache.insert"] = o.item("distogram.ops.cache.insert", cache_insert, PIN["cache.insert"])
    v["cache.search_missing"] = o.item("distogram.ops.cache.search_missing", cache_search, PIN["cache.search_missing"])

    # ---- update: append or insert
    v["update.is_append"] = o.item("distogram.ops.update.is_append", lambda: to_lean(update_split().test, {"index": "index"}, mode="int"), PIN["update.is_append"])

    # ---- merge: for value, counts in h2.bins: h = update(h, value, counts)
    def merge_args():
        b = body_of(fn("merge"))
        loop = one([n for n in b if isinstance(n, ast.For)], "merge: for value, counts in h2.bins")
        if not (isinstance(loop.target, ast.Tuple) and len(loop.target.elts) == 2 and all(isinstance(t, ast.Name) for t in loop.target.elts)
                and nows(loop.iter) == "h2.bins" and not loop.orelse and len(loop.body) == 1):
            raise KeyError("merge: for value, counts in h2.bins: one statement")
        names = [t.id for t in loop.target.elts]
        st = loop.body[0]
        if not (isinstance(st, ast.Assign) and nows(st.targets[0]) == "h" and isinstance(st.value, ast.Call) and nows(st.value.func) == "update"):
            raise KeyError("merge: h = update(h, value, counts)")
        call = st.value
        args = {"value": None, "count": None}
        pos = [nows(a) for a in call.args]
        if not pos or pos[0] != "h" or len(pos) > 3:
            raise KeyError("merge: update(h, ...)")
        for key, a in zip(("value", "count"), call.args[1:]):
            args[key] = a
        for kw in call.keywords:
            if kw.arg not in args or args[kw.arg] is not None:
                raise KeyError("merge: update(h, value, count)")
            args[kw.arg] = kw.value
        if args["value"] is None or args["count"] is None:
            raise KeyError("merge: update(h, value, count)")
        env = {names[0]: "value", names[1]: "counts"}
        before = b[: b.index(loop)]
        if not any(nows(x) == "h=h1" for x in before) or not (isinstance(b[-1], ast.Return) and nows(b[-1].value) == "h"):
            raise KeyError("merge: h = h1 ... return h")
        return field(args["value"], env), field(args["count"], env)

    v["merge.value"] = o.item("distogram.ops.merge.value", lambda: merge_args()[0], PIN["merge.value"])
    v["merge.count"] = o.item("distogram.ops.merge.count", lambda: merge_args()[1], PIN["merge.count"])

    # ---- _compute_diffs: diffs = [v2 - v1 for (v1, _), (v2, _) in zip(h.bins[:-1], h.bins[1:])]; h.min_diff = min(diffs)
    def compute_gap():
        b = body_of(fn("_compute_diffs"))
        if len(b) != 3 or nows(b[1]) != "h.min_diff=min(diffs)" or nows(b[2]) != "returndiffs":
            raise KeyError("_compute_diffs: diffs = [...]; h.min_diff = min(diffs); return diffs")
        a = b[0]
        if not (isinstance(a, ast.Assign) and nows(a.targets[0]) == "diffs" and isinstance(a.value, ast.ListComp) and len(a.value.generators) == 1):
            raise KeyError("_compute_diffs: diffs = [... for ... in zip(h.bins[:-1], h.bins[1:])]")
        g = a.value.generators[0]
        if g.ifs or nows(g.iter) != "zip(h.bins[:-1],h.bins[1:])":
            raise KeyError("_compute_diffs: zip(h.bins[:-1], h.bins[1:])")
        t = g.target
        if not (isinstance(t, ast.Tuple) and len(t.elts) == 2 and all(isinstance(e, ast.Tuple) and len(e.elts) == 2 and isinstance(e.elts[0], ast.Name) for e in t.elts)):
            raise KeyError("_compute_diffs: (v1, _), (v2, _)")
        return field(a.value.elt, {t.elts[0].elts[0].id: "v1", t.elts[1].elts[0].id: "v2"})

    v["compute.gap"] = o.item("distogram.ops.compute.gap", compute_gap, PIN["compute.gap"])

    # ---- load: if dgram.diffs: dgram.min_diff = min(dgram.diffs) else: dgram.min_diff = float("inf")
    def load_has_diffs_stmt():
        b = body_of(fn("load"))
        g = one([n for n in b if isinstance(n, ast.If) and n.orelse and [nows(x) for x in n.body] == ["dgram.min_diff=min(dgram.diffs)"]],
                "load: if dgram.diffs: dgram.min_diff = min(dgram.diffs) else: ...")
        if len(g.orelse) != 1 or not isinstance(g.orelse[0], ast.Assign) or nows(g.orelse[0].targets[0]) != "dgram.min_diff":
            raise KeyError("load: else: dgram.min_diff = ...")
        if not any(nows(x) == "dgram.diffs=[]" for x in b[: b.index(g)]):
            raise KeyError("load: dgram.diffs = []")
        return g

    def load_no_diffs():
        e = load_has_diffs_stmt().orelse[0].value
        if nows(e) in ("float('inf')", "math.inf", "numpy.inf", "None"):
            return "none"  # larger than every gap
        return "(some %s)" % field(e, {})

    def load_turns():
        b = body_of(fn("load"))
        loop = one([n for n in b if isinstance(n, ast.For)], "load: for i in range(len(dgram.bins) - 1)")
        if not (nows(loop.target) == "i" and isinstance(loop.iter, ast.Call) and nows(loop.iter.func) == "range" and len(loop.iter.args) == 1
                and not loop.orelse and len(loop.body) == 2 and nows(loop.body[1]) == "dgram.diffs.append(diff)"):
            raise KeyError("load: for i in range(n): diff = ...; dgram.diffs.append(diff)")
        return to_lean(loop.iter.args[0], {"len(dgram.bins)": "len", "len(bins)": "len"}, mode="int")

    v["load.turns"] = o.item("distogram.ops.load.turns", load_turns, PIN["load.turns"])
    v["load.has_diffs"] = o.item("distogram.ops.load.has_diffs",
                                 lambda: cache_bool(load_has_diffs_stmt().test, names=("dgram.diffs",), var="d", truthy="listTruthy"), PIN["load.has_diffs"])
    v["load.no_diffs"] = o.item("distogram.ops.load.no_diffs", load_no_diffs, PIN["load.no_diffs"])

    # ---- _trim without a cache: diffs = [(i - 1, b[0] - h.bins[i - 1][0]) for i, b in enumerate(h.bins[1:], start=1)]; i, _ = min(diffs, key=itemgetter(1))
    def trim_scan():
        g = cache_trim_pick()
        if len(g.orelse) != 2 or nows(g.orelse[1]) not in ("i,_=min(diffs,key=itemgetter(1))", "(i,_)=min(diffs,key=itemgetter(1))"):
            raise KeyError("_trim: i, _ = min(diffs, key=itemgetter(1))")
        a = g.orelse[0]
        if not (isinstance(a, ast.Assign) and nows(a.targets[0]) == "diffs" and isinstance(a.value, ast.ListComp) and len(a.value.generators) == 1):
            raise KeyError("_trim: diffs = [(i - 1, gap) for i, b in enumerate(h.bins[1:], start=1)]")
        gen = a.value.generators[0]
        if gen.ifs or nows(gen.iter) != "enumerate(h.bins[1:],start=1)" or nows(gen.target).strip("()") != "i,b":
            raise KeyError("_trim: for i, b in enumerate(h.bins[1:], start=1)")
        e = a.value.elt
        if not (isinstance(e, ast.Tuple) and len(e.elts) == 2):
            raise KeyError("_trim: (position, gap)")
        return to_lean(e.elts[0], {"i": "i"}, mode="int"), field(e.elts[1], {"b[0]": "cur", "h.bins[i - 1][0]": "prev"})

    v["trim.scan_idx"] = o.item("distogram.ops.trim.scan_idx", lambda: trim_scan()[0], PIN["trim.scan_idx"])
    v["trim.scan_gap"] = o.item("distogram.ops.trim.scan_gap", lambda: trim_scan()[1], PIN["trim.scan_gap"])

    # ---- emit
    hdr = HEADER + '''import OrsoVerif.Generated.DistogramExpr
/-!
Statements of `orso/profiler/distogram/__init__.py` around the update path — `Distogram.__add__`, `Distogram.bulkload`,
the bound statements and the append bookkeeping of `update`, `_update_diffs`, the positions of `_trim` — translated from
the working tree (harness/extractors/c13ops.py).
-/
namespace Gen.DistogramOps
open Gen.DistogramExpr (eqK)
set_option linter.unusedVariables false

variable {K : Type} [Add K] [Sub K] [Mul K] [Div K] [LT K] [LE K]
  [DecidableLT K] [DecidableLE K] [OfNat K 0] [OfNat K 1] [OfNat K 2]

/-- Python's `min(a, b)`: the first of the smallest. -/
def pyMin (a b : K) : K := if b < a then b else a

/-- Python's `max(a, b)`: the first of the largest. -/
def pyMax (a b : K) : K := if b > a then b else a

/-- Python's truthiness of a number that may be `None`: `None`, `0` and `-0.0` are false. -/
def optTruthy (x : Option K) : Bool :=
  match x with
  | some v => !(eqK v 0)
  | none => false

/-- Python's truthiness of a list: the empty list is false. -/
def listTruthy (d : List K) : Bool := !d.isEmpty

/-- Python's truthiness of the optional gap cache (`h.diffs`): `None` AND the empty list are false — `load()` of a
histogram with a single bin creates the empty list, which `is not None`. -/
def cacheTruthy (d : Option (List K)) : Bool :=
  match d with
  | some (_ :: _) => true
  | _ => false

'''
    defs = []

    def d(doc, name, params, pty, ty, key, prop=False):
        text = str(v[key])
        free = set(re.findall(r"[A-Za-z_][A-Za-z0-9_]*", re.sub(r"\.isSome|\.isNone", "", text))) - {
            "eqK", "if", "then", "else", "pyMin", "pyMax", "optTruthy", "cacheTruthy", "listTruthy", "true", "false", "none", "some"}
        if not free <= set(params):
            o.degraded.append("distogram.ops.%s (uses %s)" % (key, sorted(free - set(params))))
            text = PIN[key]
        if prop:
            ty, text = "Bool", "decide %s" % text
        sig = (" (%s : %s)" % (" ".join(params), pty)) if params else ""
        defs.append("/-- %s -/\ndef %s%s : %s := %s\n" % (doc, name, sig, ty, text))

    d("`__add__`: the right operand contributes its bounds", "addGuard", ["omin", "omax"], "Option K", "Bool", "add.guard")
    d("`__add__`: the minimum of the sum (`a` the merged histogram's, `c` the operand's)", "addMin", ["a", "c"], "K", "K", "add.min")
    d("`__add__`: the maximum of the sum (`b` the merged histogram's, `d` the operand's)", "addMax", ["b", "d"], "K", "K", "add.max")
    d("`bulkload`: the array goes through numpy.histogram (`distinct` values, limit `cap`)", "bulkAbove", ["distinct", "cap"], "Int", "Prop", "bulk.above", True)
    d("`bulkload`: a (value, count) pair is inserted", "bulkTake", ["count"], "K", "Prop", "bulk.take", True)
    d("`bulkload`: the histogram has no bounds yet", "bulkFresh", ["smin", "smax"], "Option K", "Bool", "bulk.fresh")
    d("`bulkload`: the new minimum (`lo` the data's)", "bulkMin", ["a", "lo"], "K", "K", "bulk.min")
    d("`bulkload`: the new maximum (`hi` the data's)", "bulkMax", ["b", "hi"], "K", "K", "bulk.max")
    d("`update`: the maximum is only examined when the minimum did not move (`if … elif …`)", "bumpChained", [], "Bool", "Bool", "update.bump_chained")
    d("`update`: the cached minimum after an append (`m` the old one, `diff` the new last gap)", "appendMinDiff", ["m", "diff"], "K", "K", "update.append_min_diff")
    d("`_update_diffs`: the gap left of bin `i` is refreshed", "udLeft", ["i", "len"], "Int", "Prop", "ud.left", True)
    d("`_update_diffs`: the gap right of bin `i` is refreshed", "udRight", ["i", "len"], "Int", "Prop", "ud.right", True)
    d("`_update_diffs`: the overwritten entry was the cached minimum", "udStale", ["old", "md"], "K", "Bool", "ud.stale")
    d("`_update_diffs`: the new gap lowers the cached minimum", "udLower", ["nd", "md"], "K", "Prop", "ud.lower", True)
    d("`_update_diffs`: the stored gap between two adjacent centres", "udGap", ["lo", "hi"], "K", "K", "ud.gap")
    d("`_trim`: the centre that is stored for the computed centre `c` of the pair `v1 < v2`", "trimStored", ["c", "v1", "v2"], "K", "K", "trim.stored")
    d("`_trim_in_place`: the centre that is stored for the computed centre `c` of the bin `sv` and the new value `nv`", "inPlaceStored", ["c", "sv", "nv"], "K", "K", "inplace.stored")
    d("`_trim`: the bin that is kept and overwritten", "trimKeep", ["i"], "Nat", "Nat", "trim.keep")
    d("`_trim`: the bin that is popped", "trimPopBin", ["i"], "Nat", "Nat", "trim.pop_bin")
    d("`_trim`: the cached difference that is popped", "trimPopDiff", ["i"], "Nat", "Nat", "trim.pop_diff")
    d("`_trim`: the position handed to `_update_diffs`", "trimRefresh", ["i"], "Nat", "Nat", "trim.refresh")
    C = "Option (List K)"
    d("`_update_diffs`: the cache is maintained (`d` = `h.diffs`)", "udCache", ["d"], C, "Bool", "cache.ud")
    d("`_trim`: the pair to merge is looked up in the cache", "trimCachePick", ["d"], C, "Bool", "cache.trim_pick")
    d("`_trim`: the cache is maintained after the merge", "trimCacheKeep", ["d"], C, "Bool", "cache.trim_keep")
    d("`update`: the cache is extended by an append", "appendCache", ["d"], C, "Bool", "cache.append")
    d("`update`: the cache is extended by an insert", "insertCache", ["d"], C, "Bool", "cache.insert")
    d("`_search_in_place_index`: the cache has to be computed first", "searchNoCache", ["d"], C, "Bool", "cache.search_missing")
    d("`update`: the new bin is appended (`index` is Python's: -1 for a value not below the last centre)", "isAppend", ["index"], "Int", "Prop", "update.is_append", True)
    d("`merge`: what is handed to `update` as the value, for a bin `(value, counts)` of the right operand", "mergeValue", ["value", "counts"], "K", "K", "merge.value")
    d("`merge`: what is handed to `update` as the count", "mergeCount", ["value", "counts"], "K", "K", "merge.count")
    d("`_compute_diffs`: the cached gap of two adjacent centres `v1`, `v2`", "computeGap", ["v1", "v2"], "K", "K", "compute.gap")
    d("`load`: the cached minimum is `min(diffs)` (else infinity)", "loadHasDiffs", ["d"], "List K", "Bool", "load.has_diffs")
    d("`load`: the cached minimum of a histogram without a gap (`none` = infinity)", "loadNoDiffs", [], "Option K", "Option K", "load.no_diffs")
    d("`load`: the number of cached differences it computes for `len` bins (`range(len(dgram.bins) - 1)`)", "loadTurns", ["len"], "Int", "Int", "load.turns")
    d("`_trim` without a cache: the position recorded for the pair ending at bin `i`", "trimScanIdx", ["i"], "Int", "Int", "trim.scan_idx")
    d("`_trim` without a cache: the gap recorded for two adjacent centres", "trimScanGap", ["prev", "cur"], "K", "K", "trim.scan_gap")
    o.files["DistogramOps.lean"] = hdr + "\n".join(defs) + "\nend Gen.DistogramOps\n"
