"""Colour-token table and the token names used by ascii_table: orso/display.py."""
import ast
import re

from ..extract import HEADER, Src

PINNED_COLORS = None  # filled lazily from the pinned literal below

_PINNED = {
    "\x01OFFm": "\x1b[0m", "\x01PUNCm": "\x1b[38;5;102m", "\x01CRLFm": "\x1b[38;2;98;114;164m",
    "\x01HEADm": "\x1b[1m", "\x01VARCHARm": "\x1b[38;2;255;171;82m",
    "\x01CONSTm": "\x1b[38;2;139;233;253m\x1b[3m", "\x01NULLm": "\x1b[38;2;98;114;164m\x1b[3m",
    "\x01TYPEm": "\x1b[38;2;98;114;164m", "\x01VALUEm": "\x1b[38;2;139;233;253m",
    "\x01FLOATm": "\x1b[38;2;255;121;198m", "\x01INTEGERm": "\x1b[38;2;189;147;249m",
    "\x01DATEm": "\x1b[38;2;80;250;123m", "\x01TIMESTAMPm": "\x1b[38;2;80;250;123m",
    "\x01TIMEm": "\x1b[38;2;26;185;67m", "\x01KEYm": "\x1b[38;2;189;147;249m",
    "\x01BLOBm": "\x1b[38;2;241;250;140m", "\x01INTERVALm": "\x1b[38;2;255;85;85m",
}


def _chars(s):
    return "[" + ", ".join("Char.ofNat %d" % ord(c) for c in s) + "]"


def generate(o):
    src = Src("orso/display.py")

    def colors():
        d = src.assign("COLORS")
        if not isinstance(d, dict) or not all(isinstance(k, str) and isinstance(v, str) for k, v in d.items()):
            raise KeyError("COLORS literal")
        return [[k, v] for k, v in d.items()]

    cols = o.item("display.COLORS", colors, [[k, v] for k, v in _PINNED.items()])

    def used():
        fn = src.func("ascii_table")
        names = set()
        for n in ast.walk(fn):
            if isinstance(n, ast.Constant) and isinstance(n.value, str):
                names.update(re.findall("\x01([A-Z_]+)m", n.value))
        if not names:
            raise KeyError("no colour tokens found in ascii_table")
        return sorted(names)

    toks = o.item("display.tokens_used_by_ascii_table", used,
                  ["BLOB", "CONST", "CRLF", "DATE", "FLOAT", "HEAD", "INTEGER", "INTERVAL", "KEY", "NULL", "OFF",
                   "PUNC", "TIME", "TYPE", "VALUE", "VARCHAR"])
    text = HEADER + "namespace Gen.Display\n"
    text += "/-- `COLORS` of orso/display.py: (token, ANSI replacement), as character lists -/\n"
    text += "def colors : List (List Char × List Char) := [\n"
    text += ",\n".join("  (%s, %s)" % (_chars(k), _chars(v)) for k, v in cols)
    text += "]\n"
    text += "/-- every `\\x01NAMEm` token that occurs in a string literal of `ascii_table` -/\n"
    text += "def tokensUsed : List (List Char) := [\n"
    text += ",\n".join("  %s" % _chars("\x01" + t + "m") for t in toks)
    text += "]\n"
    text += "end Gen.Display\n"
    o.files["Display.lean"] = text
