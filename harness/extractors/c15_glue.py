"""C15: the glue around the column profilers, lifted into Generated/ProfileGlue.lean — code without arithmetic, where the
property depends on *which object is which*:

* `TableProfile.from_dataframe` (orso/profiler/profiler.py): inside the loop over the columns of a morsel, the statement
  `if K in profiles: profiles[K] += profiler.profile else: profiles[K] = profiler.profile` — what K is (`column.name`
  or `column.identity`, `column` being the loop variable), and whether `if len(column_data) == 0: continue` stands
  before it;
* `distogram.load` (orso/profiler/distogram/__init__.py): `dgram.bins = <expr>` — a copy of the argument
  (`list(bins)`, `bins[:]`, `bins.copy()`, `copy(bins)`, `[b for b in bins]`, `sorted(bins)`) or the argument itself;
* `ColumnProfile.__add__`: `new_profile = self.deep_copy()` (or `deepcopy(self)`) against `new_profile = self`, and in the
  branch that keeps the other side's histogram, `new_profile.histogram = list(profile.histogram)` against the bare
  `profile.histogram`.

A shape that is not recognised degrades to the pinned value (`extraction_degraded`); the oracle and correspondence carry
the change then.
"""
import ast

from ..extract import HEADER, Src

PINNED = {"key": "name", "skips_empty": True, "load_copies": True, "from_copy": True, "copies_other": True,
          "frame_eq": "identity", "names_cached": True}


def pinned_json():
    return {"profglue.accumulator_key": PINNED["key"], "profglue.skips_empty": PINNED["skips_empty"],
            "profglue.load_copies": PINNED["load_copies"], "profglue.sum_from_copy": PINNED["from_copy"],
            "profglue.sum_copies_other_histogram": PINNED["copies_other"],
            "profglue.frame_equality": PINNED["frame_eq"], "profglue.column_names_cached": PINNED["names_cached"]}


class Shape(Exception):
    pass


def _copy_of(expr, name):
    """True: `expr` is a new list holding the elements of `name`; False: it is `name` itself; else Shape."""
    u = ast.unparse(expr)
    if u == name:
        return False
    if u in ("list(%s)" % name, "%s[:]" % name, "%s.copy()" % name, "copy(%s)" % name, "copy.copy(%s)" % name,
             "deepcopy(%s)" % name, "copy.deepcopy(%s)" % name, "sorted(%s)" % name, "[*%s]" % name):
        return True
    if isinstance(expr, ast.ListComp) and len(expr.generators) == 1 and not expr.generators[0].ifs \
            and ast.unparse(expr.generators[0].iter) == name and ast.unparse(expr.elt) == ast.unparse(expr.generators[0].target):
        return True
    raise Shape("copy of %s: %s" % (name, u[:40]))


def _accumulator(fn):
    """(key kind, skips empty) of the morsel loop."""
    found = []
    for loop in ast.walk(fn):
        if not isinstance(loop, ast.For):
            continue
        tgt = loop.target
        if isinstance(tgt, ast.Tuple) and len(tgt.elts) == 2 and isinstance(tgt.elts[1], ast.Name):
            var = tgt.elts[1].id  # for index, column in enumerate(...)
        elif isinstance(tgt, ast.Name):
            var = tgt.id
        else:
            continue
        for i, st in enumerate(loop.body):
            if not (isinstance(st, ast.If) and isinstance(st.test, ast.Compare) and len(st.test.ops) == 1
                    and isinstance(st.test.ops[0], ast.In) and ast.unparse(st.test.comparators[0]) == "profiles"):
                continue
            k = ast.unparse(st.test.left)
            if len(st.body) != 1 or len(st.orelse) != 1:
                raise Shape("accumulator branches")
            a, b = st.body[0], st.orelse[0]
            if not (isinstance(a, ast.AugAssign) and isinstance(a.op, ast.Add) and ast.unparse(a.target) == "profiles[%s]" % k
                    and ast.unparse(a.value) == "profiler.profile"):
                raise Shape("accumulator +=")
            if not (isinstance(b, ast.Assign) and len(b.targets) == 1 and ast.unparse(b.targets[0]) == "profiles[%s]" % k
                    and ast.unparse(b.value) == "profiler.profile"):
                raise Shape("accumulator =")
            if k == var + ".name":
                kind = "name"
            elif k == var + ".identity":
                kind = "identity"
            else:
                raise Shape("accumulator key " + k[:40])
            skips = False
            for prev in loop.body[:i]:
                if isinstance(prev, ast.If) and any(isinstance(n, ast.Continue) for n in ast.walk(prev)):
                    if (ast.unparse(prev.test) in ("len(column_data) == 0", "not column_data", "len(column_data) < 1", "not len(column_data)")
                            and len(prev.body) == 1 and isinstance(prev.body[0], ast.Continue) and not prev.orelse):
                        skips = True
                    else:
                        raise Shape("a column is passed over on " + ast.unparse(prev.test)[:40])
            found.append((kind, skips))
    if len(found) != 1:
        raise Shape("morsel loop")
    return found[0]


def _load(fn):
    arg = fn.args.args[0].arg
    hits = [s for s in ast.walk(fn) if isinstance(s, ast.Assign) and len(s.targets) == 1 and ast.unparse(s.targets[0]).endswith(".bins")]
    if len(hits) != 1:
        raise Shape("load: assignments to .bins")
    return _copy_of(hits[0].value, arg)


def _add(fn):
    """(starts from a copy, copies the other side's histogram)."""
    first = [s for s in fn.body if isinstance(s, ast.Assign) and len(s.targets) == 1 and ast.unparse(s.targets[0]) == "new_profile"]
    if len(first) != 1:
        raise Shape("__add__: new_profile")
    u = ast.unparse(first[0].value)
    if u in ("self.deep_copy()", "deepcopy(self)", "copy.deepcopy(self)"):
        from_copy = True
    elif u == "self":
        from_copy = False
    else:
        raise Shape("__add__: new_profile = " + u[:40])
    other = fn.args.args[1].arg
    keeps = [s for s in ast.walk(fn) if isinstance(s, ast.Assign) and len(s.targets) == 1
             and ast.unparse(s.targets[0]) == "new_profile.histogram" and other + ".histogram" in ast.unparse(s.value)
             and "merge" not in ast.unparse(s.value)]
    if len(keeps) != 1:
        raise Shape("__add__: the branch that keeps the other histogram")
    return from_copy, _copy_of(keeps[0].value, other + ".histogram")


def _frame_class(tree):
    cls = [n for n in tree.body if isinstance(n, ast.ClassDef) and n.name == "DataFrame"]
    if len(cls) != 1:
        raise Shape("class DataFrame")
    return cls[0]


def _frame_equality(tree):
    """'identity': the class DataFrame (no base classes but object) defines no `__eq__`, so two frame objects are equal only
    when they are one object; 'rows': an `__eq__` that compares what the frames hold (rows / hash / length) and never
    looks at the schema; anything else is not recognised."""
    cls = _frame_class(tree)
    if any(ast.unparse(b) != "object" for b in cls.bases):
        raise Shape("DataFrame has base classes")
    eqs = [n for n in cls.body if isinstance(n, (ast.FunctionDef, ast.AsyncFunctionDef)) and n.name == "__eq__"]
    eqs += [n for n in cls.body if isinstance(n, ast.Assign) and any(ast.unparse(t) == "__eq__" for t in n.targets)]
    if not eqs:
        return "identity"
    if len(eqs) == 1 and isinstance(eqs[0], ast.FunctionDef):
        txt = ast.unparse(eqs[0])
        if "schema" not in txt and "column_names" not in txt and ("_rows" in txt or "hash(" in txt or "rowcount" in txt):
            return "rows"
    raise Shape("DataFrame.__eq__")


def _names_cached(tree):
    """`DataFrame.column_names` is wrapped in `single_item_cache` (keyed on the frame argument by `==`)."""
    fns = [n for n in _frame_class(tree).body if isinstance(n, ast.FunctionDef) and n.name == "column_names"]
    if len(fns) != 1:
        raise Shape("DataFrame.column_names")
    decos = [ast.unparse(d) for d in fns[0].decorator_list]
    if any(d not in ("property", "single_item_cache") for d in decos):
        raise Shape("decorators of column_names: %r" % (decos,))
    return "single_item_cache" in decos


def generate(o):
    prof = Src("orso/profiler/profiler.py")
    dist = Src("orso/profiler/distogram/__init__.py")
    key = o.item("profglue.accumulator_key", lambda: _accumulator(prof.func("from_dataframe", "TableProfile"))[0], PINNED["key"])
    skips = o.item("profglue.skips_empty", lambda: _accumulator(prof.func("from_dataframe", "TableProfile"))[1], PINNED["skips_empty"])
    load = o.item("profglue.load_copies", lambda: _load(dist.func("load")), PINNED["load_copies"])
    fromc = o.item("profglue.sum_from_copy", lambda: _add(prof.func("__add__", "ColumnProfile"))[0], PINNED["from_copy"])
    coth = o.item("profglue.sum_copies_other_histogram", lambda: _add(prof.func("__add__", "ColumnProfile"))[1], PINNED["copies_other"])

    frame = Src("orso/dataframe.py")
    feq = o.item("profglue.frame_equality", lambda: _frame_equality(frame.tree), PINNED["frame_eq"])
    ncache = o.item("profglue.column_names_cached", lambda: _names_cached(frame.tree), PINNED["names_cached"])

    def b(x):
        return "true" if x else "false"

    t = HEADER + "import OrsoVerif.Model.ProfileBase\n"
    t += ("/-! The glue around the column profilers (harness/extractors/c15_glue.py): the morsel loop of TableProfile.from_dataframe, "
          "what ColumnProfile.__add__ and distogram.load copy. -/\n")
    t += "namespace Gen.ProfileGlue\nopen Profile\n\n"
    t += "/-- `profiles[K]` in the morsel loop of `TableProfile.from_dataframe`: what K is (`column.name` / `column.identity`) -/\n"
    t += "def accumulatorKey : KeyKind := .%s\n" % ("identity" if key == "identity" else "name")
    t += "/-- `if len(column_data) == 0: continue` stands before the column of a morsel is profiled -/\n"
    t += "def skipsEmptyColumn : Bool := %s\n" % b(skips)
    t += "/-- `distogram.load(bins, …)` makes its own list of the bins it is handed (`list(bins)`); false: it keeps the list itself -/\n"
    t += "def loadCopiesBins : Bool := %s\n" % b(load)
    t += "/-- `ColumnProfile.__add__` starts from `self.deep_copy()`; false: from `self` -/\n"
    t += "def sumStartsFromCopy : Bool := %s\n" % b(fromc)
    t += "/-- where `__add__` keeps the other side's histogram as it is (`elif profile.histogram:`) it makes its own list of it -/\n"
    t += "def sumCopiesOtherHistogram : Bool := %s\n" % b(coth)
    t += ("/-- two `DataFrame` objects compare equal only when they are one object (the class defines no `__eq__`); false: frames "
          "holding equal rows compare equal, whatever their schemas -/\n")
    t += "def frameEqIsIdentity : Bool := %s\n" % b(feq == "identity")
    t += "/-- `DataFrame.column_names` is answered through `tools.single_item_cache` (one entry, keyed on the frame by `==`) -/\n"
    t += "def columnNamesCached : Bool := %s\n" % b(ncache)
    t += "end Gen.ProfileGlue\n"
    o.files["ProfileGlue.lean"] = t
