"""C04: the bodies of DataFrame.fetchone / fetchmany / fetchall translated *statement by statement* into Lean
(`Generated/CursorFns.lean`, namespace `Gen.CursorFns`) by harness/pystmt.py on every run.

The cursor is a Python iterator, i.e. state: the translation is state passing.  `next(self._cursor)` under
`try … except StopIteration` becomes a `match next cursor with | (some v, cursor) => … | (none, cursor) => …`
(the new `cursor` shadows the old one), `for i in range(n): … break` becomes `Cursor.forRange` over the tuple of
variables the body assigns, `raise` is `none`.  These two shapes are property specific and enter pystmt through
its `stmt_hook`.  `Props/C04.lean` proves each generated function equal to the corresponding piece of the
hand-written code machine (`generated_fetch*_eq_model`); a shape the translator does not know, or a
translation that does not elaborate, degrades to the pinned text (the translation of the pinned tree).
"""
import ast
import json
import os

from .. import core, pystmt
from ..extract import HEADER, Src
from ..pyexpr import Untranslatable
from .c04 import V, optint

PINNED_FILE = os.path.join(os.path.dirname(os.path.abspath(__file__)), "pinned", "c04_fns.json")
NEXT = "next(self._cursor)"


def _is_next(n):
    return n is not None and ast.unparse(n) == NEXT


def _uses(stmts, name):
    return any(isinstance(n, ast.Name) and n.id == name for s in stmts for n in ast.walk(s))


class Hook:
    """The stateful statement shapes of the fetch methods."""

    def __init__(self, wrap_some):
        self.wrap_some = wrap_some   # fetchone returns the row as an Optional: `next(...)` is `some v_`
        self.break_term = None
        self.ints = {
            "size": V("(size.getD 0)", "(size.isSome && (size.getD 0 != 0))", "size.isNone"),
            "self.arraysize": V("arraysize", "(arraysize != 0)", "false"),
        }

    def __call__(self, s, rest, k, depth, st):
        ex = st.ex
        pad = st.ind * depth
        if isinstance(s, ast.Break):
            if self.break_term is None:
                raise Untranslatable("break outside a translated loop")
            return self.break_term
        if isinstance(s, ast.Assign) and len(s.targets) == 1 and isinstance(s.targets[0], ast.Name) \
                and any(isinstance(n, (ast.Name, ast.Attribute)) and ast.unparse(n) in self.ints for n in ast.walk(s.value)):
            # an int-or-None expression (`self.arraysize if size is None else size`, `size or …`): typed translation
            name = s.targets[0].id
            v = optint(s.value, self.ints)
            saved_b, saved_i = set(ex.bound), dict(self.ints)
            ex.bound.add(name)
            self.ints[name] = V(name, "(%s != 0)" % name, "false")
            try:
                body = st.block(rest, k, depth)
            finally:
                ex.bound, self.ints = saved_b, saved_i
            return "let %s : Int := %s\n%s%s" % (name, v.i, pad, body)
        if isinstance(s, ast.Try):
            if s.orelse or s.finalbody or len(s.handlers) != 1 or s.handlers[0].type is None \
                    or ast.unparse(s.handlers[0].type) != "StopIteration" or s.handlers[0].name:
                raise Untranslatable("try shape")
            first = s.body[0]
            calls = [n for b in s.body for n in ast.walk(b) if isinstance(n, ast.Call) and _is_next(n)]
            if len(calls) != 1:
                raise Untranslatable("try body must call next(self._cursor) exactly once")
            if any(isinstance(n, ast.Call) and not _is_next(n) and not (isinstance(n.func, ast.Attribute) and n.func.attr == "append")
                   for b in s.body for n in ast.walk(b)):
                raise Untranslatable("another call inside the try body (it could raise StopIteration too)")
            saved_env, saved_b = dict(ex.env), set(ex.bound)
            try:
                if isinstance(first, ast.Assign) and len(first.targets) == 1 and isinstance(first.targets[0], ast.Name) and _is_next(first.value):
                    var = first.targets[0].id
                    ex.bound.add(var)
                    some = st.block(list(s.body[1:]) + rest, k, depth + 1)
                elif isinstance(first, ast.Return) and _is_next(first.value):
                    var = "v_"
                    ex.env[NEXT] = "(some v_)" if self.wrap_some else "v_"
                    some = st.block(list(s.body) + rest, k, depth + 1)
                else:
                    raise Untranslatable("next(self._cursor) must be the first statement of the try body")
            finally:
                ex.env, ex.bound = saved_env, saved_b
            none = st.block(list(s.handlers[0].body) + rest, k, depth + 1)
            return ("match next cursor with\n%s| (some %s, cursor) =>\n%s%s%s\n%s| (none, cursor) =>\n%s%s%s"
                    % (pad, var, pad, st.ind, some, pad, pad, st.ind, none))
        if isinstance(s, ast.For) and not s.orelse and isinstance(s.iter, ast.Call) and ast.unparse(s.iter.func) == "range" \
                and len(s.iter.args) == 1 and not s.iter.keywords and isinstance(s.target, ast.Name):
            if _uses(s.body, s.target.id):
                raise Untranslatable("the loop variable is used")
            if not any(isinstance(n, ast.Call) and _is_next(n) for b in s.body for n in ast.walk(b)):
                return None  # not a loop over the cursor: pystmt's own shapes
            state = [v for v in pystmt._assigned(s.body) if v in ex.bound] + ["cursor"]
            tup = "(" + ", ".join(state) + ")"
            bound = ex.go(s.iter.args[0])
            saved = self.break_term
            self.break_term = "Loop.stop %s" % tup
            try:
                body = st.block(list(s.body), "Loop.next %s" % tup, depth + 2)
            finally:
                self.break_term = saved
            tail = st.block(rest, k, depth)
            return ("let %s := forRange (%s).toNat %s (fun %s =>\n%s%s%s%s)\n%s%s"
                    % (tup, bound, tup, tup, pad, st.ind, st.ind, body, pad, tail))
        return None


def _ex():
    return pystmt.Expr(env={"self._cursor is None": "cursorIsNone", "self._cursor is not None": "(!cursorIsNone)"})


def _check_sig(fn, want):
    if [a.arg for a in fn.args.args] != want or fn.args.vararg or fn.args.kwarg or fn.args.kwonlyargs:
        raise Untranslatable("signature of %s" % fn.name)


def t_fetchone(src):
    fn = src.func("fetchone", "DataFrame")
    _check_sig(fn, ["self"])
    ret = lambda v, ex: "some (%s, cursor)" % ("none" if v is None else ex.go(v))  # noqa: E731
    return pystmt.function(fn, "fetchone", [(None, "(next : σ → Option α × σ)"), (None, "(cursorIsNone : Bool)"), (None, "(cursor : σ)")],
                           "Option (Option α × σ)", _ex(), ret=ret, raise_=lambda s, ex: "none", k="some (none, cursor)",
                           stmt_hook=Hook(wrap_some=True))


def t_fetchmany(src):
    fn = src.func("fetchmany", "DataFrame")
    _check_sig(fn, ["self", "size"])
    if len(fn.args.defaults) != 1 or ast.unparse(fn.args.defaults[0]) != "None":
        raise Untranslatable("default of size")

    def ret(v, ex):
        if v is None:
            raise Untranslatable("fetchmany returns nothing")
        return "some (%s, cursor)" % ex.go(v)
    return pystmt.function(fn, "fetchmany",
                           [(None, "(next : σ → Option α × σ)"), (None, "(cursorIsNone : Bool)"), (None, "(arraysize : Int)"),
                            (None, "(size : Option Int)"), (None, "(cursor : σ)")],
                           "Option (List α × σ)", _ex(), ret=ret, raise_=lambda s, ex: "none", k="none",
                           stmt_hook=Hook(wrap_some=False))


def t_fetchall(src):
    fn = src.func("fetchall", "DataFrame")
    _check_sig(fn, ["self"])

    def ret(v, ex):
        if v is not None and ast.unparse(v) == "list(self._cursor)":
            return "some (drain cursor)"
        raise Untranslatable("fetchall returns %s" % (ast.unparse(v) if v is not None else "nothing"))
    return pystmt.function(fn, "fetchall", [(None, "(drain : σ → List α × σ)"), (None, "(cursorIsNone : Bool)"), (None, "(cursor : σ)")],
                           "Option (List α × σ)", _ex(), ret=ret, raise_=lambda s, ex: "none", k="none",
                           stmt_hook=Hook(wrap_some=False))


# ----------------------------------------------------------------------------- the lazy views: select / filter / take
#
# Each hands out `DataFrame(rows=<generator>, …)`.  The generator is translated as the list it produces (Python's
# generator protocol — one row per `next`, laziness — is trusted): `Props/C04.lean` proves each list equal to the
# concatenation of one chunk of one or zero rows per parent row, which is the shape the lazy clause is proved for.


def _view_ex(env):
    box = {}

    def hook(n, go):
        if isinstance(n, ast.Call) and isinstance(n.func, ast.Name) and not n.keywords:
            if n.func.id == "zip" and len(n.args) == 2:
                return "((%s).zip (%s))" % (go(n.args[0]), go(n.args[1]))
            if n.func.id == "enumerate" and len(n.args) == 1:
                return "(((%s).zipIdx).map (fun (x_, i_) => (i_, x_)))" % go(n.args[0])
            if n.func.id == "tuple" and len(n.args) == 1:
                return go(n.args[0])  # a row is the list of its values
        if isinstance(n, ast.GeneratorExp):
            return box["ex"].comp(n.generators, n.elt)
        if isinstance(n, ast.Subscript) and not isinstance(n.slice, ast.Slice):
            return "(get %s %s)" % (go(n.value), go(n.slice))
        return None

    box["ex"] = pystmt.Expr(env=env, hook=hook)
    return box["ex"]


def _rows_keyword(fn, which="DataFrame"):
    calls = [n for n in ast.walk(fn) if isinstance(n, ast.Call) and ast.unparse(n.func) == which]
    rets = [s for s in fn.body if isinstance(s, ast.Return)]
    if len(calls) != 1 or len(rets) != 1 or rets[0].value is not calls[0] or calls[0].args:
        raise Untranslatable("%s does not end in one `return DataFrame(…)`" % fn.name)
    kw = [k for k in calls[0].keywords if k.arg == "rows"]
    if len(kw) != 1:
        raise Untranslatable("rows= of %s" % fn.name)
    return kw[0].value


def _snapshot_of_rows(s):
    """`rows = self._rows[:]`, `rows = list(self._rows)` or `rows = self._rows[:] if isinstance(self._rows, list) else self._rows`:
    a local snapshot of the rows held now (repair C05-F05).  In the model rows are values, so the local is the row list
    itself.  Returns the local's name or None."""
    if not (isinstance(s, ast.Assign) and len(s.targets) == 1 and isinstance(s.targets[0], ast.Name)):
        return None
    v = s.value

    def is_rows(n):
        return ast.unparse(n) == "self._rows"

    def is_copy(n):
        if isinstance(n, ast.Subscript) and is_rows(n.value) and isinstance(n.slice, ast.Slice) \
                and n.slice.lower is None and n.slice.upper is None and n.slice.step is None:
            return True
        return isinstance(n, ast.Call) and isinstance(n.func, ast.Name) and n.func.id == "list" and len(n.args) == 1 \
            and is_rows(n.args[0]) and not n.keywords

    if is_copy(v):
        return s.targets[0].id
    if isinstance(v, ast.IfExp) and ast.unparse(v.test) == "isinstance(self._rows, list)" and is_copy(v.body) and is_rows(v.orelse):
        return s.targets[0].id
    return None


def _only_docstring_before_return(fn):
    """Returns the names of local snapshots of `self._rows` made before the return (they stand for the row list)."""
    names = []
    for s in fn.body[:-1]:
        if isinstance(s, ast.Expr) and isinstance(s.value, ast.Constant):
            continue
        nm = _snapshot_of_rows(s)
        if nm is None:
            raise Untranslatable("statement before the return of %s: %s" % (fn.name, ast.unparse(s)[:40]))
        names.append(nm)
    return names


def t_filter(src):
    fn = src.func("filter", "DataFrame")
    _check_sig(fn, ["self", "mask"])
    snaps = _only_docstring_before_return(fn)
    ex = _view_ex(dict({"self._rows": "rows"}, **{nm: "rows" for nm in snaps}))
    ex.bound.add("mask")
    return "def filterRows (rows : List α) (mask : List Bool) : List α :=\n  %s\n" % ex.go(_rows_keyword(fn))


def t_take(src):
    fn = src.func("take", "DataFrame")
    _check_sig(fn, ["self", "indexes"])
    snaps = _only_docstring_before_return(fn)
    ex = _view_ex(dict({"self._rows": "rows"}, **{nm: "rows" for nm in snaps}))
    ex.bound.add("indexes")
    return "def takeRows (rows : List α) (indexes : List Nat) : List α :=\n  %s\n" % ex.go(_rows_keyword(fn))


def t_select(src):
    """`_inner_projection`: `for tup in self._rows: yield tuple([tup[indice] for indice in attribute_indices])`."""
    fn = src.func("select", "DataFrame")
    _check_sig(fn, ["self", "attributes"])
    inner = [s for s in fn.body if isinstance(s, ast.FunctionDef)]
    if len(inner) != 1 or inner[0].args.args:
        raise Untranslatable("select: one nested generator without parameters")
    rows_kw = _rows_keyword(fn)
    if ast.unparse(rows_kw) != inner[0].name + "()":
        raise Untranslatable("select: rows= is not the nested generator")
    # which columns: `attribute_indices` is computed from the names before; the generator only uses it
    ex = _view_ex({"self._rows": "rows"})
    ex.bound.add("attribute_indices")
    return ("def selectRows {β : Type} (get : α → Nat → β) (rows : List α) (attribute_indices : List Nat) : List (List β) :=\n  %s\n"
            % pystmt.generator_as_list(inner[0], ex))


TRANSLATORS = (("fetchone", t_fetchone), ("fetchmany", t_fetchmany), ("fetchall", t_fetchall),
               ("filterRows", t_filter), ("takeRows", t_take), ("selectRows", t_select))


def _pinned():
    try:
        return json.load(open(PINNED_FILE))
    except OSError:
        return {}


def generate(o):
    src = Src("orso/dataframe.py")
    pinned = _pinned()
    fresh = {}
    for key, fn in TRANSLATORS:
        fresh[key] = o.item("cursor.fn." + key, lambda fn=fn: fn(src), pinned.get(key, "-- %s: not translated\n" % key))
    if os.environ.get("ORSO_VERIF_WRITE_PINNED") == "c04_fns":
        os.makedirs(os.path.dirname(PINNED_FILE), exist_ok=True)
        json.dump(fresh, open(PINNED_FILE, "w"), indent=1, sort_keys=True)
    header = HEADER + "import OrsoVerif.Model.Cursor\n"
    header += "/-! The fetch methods of orso/dataframe.py, translated statement by statement (harness/pystmt.py + extractors/c04_fns.py). -/\n"
    header += "set_option linter.unusedVariables false\nopen _root_.Cursor\nnamespace Gen.CursorFns\nvariable {σ α : Type}\n\n"
    text, bad = pystmt.compile_checked(header, [(k, fresh[k]) for k, _ in TRANSLATORS], "\nend Gen.CursorFns\n", pinned,
                                       core.LEAN, "CursorFns")
    for k in bad:
        o.degraded.append("cursor.fn.%s (the translation does not elaborate in Lean; pinned text used)" % k)
    o.files["CursorFns.lean"] = text
