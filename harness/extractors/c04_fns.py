"""C04: the bodies of DataFrame.fetchone / fetchmany / fetchall translated *statement by statement* into Lean
(`Generated/CursorFns.lean`, namespace `Gen.CursorFns`) by harness/pystmt.py on every run.

The cursor is a Python iterator, i.e. state: the translation is state passing.  `next(self._cursor)` under
`try … except StopIteration` becomes a `match next cursor with | (some v, cursor) => … | (none, cursor) => …`
(the new `cursor` shadows the old one), `for i in range(n): … break` becomes `Cursor.forRange` over the tuple of
variables the body assigns, `raise` is `none`.  These two shapes are property specific and enter pystmt through
its `stmt_hook`.  `Props/C04.lean` proves each generated function equal to the corresponding piece of the
hand-written code machine (`generated_fetch*_eq_model`); a shape the translator does not know, or a
translation that does not elaborate, degrades to the pinned text (the translation of the pinned tree).
"""
import ast
import json
import os

from .. import core, pystmt
from ..extract import HEADER, Src
from ..pyexpr import Untranslatable
from .c04 import V, optint

PINNED_FILE = os.path.join(os.path.dirname(os.path.abspath(__file__)), "pinned", "c04_fns.json")
NEXT = "next(self._cursor)"


def _is_next(n):
    return n is not None and ast.unparse(n) == NEXT


def _uses(stmts, name):
    return any(isinstance(n, ast.Name) and n.id == name for s in stmts for n in ast.walk(s))


class Hook:
    """The stateful statement shapes of the fetch methods."""

    def __init__(self, wrap_some):
        self.wrap_some = wrap_some   # fetchone returns the row as an Optional: `next(...)` is `some v_`
        self.break_term = None
        self.ints = {
            "size": V("(size.getD 0)", "(size.isSome && (size.getD 0 != 0))", "size.isNone"),
            "self.arraysize": V("arraysize", "(arraysize != 0)", "false"),
        }

    def __call__(self, s, rest, k, depth, st):
        ex = st.ex
        pad = st.ind * depth
        if isinstance(s, ast.Break):
            if self.break_term is None:
                raise Untranslatable("break outside a translated loop")
            return self.break_term
        if isinstance(s, ast.Assign) and len(s.targets) == 1 and isinstance(s.targets[0], ast.Name) \
                and any(isinstance(n, (ast.Name, ast.Attribute)) and ast.unparse(n) in self.ints for n in ast.walk(s.value)):
            # an int-or-None expression (`self.arraysize if size is None else size`, `size or …`): typed translation
            name = s.targets[0].id
            v = optint(s.value, self.ints)
            saved_b, saved_i = set(ex.bound), dict(self.ints)
            ex.bound.add(name)
            self.ints[name] = V(name, "(%s != 0)" % name, "false")
            try:
                body = st.block(rest, k, depth)
            finally:
                ex.bound, self.ints = saved_b, saved_i
            return "let %s : Int := %s\n%s%s" % (name, v.i, pad, body)
        if isinstance(s, ast.Try):
            if s.orelse or s.finalbody or len(s.handlers) != 1 or s.handlers[0].type is None \
                    or ast.unparse(s.handlers[0].type) != "StopIteration" or s.handlers[0].name:
                raise Untranslatable("try shape")
            first = s.body[0]
            calls = [n for b in s.body for n in ast.walk(b) if isinstance(n, ast.Call) and _is_next(n)]
            if len(calls) != 1:
                raise Untranslatable("try body must call next(self._cursor) exactly once")
            if any(isinstance(n, ast.Call) and not _is_next(n) and not (isinstance(n.func, ast.Attribute) and n.func.attr == "append")
                   for b in s.body for n in ast.walk(b)):
                raise Untranslatable("another call inside the try body (it could raise StopIteration too)")
            saved_env, saved_b = dict(ex.env), set(ex.bound)
            try:
                if isinstance(first, ast.Assign) and len(first.targets) == 1 and isinstance(first.targets[0], ast.Name) and _is_next(first.value):
                    var = first.targets[0].id
                    ex.bound.add(var)
                    some = st.block(list(s.body[1:]) + rest, k, depth + 1)
                elif isinstance(first, ast.Return) and _is_next(first.value):
                    var = "v_"
                    ex.env[NEXT] = "(some v_)" if self.wrap_some else "v_"
                    some = st.block(list(s.body) + rest, k, depth + 1)
                else:
                    raise Untranslatable("next(self._cursor) must be the first statement of the try body")
            finally:
                ex.env, ex.bound = saved_env, saved_b
            none = st.block(list(s.handlers[0].body) + rest, k, depth + 1)
            return ("match next cursor with\n%s| (some %s, cursor) =>\n%s%s%s\n%s| (none, cursor) =>\n%s%s%s"
                    % (pad, var, pad, st.ind, some, pad, pad, st.ind, none))
        if isinstance(s, ast.For) and not s.orelse and isinstance(s.iter, ast.Call) and ast.unparse(s.iter.func) == "range" \
                and len(s.iter.args) == 1 and not s.iter.keywords and isinstance(s.target, ast.Name):
            if _uses(s.body, s.target.id):
                raise Untranslatable("the loop variable is used")
            if not any(isinstance(n, ast.Call) and _is_next(n) for b in s.body for n in ast.walk(b)):
                return None  # not a loop over the cursor: pystmt's own shapes
            state = [v for v in pystmt._assigned(s.body) if v in ex.bound] + ["cursor"]
            tup = "(" + ", ".join(state) + ")"
            bound = ex.go(s.iter.args[0])
            saved = self.break_term
            self.break_term = "Loop.stop %s" % tup
            try:
                body = st.block(list(s.body), "Loop.next %s" % tup, depth + 2)
            finally:
                self.break_term = saved
            tail = st.block(rest, k, depth)
            return ("let %s := forRange (%s).toNat %s (fun %s =>\n%s%s%s%s)\n%s%s"
                    % (tup, bound, tup, tup, pad, st.ind, st.ind, body, pad, tail))
        return None


def _ex():
    return pystmt.Expr(env={"self._cursor is None": "cursorIsNone", "self._cursor is not None": "(!cursorIsNone)"})


def _check_sig(fn, want):
    if [a.arg for a in fn.args.args] != want or fn.args.vararg or fn.args.kwarg or fn.args.kwonlyargs:
        raise Untranslatable("signature of %s" % fn.name)


def t_fetchone(src):
    fn = src.func("fetchone", "DataFrame")
    _check_sig(fn, ["self"])
    ret = lambda v, ex: "some (%s, cursor)" % ("none" if v is None else ex.go(v))  # noqa: E731
    return pystmt.function(fn, "fetchone", [(None, "(next : σ → Option α × σ)"), (None, "(cursorIsNone : Bool)"), (None, "(cursor : σ)")],
                           "Option (Option α × σ)", _ex(), ret=ret, raise_=lambda s, ex: "none", k="some (none, cursor)",
                           stmt_hook=Hook(wrap_some=True))


def t_fetchmany(src):
    fn = src.func("fetchmany", "DataFrame")
    _check_sig(fn, ["self", "size"])
    if len(fn.args.defaults) != 1 or ast.unparse(fn.args.defaults[0]) != "None":
        raise Untranslatable("default of size")

    def ret(v, ex):
        if v is None:
            raise Untranslatable("fetchmany returns nothing")
        return "some (%s, cursor)" % ex.go(v)
    return pystmt.function(fn, "fetchmany",
                           [(None, "(next : σ → Option α × σ)"), (None, "(cursorIsNone : Bool)"), (None, "(arraysize : Int)"),
                            (None, "(size : Option Int)"), (None, "(cursor : σ)")],
                           "Option (List α × σ)", _ex(), ret=ret, raise_=lambda s, ex: "none", k="none",
                           stmt_hook=Hook(wrap_some=False))


def t_fetchall(src):
    fn = src.func("fetchall", "DataFrame")
    _check_sig(fn, ["self"])

    def ret(v, ex):
        if v is not None and ast.unparse(v) == "list(self._cursor)":
            return "some (drain cursor)"
        raise Untranslatable("fetchall returns %s" % (ast.unparse(v) if v is not None else "nothing"))
    return pystmt.function(fn, "fetchall", [(None, "(drain : σ → List α × σ)"), (None, "(cursorIsNone : Bool)"), (None, "(cursor : σ)")],
                           "Option (List α × σ)", _ex(), ret=ret, raise_=lambda s, ex: "none", k="none",
                           stmt_hook=Hook(wrap_some=False))


TRANSLATORS = (("fetchone", t_fetchone), ("fetchmany", t_fetchmany), ("fetchall", t_fetchall))


def _pinned():
    try:
        return json.load(open(PINNED_FILE))
    except OSError:
        return {}


def generate(o):
    src = Src("orso/dataframe.py")
    pinned = _pinned()
    fresh = {}
    for key, fn in TRANSLATORS:
        fresh[key] = o.item("cursor.fn." + key, lambda fn=fn: fn(src), pinned.get(key, "-- %s: not translated\n" % key))
    if os.environ.get("ORSO_VERIF_WRITE_PINNED") == "c04_fns":
        os.makedirs(os.path.dirname(PINNED_FILE), exist_ok=True)
        json.dump(fresh, open(PINNED_FILE, "w"), indent=1, sort_keys=True)
    header = HEADER + "import OrsoVerif.Model.Cursor\n"
    header += "/-! The fetch methods of orso/dataframe.py, translated statement by statement (harness/pystmt.py + extractors/c04_fns.py). -/\n"
    header += "set_option linter.unusedVariables false\nopen _root_.Cursor\nnamespace Gen.CursorFns\nvariable {σ α : Type}\n\n"
    text, bad = pystmt.compile_checked(header, [(k, fresh[k]) for k, _ in TRANSLATORS], "\nend Gen.CursorFns\n", pinned,
                                       core.LEAN, "CursorFns")
    for k in bad:
        o.degraded.append("cursor.fn.%s (the translation does not elaborate in Lean; pinned text used)" % k)
    o.files["CursorFns.lean"] = text
