"""C15: what DateProfiler.__call__ (orso/profiler/profiler.py) converts the cells of a DATE / TIMESTAMP column
through, lifted from the AST into Generated/ProfileTime.lean.

The method is read by a small abstract interpreter over its statements up to `self.profile.missing = …`.  It
follows two executions:

* the *pandas* path — the test `hasattr(column_data[0], "value")` holds and nothing raises;
* the *general* path — the test is false (or the pandas path raised one of the exceptions caught around it).

A variable is bound to the list of dtypes its array has been through: `numpy.array(<cells>, dtype=D)` starts a
list, `.astype(D)` extends it, a mask subscript `x[~numpy.equal(x, S)]` keeps it (and yields the null sentinel
S), `None` is a marker that `if x is None:` tests.  `try:` bodies belong to the pandas path; the names of the
`except` clause(s) around the `.value` reads are the exceptions after which the general path is taken.

Anything outside this grammar degrades to the pinned chains (`extraction_degraded`); correspondence and the
oracle carry the change then.
"""
import ast

from ..extract import HEADER, Src

PINNED = {
    "plain": ["datetime64[s]", "int64"],
    "pandas": ["int64", "datetime64[ns]", "datetime64[s]", "int64"],
    "caught": ["AttributeError", "OverflowError"],
    "sentinel": -9223372036854775808,
    "copied": [["histogram", "histogram"], ["kmv_hashes", "kmv_hashes"], ["maximum", "maximum"], ["minimum", "minimum"],
               ["most_frequent_counts", "most_frequent_counts"], ["most_frequent_values", "most_frequent_values"]],
}
UNITS = ("W", "D", "h", "m", "s", "ms", "us", "ns")


def pinned_json():
    return {"proftime.plain_chain": PINNED["plain"], "proftime.pandas_chain": PINNED["pandas"],
            "proftime.fallback_caught": PINNED["caught"], "proftime.sentinel": PINNED["sentinel"],
            "proftime.copied_fields": PINNED["copied"]}


class Shape(Exception):
    pass


NONE = "None"


def _dtype(node):
    if isinstance(node, ast.Constant) and isinstance(node.value, str):
        d = node.value
        if d in ("int64", "i8", "<i8"):
            return "int64"
        if d.startswith("datetime64[") and d.endswith("]") and d[11:-1] in UNITS:
            return "datetime64[%s]" % d[11:-1]
        if d.startswith("M8[") and d.endswith("]") and d[3:-1] in UNITS:
            return "datetime64[%s]" % d[3:-1]
    raise Shape("dtype %s" % ast.dump(node)[:40])


def _is_numpy(node, attr):
    return (isinstance(node, ast.Attribute) and node.attr == attr and isinstance(node.value, ast.Name)
            and node.value.id in ("numpy", "np"))


def _reads_value(node):
    """`[v.value for v in column_data if v is not None]` (or without the filter)."""
    if not isinstance(node, (ast.ListComp, ast.GeneratorExp)) or len(node.generators) != 1:
        return False
    g = node.generators[0]
    return (isinstance(node.elt, ast.Attribute) and node.elt.attr == "value" and isinstance(node.elt.value, ast.Name)
            and isinstance(g.target, ast.Name) and g.target.id == node.elt.value.id)


class Interp:
    def __init__(self, pandas_path):
        self.pandas = pandas_path
        self.env = {"column_data": ["<cells>"]}
        self.sentinel = None
        self.caught = None
        self.source_ok = False

    def expr(self, n):
        if isinstance(n, ast.Constant) and n.value is None:
            return NONE
        if isinstance(n, ast.Name):
            if n.id not in self.env:
                raise Shape("unbound " + n.id)
            return self.env[n.id]
        if isinstance(n, ast.Call) and _is_numpy(n.func, "array"):
            kw = {k.arg: k.value for k in n.keywords}
            if len(n.args) != 1 or "dtype" not in kw:
                raise Shape("numpy.array without dtype")
            src = n.args[0]
            if _reads_value(src):
                if not self.pandas:
                    raise Shape(".value read on the general path")
            elif isinstance(src, ast.Name) and self.env.get(src.id) == ["<cells>"]:
                pass
            else:
                raise Shape("numpy.array of something else")
            self.source_ok = True
            return [_dtype(kw["dtype"])]
        if isinstance(n, ast.Call) and isinstance(n.func, ast.Attribute) and n.func.attr == "astype":
            if len(n.args) != 1 or n.keywords:
                raise Shape("astype arguments")
            base = self.expr(n.func.value)
            if base == NONE or base == ["<cells>"]:
                raise Shape("astype of a non-array")
            return base + [_dtype(n.args[0])]
        if isinstance(n, ast.Subscript):
            base = self.expr(n.value)
            m = n.slice
            if (isinstance(m, ast.UnaryOp) and isinstance(m.op, ast.Invert) and isinstance(m.operand, ast.Call)
                    and _is_numpy(m.operand.func, "equal") and len(m.operand.args) == 2):
                self.sentinel = int(ast.literal_eval(m.operand.args[1]))
                return base
            raise Shape("subscript")
        raise Shape("expression %s" % type(n).__name__)

    def test(self, t):
        """True / False for the tests the two paths decide; raises otherwise."""
        if (isinstance(t, ast.Call) and isinstance(t.func, ast.Name) and t.func.id == "hasattr" and len(t.args) == 2
                and isinstance(t.args[1], ast.Constant) and t.args[1].value == "value"
                and isinstance(t.args[0], ast.Subscript) and isinstance(t.args[0].value, ast.Name)
                and t.args[0].value.id == "column_data" and isinstance(t.args[0].slice, ast.Constant)
                and t.args[0].slice.value == 0):
            return self.pandas
        if (isinstance(t, ast.Compare) and len(t.ops) == 1 and isinstance(t.left, ast.Name)
                and isinstance(t.comparators[0], ast.Constant) and t.comparators[0].value is None):
            v = self.env.get(t.left.id)
            if v is None:
                raise Shape("unbound " + t.left.id)
            if isinstance(t.ops[0], ast.Is):
                return v == NONE
            if isinstance(t.ops[0], ast.IsNot):
                return v != NONE
        raise Shape("test")

    def block(self, stmts):
        """Returns True when the end marker (`self.profile.missing = …`) was reached."""
        for s in stmts:
            if isinstance(s, ast.Expr) and isinstance(s.value, ast.Constant):
                continue  # docstring
            if isinstance(s, ast.Pass):
                continue
            if isinstance(s, ast.Assign) and len(s.targets) == 1:
                t = s.targets[0]
                if isinstance(t, ast.Attribute):
                    if t.attr == "missing":
                        return True
                    if t.attr == "count":
                        continue
                    raise Shape("assignment to ." + t.attr)
                if isinstance(t, ast.Name):
                    self.env[t.id] = self.expr(s.value)
                    continue
                raise Shape("assignment target")
            if isinstance(s, ast.If):
                if self.block(s.body if self.test(s.test) else s.orelse):
                    return True
                continue
            if isinstance(s, ast.Try):
                if s.orelse or s.finalbody:
                    raise Shape("try with else/finally")
                names = []
                for h in s.handlers:
                    ty = h.type
                    elts = ty.elts if isinstance(ty, ast.Tuple) else [ty]
                    for e in elts:
                        if not isinstance(e, ast.Name):
                            raise Shape("except clause")
                        names.append(e.id)
                    # the handler may only reset variables to None
                    for hs in h.body:
                        if isinstance(hs, ast.Pass):
                            continue
                        if not (isinstance(hs, ast.Assign) and len(hs.targets) == 1 and isinstance(hs.targets[0], ast.Name)
                                and isinstance(hs.value, ast.Constant) and hs.value.value is None):
                            raise Shape("except body")
                if self.pandas:
                    self.caught = sorted(set(names))
                    if self.block(s.body):
                        raise Shape("end marker inside try")
                else:
                    # general path: either the test inside is false, or the body raised and the handler reset
                    # its variables — both leave the variables assigned in the body as they were / None
                    if self.block(s.body):
                        raise Shape("end marker inside try")
                    for h in s.handlers:
                        for hs in h.body:
                            if isinstance(hs, ast.Assign) and self.env.get(hs.targets[0].id) != NONE:
                                raise Shape("the general path depends on whether the pandas path raised")
                continue
            raise Shape("statement %s" % type(s).__name__)
        return False


def _run(fn, pandas_path):
    it = Interp(pandas_path)
    if not it.block(fn.body):
        raise Shape("no `self.profile.missing = …`")
    chain = it.env.get("column_data")
    if not isinstance(chain, list) or chain == ["<cells>"] or not it.source_ok:
        raise Shape("column_data is not a converted array")
    if chain[-1] != "int64":
        raise Shape("the array handed on is not int64")
    return it, chain


def _copied(fn):
    """`self.profile.F = <numeric profile>.G` after `self.profile.missing = …`: [[F, G], …], sorted.  The numeric
    profile must be the `.profile` of a `NumericProfiler(...)` that was called on `column_data`."""
    profiler_names, profile_names, called_on_data, out = set(), set(), False, {}
    seen_missing = False
    for n in ast.walk(fn):
        if isinstance(n, ast.Assign) and len(n.targets) == 1:
            t, v = n.targets[0], n.value
            if isinstance(t, ast.Name) and isinstance(v, ast.Call) and isinstance(v.func, ast.Name) and v.func.id == "NumericProfiler":
                profiler_names.add(t.id)
    for n in ast.walk(fn):
        if isinstance(n, ast.Assign) and len(n.targets) == 1:
            t, v = n.targets[0], n.value
            if (isinstance(t, ast.Name) and isinstance(v, ast.Attribute) and v.attr == "profile"
                    and isinstance(v.value, ast.Name) and v.value.id in profiler_names):
                profile_names.add(t.id)
        if (isinstance(n, ast.Call) and isinstance(n.func, ast.Name) and n.func.id in profiler_names
                and [ast.unparse(a) for a in n.args] + [ast.unparse(k.value) for k in n.keywords] == ["column_data"]):
            called_on_data = True
    if not profiler_names or not profile_names or not called_on_data:
        raise Shape("NumericProfiler(...)(column_data).profile")
    for n in ast.walk(fn):
        if isinstance(n, ast.Assign) and len(n.targets) == 1:
            t, v = n.targets[0], n.value
            if (isinstance(t, ast.Attribute) and ast.unparse(t.value) == "self.profile" and t.attr not in ("count", "missing")):
                if not (isinstance(v, ast.Attribute) and isinstance(v.value, ast.Name) and v.value.id in profile_names):
                    raise Shape("self.profile.%s is not copied from the numeric profile" % t.attr)
                if t.attr in out:
                    raise Shape("self.profile.%s assigned twice" % t.attr)
                out[t.attr] = v.attr
    if not out:
        raise Shape("no copied field")
    return sorted([k, v] for k, v in out.items())


def _lean_dtype(d):
    return ".i64" if d == "int64" else ".dt .%s" % d[11:-1]


def generate(o):
    src = Src("orso/profiler/profiler.py")

    def fn():
        return src.func("__call__", "DateProfiler")

    def plain():
        return _run(fn(), False)[1]

    def pandas():
        return _run(fn(), True)[1]

    def caught():
        it = _run(fn(), True)[0]
        return it.caught if it.caught is not None else []

    def sentinel():
        a, b = _run(fn(), False)[0].sentinel, _run(fn(), True)[0].sentinel
        if a is None or a != b:
            raise Shape("sentinel")
        return a

    pl = o.item("proftime.plain_chain", plain, PINNED["plain"])
    pd = o.item("proftime.pandas_chain", pandas, PINNED["pandas"])
    ca = o.item("proftime.fallback_caught", caught, PINNED["caught"])
    se = o.item("proftime.sentinel", sentinel, PINNED["sentinel"])
    cp = o.item("proftime.copied_fields", lambda: _copied(fn()), PINNED["copied"])
    t = HEADER + "import OrsoVerif.Model.ProfileBase\n"
    t += ("/-! DateProfiler (orso/profiler/profiler.py): the dtypes its two paths convert through, translated from the "
          "source (harness/extractors/c15_time.py). -/\n")
    t += "namespace Gen.ProfileTime\nopen Profile\n\n"
    t += "/-- the general path: `numpy.array(column_data, dtype=…)` and the `.astype(…)` calls that follow, up to the null filter -/\n"
    t += "def datePlainChain : List DType := [%s]\n" % ", ".join(_lean_dtype(d) for d in pl)
    t += "/-- the pandas path (first cell has `.value`): `numpy.array([v.value …], dtype=…)` and the `.astype(…)` calls that follow -/\n"
    t += "def datePandasChain : List DType := [%s]\n" % ", ".join(_lean_dtype(d) for d in pd)
    t += "/-- the exceptions after which the pandas path is abandoned for the general one (`except (…)` around it) -/\n"
    t += "def dateFallbackCaught : List String := [%s]\n" % ", ".join('"%s"' % c for c in ca)
    t += "/-- the integer read as a null (`numpy.equal(…, <sentinel>)`) -/\n"
    t += "def dateSentinel : Int := %d\n" % se
    t += ("/-- the fields DateProfiler copies from the numeric profile of the seconds: (reported field, field of the numeric "
          "profile), `self.profile.F = numeric_profile.G` -/\n")
    t += "def dateCopied : List (String × String) := [%s]\n" % ", ".join('("%s", "%s")' % (a, b) for a, b in cp)
    t += "end Gen.ProfileTime\n"
    o.files["ProfileTime.lean"] = t
