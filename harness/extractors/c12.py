"""C12: the keys of AGGREGATORS in orso/group_by.py and the shape of the group key in `_map`."""
import ast

from ..extract import HEADER, Src, lean_list, lean_str

PINNED = ["MIN", "MAX", "COUNT", "AVG", "SUM"]


def generate(o):
    src = Src("orso/group_by.py")

    def table():
        if src.tree is None:
            raise KeyError("group_by.py does not parse")
        for n in src.tree.body:
            if isinstance(n, ast.Assign) and len(n.targets) == 1 and isinstance(n.targets[0], ast.Name) \
                    and n.targets[0].id == "AGGREGATORS" and isinstance(n.value, ast.Dict):
                return [ast.literal_eval(k) for k in n.value.keys]
        raise KeyError("AGGREGATORS")

    tb = o.item("group_by.AGGREGATORS", table, PINNED)

    def keyed_by_value():
        """True when `_map` keys a group by the tuple of its key values (not by hash(...) of it)."""
        fn = src.func("_map", "GroupBy")
        for n in ast.walk(fn):
            if isinstance(n, ast.Assign) and len(n.targets) == 1 and isinstance(n.targets[0], ast.Name) \
                    and n.targets[0].id == "group_key":
                v = n.value
                if isinstance(v, ast.Call) and isinstance(v.func, ast.Name) and v.func.id == "hash":
                    return False
                if isinstance(v, ast.Tuple) or (isinstance(v, ast.Call) and isinstance(v.func, ast.Name) and v.func.id == "tuple"):
                    return True
                raise KeyError("group_key is neither tuple(...) nor hash(...)")
        raise KeyError("group_key assignment")

    kv = o.item("group_by.group_key_is_tuple", keyed_by_value, True)
    text = HEADER + "namespace Gen.GroupBy\n"
    text += "/-- the keys of `AGGREGATORS`, in source order -/\n"
    text += "def aggregatorKeys : List String := %s\n" % lean_list(tb, lean_str)
    text += "/-- `group_key = tuple(...)` in `_map` (false when it is wrapped, e.g. in `hash`) -/\n"
    text += "def groupKeyIsTuple : Bool := %s\n" % ("true" if kv else "false")
    text += "end Gen.GroupBy\n"
    o.files["GroupBy.lean"] = text
