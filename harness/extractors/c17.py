"""C17: the shape of the schema operations in orso/schema.py and the identity width in orso/tools.py.

These are the comparison operators, attributes and orderings the model was written from; the
theorem `C17.source_shape` states them, so a change of any of them makes a proof stop checking
(in addition to the correspondence finding the first input on which behaviour differs).
"""
import ast

from ..extract import HEADER, Src, lean_list, lean_str

_OPS = {ast.In: "in", ast.NotIn: "not in", ast.Eq: "==", ast.NotEq: "!=", ast.Is: "is", ast.IsNot: "is not",
        ast.Lt: "<", ast.LtE: "<=", ast.Gt: ">", ast.GtE: ">="}


def _attr(node):
    """`x.attr` -> 'attr'; `x.attr.lower()` -> 'attr.lower()'; a bare name -> the name."""
    if isinstance(node, ast.Call) and isinstance(node.func, ast.Attribute) and not node.args:
        return _attr(node.func.value) + "." + node.func.attr + "()"
    if isinstance(node, ast.Attribute):
        return node.attr
    if isinstance(node, ast.Name):
        return node.id
    raise KeyError(ast.dump(node)[:40])


def _first_if_compare(fn):
    for n in ast.walk(fn):
        if isinstance(n, ast.If) and isinstance(n.test, ast.Compare) and len(n.test.ops) == 1:
            return n.test
    raise KeyError("if <compare>")


def generate(o):
    sch = Src("orso/schema.py")
    tools = Src("orso/tools.py")

    def all_names_order():
        fn = sch.func("all_names", "FlatColumn")
        for n in ast.walk(fn):
            if isinstance(n, ast.Return) and isinstance(n.value, ast.BinOp) and isinstance(n.value.op, ast.Add):
                l, r = n.value.left, n.value.right
                if isinstance(l, ast.Attribute) and l.attr == "aliases" and isinstance(r, ast.List):
                    return True
                if isinstance(r, ast.Attribute) and r.attr == "aliases" and isinstance(l, ast.List):
                    return False
        raise KeyError("return self.aliases + [self.name]")

    def add_test():
        t = _first_if_compare(sch.func("__add__", "RelationSchema"))
        return [_attr(t.left), _OPS[type(t.ops[0])]]

    def add_keeps():
        fn = sch.func("__add__", "RelationSchema")
        for n in ast.walk(fn):
            if isinstance(n, ast.Call) and isinstance(n.func, ast.Name) and n.func.id == "RelationSchema":
                return sorted(
                    k.arg for k in n.keywords
                    if isinstance(k.value, ast.Attribute) and isinstance(k.value.value, ast.Name)
                    and k.value.value.id == "self" and k.value.attr == k.arg
                )
        raise KeyError("RelationSchema(...) in __add__")

    def add_copies():
        """Does the sum's column list start as a *copy* of the left operand's list (True) or as that very list (False)?
        Looks at the first assignment whose value mentions `self.columns` and whose target ends up as the sum's
        columns; anything else (conditional expressions, helper calls) is an unknown shape -> degraded."""
        fn = sch.func("__add__", "RelationSchema")

        def is_self_columns(v):
            return isinstance(v, ast.Attribute) and v.attr == "columns" and isinstance(v.value, ast.Name) and v.value.id == "self"

        def verdict(v):
            if is_self_columns(v):
                return False  # the very list object
            if isinstance(v, ast.Subscript) and isinstance(v.slice, ast.Slice) and v.slice.lower is None and v.slice.upper is None \
                    and v.slice.step is None and is_self_columns(v.value):
                return True
            if isinstance(v, ast.Call) and isinstance(v.func, ast.Name) and v.func.id in ("list", "copy") and len(v.args) == 1 \
                    and is_self_columns(v.args[0]):
                return True
            if isinstance(v, ast.Call) and isinstance(v.func, ast.Attribute) and v.func.attr == "copy" and not v.args and is_self_columns(v.func.value):
                return True
            if isinstance(v, ast.Call) and isinstance(v.func, ast.Attribute) and v.func.attr == "copy" and len(v.args) == 1 \
                    and is_self_columns(v.args[0]):
                return True
            if isinstance(v, ast.List) and len(v.elts) == 1 and isinstance(v.elts[0], ast.Starred) and is_self_columns(v.elts[0].value):
                return True
            if isinstance(v, ast.ListComp) and len(v.generators) == 1 and is_self_columns(v.generators[0].iter) and not v.generators[0].ifs \
                    and isinstance(v.elt, ast.Name) and isinstance(v.generators[0].target, ast.Name) and v.elt.id == v.generators[0].target.id:
                return True
            if isinstance(v, ast.BinOp) and isinstance(v.op, ast.Add) and is_self_columns(v.left):
                return True  # self.columns + extra builds a new list
            return None

        for n in fn.body:
            for m in ast.walk(n):
                cands = []
                if isinstance(m, ast.Assign) and len(m.targets) == 1:
                    cands.append(m.value)
                if isinstance(m, ast.Call) and isinstance(m.func, ast.Name) and m.func.id == "RelationSchema":
                    cands += [k.value for k in m.keywords if k.arg == "columns"] + list(m.args[2:3])
                for v in cands:
                    if any(is_self_columns(x) for x in ast.walk(v)) and not (
                            isinstance(v, (ast.ListComp, ast.SetComp)) and not isinstance(v.elt, ast.Name)):
                        r = verdict(v)
                        if r is None:
                            raise KeyError("how the sum's list derives from self.columns: " + ast.unparse(v)[:40])
                        return r
        raise KeyError("self.columns[:]")

    def pop_test():
        t = _first_if_compare(sch.func("pop_column", "RelationSchema"))
        return [_attr(t.left), _OPS[type(t.ops[0])]]

    def find_tests():
        fn = sch.func("find_column", "RelationSchema")
        tests = []
        for n in ast.walk(fn):
            if isinstance(n, ast.If) and isinstance(n.test, ast.Compare) and len(n.test.ops) == 1:
                left = n.test.left
                lowered = isinstance(left, ast.Call) and isinstance(left.func, ast.Attribute) and left.func.attr in ("lower", "casefold")
                tests.append((n.lineno, [left.func.attr if lowered else "exact", _OPS[type(n.test.ops[0])]]))
        tests.sort()
        if len(tests) != 2:
            raise KeyError("two membership tests")
        return [t[1] for t in tests]

    def column_dispatch():
        fn = sch.func("column", "RelationSchema")
        for n in ast.walk(fn):
            if isinstance(n, ast.If) and isinstance(n.test, ast.Call) and isinstance(n.test.func, ast.Name) \
                    and n.test.func.id == "isinstance" and isinstance(n.test.args[1], ast.Name):
                return n.test.args[1].id
        raise KeyError("isinstance(i, int)")

    def width():
        fn = tools.func("random_string")
        d = fn.args.defaults
        if len(d) != 1:
            raise KeyError("default width")
        return ast.literal_eval(d[0])

    an = o.item("schema.all_names.aliases_first", all_names_order, True)
    at = o.item("schema.add.test", add_test, ["identity", "not in"])
    ak = o.item("schema.add.keeps", add_keeps, ["aliases", "name"])
    ac = o.item("schema.add.copies_left_columns", add_copies, True)
    pt = o.item("schema.pop.test", pop_test, ["name", "=="])
    ft = o.item("schema.find.tests", find_tests, [["lower", "in"], ["exact", "in"]])
    cd = o.item("schema.column.index_type", column_dispatch, "int")
    w = o.item("tools.random_string.width", width, 16)

    text = HEADER + "namespace Gen.SchemaOps\n"
    text += "/-- `all_names` returns `self.aliases + [self.name]` (true) or `[self.name] + self.aliases` (false). -/\n"
    text += "def aliasesFirst : Bool := %s\n" % ("true" if an else "false")
    text += "/-- the test guarding `new_columns.append` in `__add__`: (attribute of the right-hand column, operator) -/\n"
    text += "def addTest : String × String := (%s, %s)\n" % (lean_str(at[0]), lean_str(at[1]))
    text += "/-- attributes `__add__` passes on from `self` unchanged -/\n"
    text += "def addKeeps : List String := %s\n" % lean_list(ak, lean_str)
    text += "/-- `__add__` starts from a copy (`self.columns[:]`) of the left column list -/\n"
    text += "def addCopies : Bool := %s\n" % ("true" if ac else "false")
    text += "/-- the test of `pop_column`: (attribute of the column, operator) -/\n"
    text += "def popTest : String × String := (%s, %s)\n" % (lean_str(pt[0]), lean_str(pt[1]))
    text += "/-- the two membership tests of `find_column` (case-insensitive first): (normalisation of the key, operator) -/\n"
    text += "def findTests : List (String × String) := %s\n" % lean_list(ft, lambda p: "(%s, %s)" % (lean_str(p[0]), lean_str(p[1])))
    text += "/-- the class `column(i)` tests its argument against before indexing -/\n"
    text += "def columnIndexType : String := %s\n" % lean_str(cd)
    text += "/-- default width of `random_string` (the column identity) -/\n"
    text += "def identityWidth : Nat := %d\n" % w
    text += "end Gen.SchemaOps\n"
    o.files["SchemaOps.lean"] = text
