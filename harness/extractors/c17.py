"""C17: the shape of the schema operations in orso/schema.py and the identity width in orso/tools.py.

These are the comparison operators, attributes and orderings the model was written from; the
theorem `C17.source_shape` states them, so a change of any of them makes a proof stop checking
(in addition to the correspondence finding the first input on which behaviour differs).
"""
import ast

from ..extract import HEADER, Src, lean_list, lean_str

_OPS = {ast.In: "in", ast.NotIn: "not in", ast.Eq: "==", ast.NotEq: "!=", ast.Is: "is", ast.IsNot: "is not",
        ast.Lt: "<", ast.LtE: "<=", ast.Gt: ">", ast.GtE: ">="}


def _attr(node):
    """`x.attr` -> 'attr'; `x.attr.lower()` -> 'attr.lower()'; a bare name -> the name."""
    if isinstance(node, ast.Call) and isinstance(node.func, ast.Attribute) and not node.args:
        return _attr(node.func.value) + "." + node.func.attr + "()"
    if isinstance(node, ast.Attribute):
        return node.attr
    if isinstance(node, ast.Name):
        return node.id
    raise KeyError(ast.dump(node)[:40])


def _first_if_compare(fn):
    for n in ast.walk(fn):
        if isinstance(n, ast.If) and isinstance(n.test, ast.Compare) and len(n.test.ops) == 1:
            return n.test
    raise KeyError("if <compare>")


def generate(o):
    sch = Src("orso/schema.py")
    tools = Src("orso/tools.py")

    def all_names_order():
        fn = sch.func("all_names", "FlatColumn")
        for n in ast.walk(fn):
            if isinstance(n, ast.Return) and isinstance(n.value, ast.BinOp) and isinstance(n.value.op, ast.Add):
                l, r = n.value.left, n.value.right
                if isinstance(l, ast.Attribute) and l.attr == "aliases" and isinstance(r, ast.List):
                    return True
                if isinstance(r, ast.Attribute) and r.attr == "aliases" and isinstance(l, ast.List):
                    return False
        raise KeyError("return self.aliases + [self.name]")

    def add_test():
        t = _first_if_compare(sch.func("__add__", "RelationSchema"))
        return [_attr(t.left), _OPS[type(t.ops[0])]]

    def add_keeps():
        fn = sch.func("__add__", "RelationSchema")
        for n in ast.walk(fn):
            if isinstance(n, ast.Call) and isinstance(n.func, ast.Name) and n.func.id == "RelationSchema":
                return sorted(
                    k.arg for k in n.keywords
                    if isinstance(k.value, ast.Attribute) and isinstance(k.value.value, ast.Name)
                    and k.value.value.id == "self" and k.value.attr == k.arg
                )
        raise KeyError("RelationSchema(...) in __add__")

    def add_copies():
        """Does the sum's column list start as a *copy* of the left operand's list (True) or as that very list (False)?
        Looks at the first assignment whose value mentions `self.columns` and whose target ends up as the sum's
        columns; anything else (conditional expressions, helper calls) is an unknown shape -> degraded."""
        fn = sch.func("__add__", "RelationSchema")

        def is_self_columns(v):
            return isinstance(v, ast.Attribute) and v.attr == "columns" and isinstance(v.value, ast.Name) and v.value.id == "self"

        def verdict(v):
            if is_self_columns(v):
                return False  # the very list object
            if isinstance(v, ast.Subscript) and isinstance(v.slice, ast.Slice) and v.slice.lower is None and v.slice.upper is None \
                    and v.slice.step is None and is_self_columns(v.value):
                return True
            if isinstance(v, ast.Call) and isinstance(v.func, ast.Name) and v.func.id in ("list", "copy") and len(v.args) == 1 \
                    and is_self_columns(v.args[0]):
                return True
            if isinstance(v, ast.Call) and isinstance(v.func, ast.Attribute) and v.func.attr == "copy" and not v.args and is_self_columns(v.func.value):
                return True
            if isinstance(v, ast.Call) and isinstance(v.func, ast.Attribute) and v.func.attr == "copy" and len(v.args) == 1 \
                    and is_self_columns(v.args[0]):
                return True
            if isinstance(v, ast.List) and len(v.elts) == 1 and isinstance(v.elts[0], ast.Starred) and is_self_columns(v.elts[0].value):
                return True
            if isinstance(v, ast.ListComp) and len(v.generators) == 1 and is_self_columns(v.generators[0].iter) and not v.generators[0].ifs \
                    and isinstance(v.elt, ast.Name) and isinstance(v.generators[0].target, ast.Name) and v.elt.id == v.generators[0].target.id:
                return True
            if isinstance(v, ast.BinOp) and isinstance(v.op, ast.Add) and is_self_columns(v.left):
                return True  # self.columns + extra builds a new list
            return None

        for n in fn.body:
            for m in ast.walk(n):
                cands = []
                if isinstance(m, ast.Assign) and len(m.targets) == 1:
                    cands.append(m.value)
                if isinstance(m, ast.Call) and isinstance(m.func, ast.Name) and m.func.id == "RelationSchema":
                    cands += [k.value for k in m.keywords if k.arg == "columns"] + list(m.args[2:3])
                for v in cands:
                    if any(is_self_columns(x) for x in ast.walk(v)) and not (
                            isinstance(v, (ast.ListComp, ast.SetComp)) and not isinstance(v.elt, ast.Name)):
                        r = verdict(v)
                        if r is None:
                            raise KeyError("how the sum's list derives from self.columns: " + ast.unparse(v)[:40])
                        return r
        raise KeyError("self.columns[:]")

    def pop_test():
        t = _first_if_compare(sch.func("pop_column", "RelationSchema"))
        return [_attr(t.left), _OPS[type(t.ops[0])]]

    def find_tests():
        fn = sch.func("find_column", "RelationSchema")
        tests = []
        for n in ast.walk(fn):
            if isinstance(n, ast.If) and isinstance(n.test, ast.Compare) and len(n.test.ops) == 1:
                left = n.test.left
                lowered = isinstance(left, ast.Call) and isinstance(left.func, ast.Attribute) and left.func.attr in ("lower", "casefold")
                tests.append((n.lineno, [left.func.attr if lowered else "exact", _OPS[type(n.test.ops[0])]]))
        tests.sort()
        if len(tests) != 2:
            raise KeyError("two membership tests")
        return [t[1] for t in tests]

    def column_dispatch():
        fn = sch.func("column", "RelationSchema")
        for n in ast.walk(fn):
            if isinstance(n, ast.If) and isinstance(n.test, ast.Call) and isinstance(n.test.func, ast.Name) \
                    and n.test.func.id == "isinstance" and isinstance(n.test.args[1], ast.Name):
                return n.test.args[1].id
        raise KeyError("isinstance(i, int)")


    def _is_self_attr(v, attr):
        return isinstance(v, ast.Attribute) and v.attr == attr and isinstance(v.value, ast.Name) and v.value.id == "self"

    def all_names_memo():
        """Does `FlatColumn.all_names` keep its result on the column, and how is what it kept revalidated?
        None: nothing is kept (no store to `self`, no caching decorator).  Otherwise [the name is compared, how the
        aliases are compared]: 'object' (`cached is self.aliases`, or `==` against a stored *reference* to the list: an
        edit in place changes both sides alike), 'copy' (a copy of the content -- tuple(...), list(...), [:] -- compared by
        value), 'unchecked'.  A shape that is not recognised raises (-> degraded, pinned None)."""
        fn = sch.func("all_names", "FlatColumn")
        for d in fn.decorator_list:
            nm = d.attr if isinstance(d, ast.Attribute) else d.id if isinstance(d, ast.Name) else \
                (d.func.attr if isinstance(d.func, ast.Attribute) else getattr(d.func, "id", "")) if isinstance(d, ast.Call) else ""
            if nm in ("cached_property", "lru_cache", "cache"):
                return [False, "unchecked"]
            if nm != "property":
                raise KeyError("decorator " + nm)
        stores = []  # (key, value)
        for n in ast.walk(fn):
            if isinstance(n, ast.Assign) and len(n.targets) == 1:
                t = n.targets[0]
                if isinstance(t, ast.Attribute) and isinstance(t.value, ast.Name) and t.value.id == "self":
                    stores.append((t.attr, n.value))
                elif isinstance(t, ast.Subscript) and _is_self_attr(t.value, "__dict__") and isinstance(t.slice, ast.Constant):
                    stores.append((t.slice.value, n.value))
            elif isinstance(n, ast.Call):
                f = n.func
                if isinstance(f, ast.Name) and f.id == "setattr" and len(n.args) == 3 and isinstance(n.args[0], ast.Name) and n.args[0].id == "self" \
                        and isinstance(n.args[1], ast.Constant):
                    stores.append((n.args[1].value, n.args[2]))
                elif isinstance(f, ast.Attribute) and f.attr == "__setattr__" and len(n.args) == 3 and isinstance(n.args[1], ast.Constant):
                    stores.append((n.args[1].value, n.args[2]))
                elif isinstance(f, ast.Attribute) and f.attr in ("setdefault", "update") and _is_self_attr(f.value, "__dict__"):
                    raise KeyError("self.__dict__.%s" % f.attr)
        if not stores:
            if any(_is_self_attr(n, "__dict__") for n in ast.walk(fn)):
                raise KeyError("self.__dict__ used, nothing stored")
            return None
        if len({k for k, _ in stores}) != 1:
            raise KeyError("several things kept on the column")
        key, val = stores[0]
        if any(ast.dump(v) != ast.dump(val) for _, v in stores):
            raise KeyError("kept in several shapes")
        # where the kept thing is read back: <var> = self.__dict__.get(key) / getattr(self, key, None) / self.<key>
        var = None
        for n in ast.walk(fn):
            if isinstance(n, ast.Assign) and len(n.targets) == 1 and isinstance(n.targets[0], ast.Name):
                v = n.value
                if (isinstance(v, ast.Call) and isinstance(v.func, ast.Attribute) and v.func.attr == "get" and _is_self_attr(v.func.value, "__dict__")
                        and v.args and isinstance(v.args[0], ast.Constant) and v.args[0].value == key) \
                        or (isinstance(v, ast.Call) and isinstance(v.func, ast.Name) and v.func.id == "getattr" and len(v.args) >= 2
                            and isinstance(v.args[1], ast.Constant) and v.args[1].value == key) \
                        or _is_self_attr(v, key):
                    var = n.targets[0].id
        if var is None:
            raise KeyError("where the kept value is read back")

        def copy_of_aliases(v):
            if isinstance(v, ast.IfExp):
                return copy_of_aliases(v.body) or copy_of_aliases(v.orelse)
            if isinstance(v, ast.Call) and isinstance(v.func, ast.Name) and v.func.id in ("tuple", "list") and len(v.args) == 1 \
                    and _is_self_attr(v.args[0], "aliases"):
                return True
            if isinstance(v, ast.Subscript) and isinstance(v.slice, ast.Slice) and _is_self_attr(v.value, "aliases"):
                return True
            if isinstance(v, ast.Call) and isinstance(v.func, ast.Attribute) and v.func.attr == "copy" and _is_self_attr(v.func.value, "aliases"):
                return True
            return False

        if not isinstance(val, ast.Tuple):
            # only the combined list is kept: nothing it could be revalidated against
            tests = [n for n in ast.walk(fn) if isinstance(n, ast.Compare) and any(isinstance(x, ast.Name) and x.id == var for x in ast.walk(n))
                     and not (len(n.ops) == 1 and isinstance(n.ops[0], (ast.Is, ast.IsNot)) and isinstance(n.comparators[0], ast.Constant))]
            if tests:
                raise KeyError("a kept value that is not a tuple is compared with something")
            return [False, "unchecked"]
        slot = {}
        for pos, e in enumerate(val.elts):
            if _is_self_attr(e, "name"):
                slot[pos] = "name"
            elif _is_self_attr(e, "aliases"):
                slot[pos] = "aliases-ref"
            elif copy_of_aliases(e):
                slot[pos] = "aliases-copy"
            else:
                slot[pos] = "other"
        checks_name, alias_key = False, "unchecked"
        for n in ast.walk(fn):
            if not (isinstance(n, ast.Compare) and len(n.ops) == 1):
                continue
            l, r = n.left, n.comparators[0]
            for a, b in ((l, r), (r, l)):
                if isinstance(a, ast.Subscript) and isinstance(a.value, ast.Name) and a.value.id == var and isinstance(a.slice, ast.Constant):
                    what = slot.get(a.slice.value)
                    if what == "name" and _is_self_attr(b, "name") and isinstance(n.ops[0], ast.Eq):
                        checks_name = True
                    elif what == "aliases-ref" and _is_self_attr(b, "aliases") and isinstance(n.ops[0], (ast.Is, ast.Eq)):
                        alias_key = "object"
                    elif what == "aliases-copy" and isinstance(n.ops[0], ast.Eq) and (_is_self_attr(b, "aliases") or copy_of_aliases(b)):
                        alias_key = "copy"
                    else:
                        raise KeyError("how the kept %s is compared: %s" % (what, ast.unparse(n)[:40]))
        # any other comparison that involves the kept value (beyond `is None`) is something this reading does not understand
        for n in ast.walk(fn):
            if isinstance(n, ast.Compare) and any(isinstance(x, ast.Name) and x.id == var for x in ast.walk(n)):
                if len(n.ops) == 1 and isinstance(n.ops[0], (ast.Is, ast.IsNot)) and isinstance(n.comparators[0], ast.Constant) \
                        and n.comparators[0].value is None and isinstance(n.left, ast.Name):
                    continue
                sides = [n.left] + list(n.comparators)
                if len(n.ops) == 1 and any(isinstance(a, ast.Subscript) and isinstance(a.value, ast.Name) and a.value.id == var
                                           and isinstance(a.slice, ast.Constant) and slot.get(a.slice.value) in ("name", "aliases-ref", "aliases-copy")
                                           for a in sides):
                    continue
                raise KeyError("a comparison of the kept value: " + ast.unparse(n)[:40])
        return [checks_name, alias_key]

    def sum_methods():
        """which of the sum's special methods RelationSchema defines (def or assignment in the class body)"""
        for n in sch.tree.body:
            if isinstance(n, ast.ClassDef) and n.name == "RelationSchema":
                found = []
                for b in n.body:
                    names = [b.name] if isinstance(b, (ast.FunctionDef, ast.AsyncFunctionDef)) else \
                        [t.id for t in b.targets if isinstance(t, ast.Name)] if isinstance(b, ast.Assign) else []
                    found += [x for x in names if x in ("__add__", "__radd__", "__iadd__")]
                return sorted(set(found))
        raise KeyError("class RelationSchema")

    def augmented_in_place():
        """`a += b`: without `__iadd__` Python evaluates `a = a.__add__(b)` (False).  With one: False when it only hands
        over to the plain sum (`__iadd__ = __add__`, `return self + other`, `return self.__add__(other)`), True when it
        returns `self` or writes to `self.columns`; any other shape raises (-> degraded, pinned False)."""
        for n in sch.tree.body:
            if isinstance(n, ast.ClassDef) and n.name == "RelationSchema":
                for b in n.body:
                    if isinstance(b, ast.Assign) and any(isinstance(t, ast.Name) and t.id == "__iadd__" for t in b.targets):
                        if isinstance(b.value, ast.Name) and b.value.id == "__add__":
                            return False
                        raise KeyError("__iadd__ = " + ast.unparse(b.value)[:30])
                    if isinstance(b, ast.FunctionDef) and b.name == "__iadd__":
                        me = b.args.args[0].arg
                        for m in ast.walk(b):
                            if isinstance(m, ast.Return) and isinstance(m.value, ast.Name) and m.value.id == me:
                                return True
                            if isinstance(m, ast.Call) and isinstance(m.func, ast.Attribute) and m.func.attr in ("append", "extend", "insert", "remove", "pop", "clear", "sort", "reverse") \
                                    and isinstance(m.func.value, ast.Attribute) and m.func.value.attr == "columns" and isinstance(m.func.value.value, ast.Name) and m.func.value.value.id == me:
                                return True
                            if isinstance(m, (ast.Assign, ast.AugAssign)):
                                for t in (m.targets if isinstance(m, ast.Assign) else [m.target]):
                                    base = t.value if isinstance(t, ast.Subscript) else t
                                    if isinstance(base, ast.Attribute) and base.attr == "columns" and isinstance(base.value, ast.Name) and base.value.id == me:
                                        return True
                        body = [x for x in b.body if not (isinstance(x, ast.Expr) and isinstance(x.value, ast.Constant))]
                        if len(body) == 1 and isinstance(body[0], ast.Return):
                            v = body[0].value
                            if isinstance(v, ast.BinOp) and isinstance(v.op, ast.Add) and isinstance(v.left, ast.Name) and v.left.id == me:
                                return False
                            if isinstance(v, ast.Call) and isinstance(v.func, ast.Attribute) and v.func.attr == "__add__":
                                return False
                        raise KeyError("body of __iadd__")
                return False
        raise KeyError("class RelationSchema")

    def width():
        fn = tools.func("random_string")
        d = fn.args.defaults
        if len(d) != 1:
            raise KeyError("default width")
        return ast.literal_eval(d[0])

    an = o.item("schema.all_names.aliases_first", all_names_order, True)
    at = o.item("schema.add.test", add_test, ["identity", "not in"])
    ak = o.item("schema.add.keeps", add_keeps, ["aliases", "name"])
    ac = o.item("schema.add.copies_left_columns", add_copies, True)
    pt = o.item("schema.pop.test", pop_test, ["name", "=="])
    ft = o.item("schema.find.tests", find_tests, [["lower", "in"], ["exact", "in"]])
    cd = o.item("schema.column.index_type", column_dispatch, "int")
    w = o.item("tools.random_string.width", width, 16)
    memo = o.item("schema.all_names.memo", all_names_memo, None)
    sm = o.item("schema.sum.methods", sum_methods, ["__add__"])
    aug = o.item("schema.sum.augmented_in_place", augmented_in_place, False)

    text = HEADER + "namespace Gen.SchemaOps\n"
    text += "/-- `all_names` returns `self.aliases + [self.name]` (true) or `[self.name] + self.aliases` (false). -/\n"
    text += "def aliasesFirst : Bool := %s\n" % ("true" if an else "false")
    text += "/-- the test guarding `new_columns.append` in `__add__`: (attribute of the right-hand column, operator) -/\n"
    text += "def addTest : String × String := (%s, %s)\n" % (lean_str(at[0]), lean_str(at[1]))
    text += "/-- attributes `__add__` passes on from `self` unchanged -/\n"
    text += "def addKeeps : List String := %s\n" % lean_list(ak, lean_str)
    text += "/-- `__add__` starts from a copy (`self.columns[:]`) of the left column list -/\n"
    text += "def addCopies : Bool := %s\n" % ("true" if ac else "false")
    text += "/-- the test of `pop_column`: (attribute of the column, operator) -/\n"
    text += "def popTest : String × String := (%s, %s)\n" % (lean_str(pt[0]), lean_str(pt[1]))
    text += "/-- the two membership tests of `find_column` (case-insensitive first): (normalisation of the key, operator) -/\n"
    text += "def findTests : List (String × String) := %s\n" % lean_list(ft, lambda p: "(%s, %s)" % (lean_str(p[0]), lean_str(p[1])))
    text += "/-- the class `column(i)` tests its argument against before indexing -/\n"
    text += "def columnIndexType : String := %s\n" % lean_str(cd)
    text += "/-- default width of `random_string` (the column identity) -/\n"
    text += "def identityWidth : Nat := %d\n" % w
    text += "/-- `FlatColumn.all_names` keeps its result on the column: `none` = no; `some (the name is compared, how the aliases are\n"
    text += "compared: \"object\" = the list object, \"copy\" = a copy of its content by value, \"unchecked\")` -/\n"
    text += "def allNamesMemo : Option (Bool × String) := %s\n" % ("none" if memo is None else "some (%s, %s)" % ("true" if memo[0] else "false", lean_str(memo[1])))
    text += "/-- which of `__add__`, `__radd__`, `__iadd__` the class RelationSchema defines -/\n"
    text += "def sumMethods : List String := %s\n" % lean_list(sm, lean_str)
    text += "/-- `a += b` changes the object `a` (an `__iadd__` that returns `self` / writes to `self.columns`) instead of binding the name to `a + b` -/\n"
    text += "def augmentedInPlace : Bool := %s\n" % ("true" if aug else "false")
    text += "end Gen.SchemaOps\n"
    o.files["SchemaOps.lean"] = text
