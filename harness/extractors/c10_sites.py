"""C10, call-site layer: the Python call sites of the compiled helpers, lifted from the sources.

1. `scan_call_sites(repo)` parses every `orso/**/*.py` and lists each call of a compiled helper with
   its enclosing function and argument expressions (so a *new* call site is noticed by the check:
   it is reported as `undriven_call_sites` in the evidence, never as a violation).
2. `generate(o)` writes `Generated/CallSitesExpr.lean` (namespace `Gen.CallSites`):
   * `DataFrame.collect`: every `if <test>: limit = <constant>` statement before the kernel call, in
     source order (`limitGuard<i>` / `limitValue<i>` / `limitSteps`), the expression passed as the
     kernel's limit (`kernelLimit`) and the row taken for a single column (`singleIndex`);
   * `ascii_table`: the limit the display passes to `t.collect(i, …)` inside the argument of
     `calculate_data_width` (`measureLimit`, `none` = no limit), and **which column is handed to the
     helper for each printed column** (`measureRefs`): the iteration the measuring call sits in
     (`for i in range(t.columncount)`, `for name in t.column_names`, `enumerate(…)`; single-assignment
     locals inlined) and the first argument of `t.collect(…)` as a function of the loop variable --
     `Sum.inl` = a position, `Sum.inr` = a name (which `DataFrame.collect` resolves to the *first*
     column of that name).
   `Model/CallSites.lean` is assembled from these, `Props/C10.lean` proves "public collect = the
   plain-Python definition for every limit" and "data widths are measured over every printed row"
   about them.  A shape the extractor does not recognise degrades to the pinned text.
"""
import ast
import os

from ..extract import HEADER, Src
from ..pyexpr import Untranslatable, find_function, to_lean

KERNELS = ("collect_cython", "extract_dict_columns", "calculate_data_width", "from_bytes_cython")

PINNED_STEPS = [["(limitIsNone ∨ (limit < 0))", -1], ["(limit ≥ n)", -1]]


# ----------------------------------------------------------------------------- 1. the call-site table


def scan_call_sites(repo):
    """[{file, function, kernel, args:[text…], line}] for every call of a compiled helper in orso/**/*.py."""
    out = []
    root = os.path.join(repo, "orso")
    for d, _, files in sorted(os.walk(root)):
        for f in sorted(files):
            if not f.endswith(".py"):
                continue
            path = os.path.join(d, f)
            rel = os.path.relpath(path, repo)
            try:
                tree = ast.parse(open(path, encoding="utf-8").read())
            except (OSError, SyntaxError):
                continue

            def visit(node, qual):
                for ch in ast.iter_child_nodes(node):
                    q = qual
                    if isinstance(ch, (ast.FunctionDef, ast.AsyncFunctionDef, ast.ClassDef)):
                        q = (qual + "." if qual else "") + ch.name
                    if isinstance(ch, ast.Call):
                        fn = ch.func
                        name = fn.id if isinstance(fn, ast.Name) else fn.attr if isinstance(fn, ast.Attribute) else None
                        if name in KERNELS:
                            out.append({"file": rel, "function": qual or "<module>", "kernel": name, "line": ch.lineno,
                                        "args": [ast.unparse(a) for a in ch.args] + ["%s=%s" % (k.arg, ast.unparse(k.value)) for k in ch.keywords]})
                    visit(ch, q)

            visit(tree, "")
    return out


def scan_collect_callers(repo):
    """[{file, line, function, column}] for every `<frame>.collect(…)` in orso/**/*.py: the second-level call sites of
    `collect_cython` (informational: which of them ask for a column by *name*, which `DataFrame.collect` resolves to the
    first column so named)."""
    out = []
    root = os.path.join(repo, "orso")
    for d, _, files in sorted(os.walk(root)):
        for f in sorted(files):
            if not f.endswith(".py"):
                continue
            path = os.path.join(d, f)
            rel = os.path.relpath(path, repo)
            try:
                tree = ast.parse(open(path, encoding="utf-8").read())
            except (OSError, SyntaxError):
                continue

            def visit(node, qual):
                for ch in ast.iter_child_nodes(node):
                    q = qual
                    if isinstance(ch, (ast.FunctionDef, ast.AsyncFunctionDef, ast.ClassDef)):
                        q = (qual + "." if qual else "") + ch.name
                    if isinstance(ch, ast.Call) and isinstance(ch.func, ast.Attribute) and ch.func.attr == "collect" and (ch.args or ch.keywords):
                        a = ch.args[0] if ch.args else next((k.value for k in ch.keywords if k.arg == "columns"), None)
                        if a is not None:
                            out.append({"file": rel, "line": ch.lineno, "function": qual or "<module>",
                                        "receiver": ast.unparse(ch.func.value)[:30], "column": ast.unparse(a)[:40]})
                    visit(ch, q)

            visit(tree, "")
    return out


# ----------------------------------------------------------------------------- 2. expressions


def _int_const(node):
    if isinstance(node, ast.Constant) and isinstance(node.value, int) and not isinstance(node.value, bool):
        return node.value
    if isinstance(node, ast.UnaryOp) and isinstance(node.op, ast.USub):
        return -_int_const(node.operand)
    raise KeyError("not an integer constant: " + ast.unparse(node))


def _assigns_to(node, name):
    """All statements under `node` that (re)bind `name`."""
    hits = []
    for n in ast.walk(node):
        if isinstance(n, ast.Assign) and any(ast.unparse(t) == name for t in n.targets):
            hits.append(n)
        elif isinstance(n, (ast.AugAssign, ast.AnnAssign)) and ast.unparse(n.target) == name:
            hits.append(n)
        elif isinstance(n, ast.NamedExpr) and ast.unparse(n.target) == name:
            hits.append(n)
    return hits


def _boolean(node, none_tests):
    """Is the expression boolean-typed all the way down (comparisons joined by and/or/not)?  An integer used
    for its truth value (`not limit`, `limit or …`) has no Lean counterpart here: the extractor degrades."""
    if ast.unparse(node) in none_tests:
        return True
    if isinstance(node, ast.Compare):
        return all(type(op) in (ast.Lt, ast.LtE, ast.Gt, ast.GtE, ast.Eq, ast.NotEq) for op in node.ops) \
            and all(_arith(x) or ast.unparse(x) in ("len(self._rows)", "self.rowcount", "len(self)") for x in [node.left] + node.comparators)
    if isinstance(node, ast.BoolOp):
        return all(_boolean(v, none_tests) for v in node.values)
    if isinstance(node, ast.UnaryOp) and isinstance(node.op, ast.Not):
        return _boolean(node.operand, none_tests)
    return False


def _arith(node):
    """Is the expression integer-typed all the way down?"""
    if isinstance(node, ast.Name):
        return node.id == "limit"
    if isinstance(node, ast.Constant):
        return isinstance(node.value, int) and not isinstance(node.value, bool)
    if isinstance(node, ast.BinOp):
        return type(node.op) in (ast.Add, ast.Sub, ast.Mult) and _arith(node.left) and _arith(node.right)
    if isinstance(node, ast.UnaryOp):
        return isinstance(node.op, ast.USub) and _arith(node.operand)
    if isinstance(node, ast.IfExp):
        return _boolean(node.test, ()) and _arith(node.body) and _arith(node.orelse)
    if isinstance(node, ast.Call) and isinstance(node.func, ast.Name) and node.func.id in ("min", "max") and len(node.args) == 2 and not node.keywords:
        return all(_arith(a) for a in node.args)
    return False


def _arith_lean(node, env):
    if not _arith(node):
        raise KeyError("not an integer expression over `limit`: " + ast.unparse(node))
    return to_lean(node, env)


def collect_limit_steps(fn):
    """The `if <test>: limit = <const>` statements of DataFrame.collect before the kernel call."""
    env = {"limit is None": "limitIsNone", "None is limit": "limitIsNone", "limit": "limit",
           "len(self._rows)": "n", "self.rowcount": "n", "len(self)": "n"}
    steps, recognised = [], []
    call_line = None
    for n in ast.walk(fn):
        if isinstance(n, ast.Call) and isinstance(n.func, ast.Name) and n.func.id == "collect_cython":
            call_line = n.lineno
    if call_line is None:
        raise KeyError("collect_cython is not called in DataFrame.collect")
    for st in fn.body:
        if isinstance(st, ast.If) and not st.orelse and len(st.body) == 1 and isinstance(st.body[0], ast.Assign) \
                and [ast.unparse(t) for t in st.body[0].targets] == ["limit"] and st.lineno < call_line:
            if not _boolean(st.test, ("limit is None", "None is limit")):
                raise KeyError("the test at line %d uses a non-boolean value for its truth" % st.lineno)
            steps.append([to_lean(st.test, env), _int_const(st.body[0].value)])
            recognised.append(st.body[0])
    others = [a for a in _assigns_to(fn, "limit") if a not in recognised]
    if others:
        raise KeyError("limit is also rebound at line %d in a shape the extractor does not know" % others[0].lineno)
    return steps


def kernel_limit(fn):
    for n in ast.walk(fn):
        if isinstance(n, ast.Call) and isinstance(n.func, ast.Name) and n.func.id == "collect_cython":
            if ast.unparse(n.args[0]) != "self._rows":
                raise KeyError("first kernel argument is not self._rows")
            kw = {k.arg: k.value for k in n.keywords}
            if len(n.args) >= 3:
                return _arith_lean(n.args[2], {"limit": "limit"})
            if "limit" in kw:
                return _arith_lean(kw["limit"], {"limit": "limit"})
            return "(-1)"  # the kernel's default
    raise KeyError("collect_cython call")


INT32_DTYPES = ("numpy.int32", "np.int32", "'int32'", "'i4'", "'<i4'", "'=i4'")


def index_conversion(fn):
    """How the resolved positions become the kernel's int32 buffer (second argument of the kernel call):
    True  = a conversion that rejects a value outside int32 (`numpy.array(x, dtype=numpy.int32)` raises OverflowError),
    False = one that wraps it around (`numpy.asarray(x).astype(numpy.int32)`)."""
    for n in ast.walk(fn):
        if isinstance(n, ast.Call) and isinstance(n.func, ast.Name) and n.func.id == "collect_cython":
            kw = {k.arg: k.value for k in n.keywords}
            a = n.args[1] if len(n.args) >= 2 else kw.get("columns")
            if a is None:
                raise KeyError("the kernel call has no column buffer")
            a = _inline(a, [fn]) if isinstance(a, ast.Name) else a

            def ctor(c):
                return (isinstance(c, ast.Call) and ast.unparse(c.func) in ("numpy.array", "np.array", "numpy.asarray", "np.asarray")
                        and len(c.args) >= 1 and isinstance(c.args[0], ast.Name))

            if ctor(a):
                dt = {k.arg: k.value for k in a.keywords}.get("dtype") or (a.args[1] if len(a.args) > 1 else None)
                if dt is not None and ast.unparse(dt) in INT32_DTYPES and len(a.args) <= 2:
                    return True
                raise KeyError("column buffer built without dtype=int32")
            if isinstance(a, ast.Call) and isinstance(a.func, ast.Attribute) and a.func.attr == "astype" and ctor(a.func.value) \
                    and len(a.args) == 1 and ast.unparse(a.args[0]) in INT32_DTYPES:
                inner = a.func.value
                dt = {k.arg: k.value for k in inner.keywords}.get("dtype") or (inner.args[1] if len(inner.args) > 1 else None)
                if dt is not None and ast.unparse(dt) in INT32_DTYPES:
                    return True   # already int32 (checked) before the no-op astype
                return False
            raise KeyError("column buffer of an unknown shape: " + ast.unparse(a)[:50])
    raise KeyError("collect_cython call")


PINNED_ROW_PRE = "  let data := if ((!data.isDict) && true) then (PyDict.copy data) else data\n  data"
PINNED_ROW_GUARD = "data.isDict"
PINNED_ROW_PREPARE = "  let data := if (!data.exact) then (PyDict.copy data) else data\n  data"

_DICT_TYPE_IS = ("type(data) is dict", "type(data) == dict", "data.__class__ is dict", "dict is type(data)")
_DICT_TYPE_ISNOT = ("type(data) is not dict", "type(data) != dict", "data.__class__ is not dict")


def _key_test(t, kvar):
    """A test on one key of the dictionary -> Lean Bool over `key : PyKey`."""
    text = ast.unparse(t)
    if text in ("type(%s) is str" % kvar, "type(%s) == str" % kvar, "%s.__class__ is str" % kvar, "str is type(%s)" % kvar):
        return "key.exact"
    if text in ("type(%s) is not str" % kvar, "type(%s) != str" % kvar, "%s.__class__ is not str" % kvar):
        return "(!key.exact)"
    if text == "isinstance(%s, str)" % kvar:
        return "key.isStr"
    if isinstance(t, ast.UnaryOp) and isinstance(t.op, ast.Not):
        return "(!%s)" % _key_test(t.operand, kvar)
    if isinstance(t, ast.BoolOp):
        return "(" + (" && " if isinstance(t.op, ast.And) else " || ").join(_key_test(v, kvar) for v in t.values) + ")"
    raise KeyError("test on a key of an unknown shape: " + text[:50])


def _key_expr(e, kvar):
    """The key expression of a dictionary comprehension -> Lean `PyKey` over `key`."""
    if isinstance(e, ast.Name) and e.id == kvar:
        return "key"
    if isinstance(e, ast.Call) and isinstance(e.func, ast.Name) and e.func.id == "str" and len(e.args) == 1 and not e.keywords \
            and isinstance(e.args[0], ast.Name) and e.args[0].id == kvar:
        return "(pyStr key)"
    if isinstance(e, ast.IfExp):
        return "(if %s then %s else %s)" % (_key_test(e.test, kvar), _key_expr(e.body, kvar), _key_expr(e.orelse, kvar))
    raise KeyError("key expression of an unknown shape: " + ast.unparse(e)[:50])


def _dict_expr(e):
    """An expression that builds the dictionary handed on -> Lean `PyDict α` over `data`."""
    if isinstance(e, ast.Name) and e.id == "data":
        return "data"
    if isinstance(e, ast.Call) and isinstance(e.func, ast.Name) and e.func.id == "dict" and len(e.args) == 1 and not e.keywords:
        return "(PyDict.copy %s)" % _dict_expr(e.args[0])
    if isinstance(e, ast.Call) and isinstance(e.func, ast.Attribute) and e.func.attr == "copy" and not e.args and not e.keywords:
        return "(PyDict.copy %s)" % _dict_expr(e.func.value)
    if isinstance(e, ast.Dict) and len(e.keys) == 1 and e.keys[0] is None:
        return "(PyDict.copy %s)" % _dict_expr(e.values[0])
    if isinstance(e, ast.DictComp) and len(e.generators) == 1 and not e.generators[0].ifs and not e.generators[0].is_async:
        g = e.generators[0]
        it, tg = g.iter, g.target
        if isinstance(it, ast.Call) and isinstance(it.func, ast.Attribute) and it.func.attr == "items" and not it.args and not it.keywords \
                and isinstance(tg, ast.Tuple) and len(tg.elts) == 2 and all(isinstance(x, ast.Name) for x in tg.elts) \
                and tg.elts[0].id != tg.elts[1].id:
            kvar, vvar = tg.elts[0].id, tg.elts[1].id
            if not (isinstance(e.value, ast.Name) and e.value.id == vvar):
                raise KeyError("the comprehension changes the values: " + ast.unparse(e.value)[:40])
            if _key_expr(e.key, kvar) == "key":
                return "(PyDict.copy %s)" % _dict_expr(it.func.value)   # the same keys with the same values: a copy
            return "(PyDict.comp (fun key value => %s) (fun key value => value) %s)" % (_key_expr(e.key, kvar), _dict_expr(it.func.value))
        if isinstance(tg, ast.Name) and isinstance(it, ast.Name) and it.id == "data" \
                and ast.unparse(e.value) == "data[%s]" % tg.id:
            if _key_expr(e.key, tg.id) == "key":
                return "(PyDict.copy data)"
            return "(PyDict.comp (fun key value => %s) (fun key value => value) data)" % _key_expr(e.key, tg.id)
    raise KeyError("dictionary expression of an unknown shape: " + ast.unparse(e)[:50])


def _dict_test(t):
    """A test on the dictionary -> Lean Bool over `data`."""
    text = ast.unparse(t)
    if text in _DICT_TYPE_IS:
        return "data.exact"
    if text in _DICT_TYPE_ISNOT:
        return "(!data.exact)"
    if isinstance(t, ast.Call) and isinstance(t.func, ast.Name) and t.func.id == "isinstance" and len(t.args) == 2 and not t.keywords \
            and ast.unparse(t.args[0]) == "data":
        # the argument is a dictionary or another Mapping (never a tuple or a list: those are `RowArg.tuple`)
        kinds = t.args[1].elts if isinstance(t.args[1], ast.Tuple) else [t.args[1]]
        parts = []
        for k in kinds:
            name = ast.unparse(k)
            if name == "dict":
                parts.append("data.isDict")
            elif name in ("tuple", "list"):
                pass
            elif name in ("Mapping", "collections.abc.Mapping", "abc.Mapping", "typing.Mapping"):
                parts.append("true")
            elif name in ("MutableMapping", "collections.abc.MutableMapping", "abc.MutableMapping", "typing.MutableMapping"):
                parts.append("data.mutable")
            else:
                raise KeyError("isinstance against an unknown type: " + name[:30])
        return "false" if not parts else parts[0] if len(parts) == 1 else "(" + " || ".join(parts) + ")"
    if isinstance(t, ast.Name) and t.id == "data":
        return "(!data.items.isEmpty)"
    if isinstance(t, ast.UnaryOp) and isinstance(t.op, ast.Not):
        return "(!%s)" % _dict_test(t.operand)
    if isinstance(t, ast.BoolOp):
        return "(" + (" && " if isinstance(t.op, ast.And) else " || ").join(_dict_test(v) for v in t.values) + ")"
    if isinstance(t, ast.Call) and isinstance(t.func, ast.Name) and t.func.id in ("all", "any") and len(t.args) == 1 and not t.keywords \
            and isinstance(t.args[0], (ast.GeneratorExp, ast.ListComp)) and len(t.args[0].generators) == 1:
        g = t.args[0].generators[0]
        if not g.ifs and not g.is_async and isinstance(g.target, ast.Name) and ast.unparse(g.iter) in ("data", "data.keys()", "list(data)"):
            return "(PyDict.%s (fun key => %s) data)" % ("allKeys" if t.func.id == "all" else "anyKeys", _key_test(t.args[0].elt, g.target.id))
    raise KeyError("test on the dictionary of an unknown shape: " + text[:50])


def row_glue(tree):
    """`Row.__new__`: the `if <data is a dictionary>:` in front of `extract_dict_columns` -- (the guard as a Lean Bool over
    `data : PyDict α`, the statements between the guard and the helper call as the body of a Lean function
    `PyDict α → PyDict α`: what the helper is handed as a function of what the caller gave)."""
    fn = find_function(tree, "__new__", "Row")
    guards = [n for n in fn.body if isinstance(n, ast.If) and any(
        isinstance(c, ast.Call) and isinstance(c.func, ast.Name) and c.func.id == "extract_dict_columns" for c in ast.walk(n))]
    if len(guards) != 1 or guards[0].orelse:
        raise KeyError("if <data is a dictionary>: … extract_dict_columns(…)")
    g = guards[0]
    others = [c for c in ast.walk(fn) if isinstance(c, ast.Call) and isinstance(c.func, ast.Name) and c.func.id == "extract_dict_columns"]
    if len(others) != 1 or [ast.unparse(a) for a in others[0].args] != ["data", "cls._fields"] or others[0].keywords:
        raise KeyError("extract_dict_columns(data, cls._fields), once")
    pre = []
    for st in fn.body:
        if st is g:
            break
        pre.append(st)
    guard = _dict_test(g.test)
    last = g.body[-1]
    if not (isinstance(last, ast.Assign) and ast.unparse(last) == "data = extract_dict_columns(data, cls._fields)"):
        raise KeyError("the branch does not end with data = extract_dict_columns(data, cls._fields)")
    return [guard, _glue_body(g.body[:-1], "statement before the helper call"), _glue_body(pre, "a statement in front of the dictionary test")]


def _glue_body(stmts, what):
    """Statements that rebind `data` (`data = <expr>`, `if <test>: data = <expr> [else: data = <expr>]`) as the body of a
    Lean function `PyDict α → PyDict α`."""
    lines = []
    for st in stmts:
        if isinstance(st, ast.Expr) and isinstance(st.value, ast.Constant):
            continue
        if isinstance(st, ast.Assign) and [ast.unparse(t) for t in st.targets] == ["data"]:
            lines.append("let data := %s" % _dict_expr(st.value))
        elif isinstance(st, ast.If) and len(st.body) == 1 and isinstance(st.body[0], ast.Assign) and [ast.unparse(t) for t in st.body[0].targets] == ["data"] \
                and (not st.orelse or (len(st.orelse) == 1 and isinstance(st.orelse[0], ast.Assign) and [ast.unparse(t) for t in st.orelse[0].targets] == ["data"])):
            other = _dict_expr(st.orelse[0].value) if st.orelse else "data"
            lines.append("let data := if %s then %s else %s" % (_dict_test(st.test), _dict_expr(st.body[0].value), other))
        else:
            raise KeyError(what + ": " + ast.unparse(st)[:40])
    return "".join("  %s\n" % l for l in lines) + "  data"


PINNED_APPEND_PREPARE = "  let data := if (data.mutable && (!data.exact)) then (PyDict.copy data) else data\n  data"


def append_glue(tree):
    """`DataFrame.append`: what the row factory is handed as a function of the dictionary the caller gave -- every statement
    that rebinds `entry` before `self._row_factory(entry)` (the second layer of preparation in front of the helper)."""
    import copy

    fn = find_function(tree, "append", "DataFrame")
    calls = [c for c in ast.walk(fn) if isinstance(c, ast.Call) and ast.unparse(c.func) == "self._row_factory"]
    if len(calls) != 1 or [ast.unparse(a) for a in calls[0].args] != ["entry"] or calls[0].keywords:
        raise KeyError("self._row_factory(entry), once")

    class R(ast.NodeTransformer):
        def visit_Name(self, n):
            if n.id == "data":
                raise KeyError("a local called data")
            return ast.copy_location(ast.Name(id="data", ctx=n.ctx), n) if n.id == "entry" else n

    lines = []
    binds = _assigns_to(fn, "entry")
    seen = []
    for st in fn.body:
        if any(c is calls[0] for c in ast.walk(st)):
            break
        inside = [b for b in binds if any(b is x for x in ast.walk(st))]
        if not inside:
            continue   # does not rebind the entry (materialising the rows, validating against the schema)
        seen += inside
        st = R().visit(copy.deepcopy(st))
        if isinstance(st, ast.Assign) and [ast.unparse(t) for t in st.targets] == ["data"]:
            lines.append("let data := %s" % _dict_expr(st.value))
        elif isinstance(st, ast.If) and len(st.body) == 1 and isinstance(st.body[0], ast.Assign) and [ast.unparse(t) for t in st.body[0].targets] == ["data"] \
                and not st.orelse:
            lines.append("let data := if %s then %s else data" % (_dict_test(st.test), _dict_expr(st.body[0].value)))
        else:
            raise KeyError("statement that rebinds the entry: " + ast.unparse(st)[:40])
    if len(seen) != len(binds):
        raise KeyError("the entry is rebound after (or around) the row factory call")
    return "".join("  %s\n" % l for l in lines) + "  data"


def single_index(fn):
    for n in ast.walk(fn):
        if isinstance(n, ast.If) and ast.unparse(n.test) == "single" and len(n.body) == 1 and isinstance(n.body[0], ast.Return):
            v = n.body[0].value
            if isinstance(v, ast.Subscript) and ast.unparse(v.value) == "collected":
                i = _int_const(v.slice)
                if i < 0:
                    raise KeyError("negative index")
                return i
    raise KeyError("if single: return collected[k]")


def _inline(node, scopes, depth=0):
    """Replace a local name bound exactly once (in the enclosing functions) by its value."""
    if isinstance(node, ast.Name) and node.id != "limit" and depth < 3:
        binds = [a for s in scopes for a in _assigns_to(s, node.id)]
        if len(binds) == 1 and isinstance(binds[0], ast.Assign):
            return _inline(binds[0].value, scopes, depth + 1)
        raise KeyError("cannot resolve the name %s" % node.id)
    return node


def opt_to_lean(node, scopes, env):
    node = _inline(node, scopes)
    if isinstance(node, ast.Constant) and node.value is None:
        return "none"
    if isinstance(node, ast.IfExp):
        if not _boolean(node.test, ()):
            raise KeyError("non-boolean test")
        return "(if %s then %s else %s)" % (to_lean(node.test, env), opt_to_lean(node.body, scopes, env), opt_to_lean(node.orelse, scopes, env))
    return "(some %s)" % _arith_lean(node, env)


def display_measure_limit(tree):
    at = find_function(tree, "ascii_table")
    scopes = [at]
    for n in ast.walk(at):
        if isinstance(n, ast.Call) and isinstance(n.func, ast.Name) and n.func.id == "calculate_data_width":
            if len(n.args) != 1 or n.keywords:
                raise KeyError("calculate_data_width takes one argument")
            c = n.args[0]
            if not (isinstance(c, ast.Call) and isinstance(c.func, ast.Attribute) and c.func.attr == "collect"
                    and ast.unparse(c.func.value) == "t"):
                raise KeyError("the measured column is not t.collect(...)")
            kw = {k.arg: k.value for k in c.keywords}
            args = list(c.args)
            if "columns" in kw:
                args.insert(0, kw.pop("columns"))
            if not args or not isinstance(args[0], ast.Name):
                raise KeyError("the measured column index is not the loop variable")
            lim = args[1] if len(args) > 1 else kw.get("limit")
            if lim is None:
                return "none"
            return opt_to_lean(lim, scopes, {"limit": "limit"})
    raise KeyError("calculate_data_width is not called in ascii_table")


NAMES_TEXTS = ("t.column_names", "list(t.column_names)", "tuple(t.column_names)")
COUNT_TEXTS = ("t.columncount", "len(t.column_names)", "len(list(t.column_names))", "len(tuple(t.column_names))")
PINNED_REFS = "((List.range names.length).map (fun i => (Sum.inl (Int.ofNat i) : Sum Int String)))"


def _inline_all(node, scopes):
    """`_inline` applied to every name of an expression (names that cannot be resolved stay)."""
    import copy

    class T(ast.NodeTransformer):
        def visit_Name(self, n):
            if isinstance(n.ctx, ast.Load) and n.id not in ("t", "limit"):
                try:
                    return copy.deepcopy(_inline(n, scopes))
                except KeyError:
                    return n
            return n

    return T().visit(copy.deepcopy(node))


def _measure_call(at):
    calls = [n for n in ast.walk(at) if isinstance(n, ast.Call) and isinstance(n.func, ast.Name) and n.func.id == "calculate_data_width"]
    if len(calls) != 1:
        raise KeyError("calculate_data_width is called %d times in ascii_table" % len(calls))
    n = calls[0]
    if len(n.args) != 1 or n.keywords:
        raise KeyError("calculate_data_width takes one argument")
    c = n.args[0]
    if not (isinstance(c, ast.Call) and isinstance(c.func, ast.Attribute) and c.func.attr == "collect" and ast.unparse(c.func.value) == "t"):
        raise KeyError("the measured column is not t.collect(...)")
    kw = {k.arg: k.value for k in c.keywords}
    args = list(c.args)
    if "columns" in kw:
        args.insert(0, kw.pop("columns"))
    if not args:
        raise KeyError("t.collect() without a column")
    return n, args[0]


def display_measure_refs(tree):
    """Lean term (in `names : List String`) for the list of column references measured, one per printed column."""
    at = find_function(tree, "ascii_table")
    scopes = [at]
    call, ref = _measure_call(at)
    parents = {}
    for p in ast.walk(at):
        for ch in ast.iter_child_nodes(p):
            parents[ch] = p
    node, target, it = call, None, None
    while node in parents:
        child, node = node, parents[node]
        if isinstance(node, (ast.ListComp, ast.GeneratorExp)):
            g = node.generators
            if len(g) != 1 or g[0].ifs or g[0].is_async or node.elt is not child:
                raise KeyError("the measuring comprehension is filtered / nested / wraps the call")
            target, it = g[0].target, g[0].iter
            break
        if isinstance(node, ast.For):
            if node.orelse or any(isinstance(x, (ast.Break, ast.Continue, ast.Return)) for b in node.body for x in ast.walk(b)):
                raise KeyError("the measuring loop can skip columns")
            st = child
            while st in parents and parents[st] is not node:
                st = parents[st]
            if not (st in node.body and isinstance(st, ast.Expr) and isinstance(st.value, ast.Call) and ast.unparse(st.value.func).endswith(".append")
                    and st.value.args and st.value.args[0] is call):
                raise KeyError("the measuring loop does not append one width per turn")
            target, it = node.target, node.iter
            break
        if isinstance(node, (ast.FunctionDef, ast.Lambda, ast.SetComp, ast.DictComp, ast.While, ast.If, ast.IfExp)):
            raise KeyError("the measuring call is not directly inside a loop over the columns")
    if it is None:
        raise KeyError("the measuring call is not inside a loop")
    it = _inline_all(it, scopes)
    text = ast.unparse(it)
    idx = name = None
    if isinstance(it, ast.Call) and isinstance(it.func, ast.Name) and it.func.id == "range" and len(it.args) == 1 and not it.keywords \
            and ast.unparse(it.args[0]) in COUNT_TEXTS and isinstance(target, ast.Name):
        idx = target.id
        shape = "((List.range names.length).map (fun %s => (%%s : Sum Int String)))" % idx
    elif text in NAMES_TEXTS and isinstance(target, ast.Name):
        name = target.id
        shape = "(names.map (fun %s => (%%s : Sum Int String)))" % name
    elif isinstance(it, ast.Call) and isinstance(it.func, ast.Name) and it.func.id == "enumerate" and len(it.args) == 1 and not it.keywords \
            and ast.unparse(it.args[0]) in NAMES_TEXTS and isinstance(target, ast.Tuple) and len(target.elts) == 2 \
            and all(isinstance(e, ast.Name) for e in target.elts):
        idx, name = target.elts[0].id, target.elts[1].id
        shape = "(names.zipIdx.map (fun ((%s, %s) : String × Nat) => (%%s : Sum Int String)))" % (name, idx)
    else:
        raise KeyError("the measuring loop does not range over the columns in a known way: " + text[:40])
    for v in (idx, name):
        if v is not None and (not (v.isidentifier() and v.isascii()) or v in ("names", "fun", "Sum", "List", "Int", "String", "Nat")):
            raise KeyError("loop variable %r" % v)
    ref = _inline_all(ref, scopes) if not isinstance(ref, ast.Name) else ref
    if isinstance(ref, ast.Name) and ref.id == idx:
        r = "Sum.inl (Int.ofNat %s)" % idx
    elif isinstance(ref, ast.Name) and ref.id == name:
        r = "Sum.inr %s" % name
    elif idx is not None and isinstance(ref, ast.Subscript) and ast.unparse(ref.value) in NAMES_TEXTS and isinstance(ref.slice, ast.Name) \
            and ref.slice.id == idx:
        r = "Sum.inr (names.getD %s \"\")" % idx
    else:
        raise KeyError("the measured column is not the loop variable: " + ast.unparse(ref)[:40])
    return shape % r


STORING_METHODS = ("append", "add", "insert", "setdefault", "update", "extend", "__setitem__", "put", "set", "appendleft")


def collect_result_flow(fn):
    """Where the value `DataFrame.collect` returns comes from, and whether the function keeps it.

    Returns `[kept, fresh]`:
    * `fresh`: every `return` gives a local name `R` (or `R[k]`), and every binding of `R` in the function is a call of the
      compiled helper (`collect_cython(…)`, or a `.copy()` of one) -- the array is made by this very call;
    * `kept`: some statement stores a value that mentions `R` (or a local computed from `R`) somewhere that outlives the
      call: an attribute or an item of anything (`self._x = …`, `cache[key] = …`), a name declared `global` / `nonlocal`,
      a storing method of some container (`….append(R)`, `….setdefault(key, R)`), `setattr(…)`.
    A shape this does not recognise raises (the item degrades to the pinned value, it never alarms)."""
    returned = set()
    for n in ast.walk(fn):
        if isinstance(n, ast.Return) and n.value is not None:
            v = n.value
            if isinstance(v, ast.Subscript):
                v = v.value
            if not isinstance(v, ast.Name):
                raise KeyError("a return that is neither a local name nor an item of one: " + ast.unparse(n.value)[:60])
            returned.add(v.id)
    if not returned:
        raise KeyError("no return of a local name")

    def is_kernel_call(e):
        if isinstance(e, ast.Call) and isinstance(e.func, ast.Attribute) and e.func.attr == "copy" and not e.args:
            e = e.func.value
        return isinstance(e, ast.Call) and ((isinstance(e.func, ast.Name) and e.func.id == "collect_cython")
                                            or (isinstance(e.func, ast.Attribute) and e.func.attr == "collect_cython"))

    def names_in(e):
        return {x.id for x in ast.walk(e) if isinstance(x, ast.Name)}

    def targets_of(n):
        if isinstance(n, ast.Assign):
            return n.targets, n.value
        if isinstance(n, (ast.AnnAssign, ast.AugAssign)) and n.value is not None:
            return [n.target], n.value
        if isinstance(n, ast.NamedExpr):
            return [n.target], n.value
        return [], None

    bindings = {r: [] for r in returned}
    outer = set()
    for n in ast.walk(fn):
        if isinstance(n, (ast.Global, ast.Nonlocal)):
            outer.update(n.names)
        tg, val = targets_of(n)
        for t in tg:
            for x in ast.walk(t):
                if isinstance(x, ast.Name) and x.id in bindings and isinstance(x.ctx, ast.Store):
                    bindings[x.id].append(val if isinstance(t, ast.Name) else None)
        if isinstance(n, (ast.For, ast.With, ast.comprehension)):
            for x in ast.walk(n.target if not isinstance(n, ast.With) else ast.Tuple(elts=[i.optional_vars for i in n.items if i.optional_vars], ctx=ast.Store())):
                if isinstance(x, ast.Name) and x.id in bindings:
                    bindings[x.id].append(None)
    if any(not b for b in bindings.values()):
        raise KeyError("a returned name with no binding in the function (a parameter?)")
    fresh = all(v is not None and is_kernel_call(v) for b in bindings.values() for v in b)
    # locals computed from the result (one pass per nesting level is enough for the shapes in question)
    tainted = set(returned)
    for _ in range(3):
        for n in ast.walk(fn):
            tg, val = targets_of(n)
            if val is not None and names_in(val) & tainted:
                for t in tg:
                    if isinstance(t, ast.Name):
                        tainted.add(t.id)
                    elif isinstance(t, (ast.Tuple, ast.List)):
                        tainted.update(x.id for x in t.elts if isinstance(x, ast.Name))
    kept = False
    for n in ast.walk(fn):
        tg, val = targets_of(n)
        if val is not None and names_in(val) & tainted:
            for t in tg:
                if isinstance(t, (ast.Attribute, ast.Subscript)) and not (isinstance(t, ast.Subscript) and isinstance(t.value, ast.Name) and t.value.id in tainted - returned):
                    kept = True
                if isinstance(t, ast.Name) and t.id in outer:
                    kept = True
        if isinstance(n, ast.Call):
            args = list(n.args) + [k.value for k in n.keywords]
            if any(names_in(a) & tainted for a in args):
                if isinstance(n.func, ast.Attribute) and n.func.attr in STORING_METHODS and not (isinstance(n.func.value, ast.Name) and n.func.value.id in tainted - returned):
                    kept = True
                if isinstance(n.func, ast.Name) and n.func.id == "setattr":
                    kept = True
    return [kept, fresh]


def getitem_direct(tree):
    """`DataFrame.__getitem__` is one statement, `return self.collect(…)`: it adds no state of its own to a request."""
    fn = find_function(tree, "__getitem__", "DataFrame")
    body = [b for b in fn.body if not (isinstance(b, ast.Expr) and isinstance(b.value, ast.Constant))]
    if len(body) == 1 and isinstance(body[0], ast.Return) and isinstance(body[0].value, ast.Call):
        f = body[0].value.func
        return isinstance(f, ast.Attribute) and f.attr == "collect" and isinstance(f.value, ast.Name) and f.value.id == "self"
    return False


def generate(o):
    df = Src("orso/dataframe.py")
    disp = Src("orso/display.py")

    def fn_collect():
        return find_function(df.tree, "collect", "DataFrame")

    steps = o.item("site.collect.limit_steps", lambda: collect_limit_steps(fn_collect()), PINNED_STEPS)
    kl = o.item("site.collect.kernel_limit", lambda: kernel_limit(fn_collect()), "limit")
    si = o.item("site.collect.single_index", lambda: single_index(fn_collect()), 0)
    ic = o.item("site.collect.index_conversion_checked", lambda: index_conversion(fn_collect()), True)
    rf = o.item("site.collect.result_flow", lambda: collect_result_flow(fn_collect()), [False, True])
    gd = o.item("site.getitem.direct", lambda: getitem_direct(df.tree), True)
    rg = o.item("site.row.glue", lambda: row_glue(Src("orso/row.py").tree), [PINNED_ROW_GUARD, PINNED_ROW_PREPARE, PINNED_ROW_PRE])
    ag = o.item("site.append.glue", lambda: append_glue(df.tree), PINNED_APPEND_PREPARE)
    ml = o.item("site.display.measure_limit", lambda: display_measure_limit(disp.tree), "none")
    mr = o.item("site.display.measure_refs", lambda: display_measure_refs(disp.tree), PINNED_REFS)
    o.item("site.table", lambda: [[s["file"], s["function"], s["kernel"], s["args"]] for s in scan_call_sites(df.path[: -len("orso/dataframe.py")])], [])

    t = HEADER + "set_option linter.unusedVariables false\nnamespace Gen.CallSites\n"
    t += "/-! DataFrame.collect: the `if <test>: limit = <constant>` statements before the kernel call, in source order.\n"
    t += "`limitIsNone` stands for `limit is None`, `n` for `len(self._rows)`. -/\n"
    for i, (g, v) in enumerate(steps):
        t += "@[simp] def limitGuard%d (limitIsNone : Prop) (limit n : Int) : Prop := %s\n" % (i, g)
        t += "instance (limitIsNone : Prop) [Decidable limitIsNone] (limit n : Int) : Decidable (limitGuard%d limitIsNone limit n) := by\n  unfold limitGuard%d; infer_instance\n" % (i, i)
        t += "@[simp] def limitValue%d : Int := %s\n" % (i, "(%d)" % v if v < 0 else "%d" % v)
    t += "@[simp] def limitSteps : List ((Bool → Int → Int → Bool) × Int) :=\n  [%s]\n" % ",\n   ".join(
        "(fun b limit n => decide (limitGuard%d (b = true) limit n), limitValue%d)" % (i, i) for i in range(len(steps)))
    t += "/-- DataFrame.collect: the expression passed as the kernel's `limit` argument -/\n"
    t += "@[simp] def kernelLimit (limit : Int) : Int := %s\n" % kl
    t += "/-- DataFrame.collect: `return collected[k]` for a single column -/\n"
    t += "@[simp] def singleIndex : Nat := %d\n" % si
    t += "/-- DataFrame.collect: the resolved positions become the kernel's int32 buffer by a conversion that *rejects* a value\n"
    t += "outside int32 (`numpy.array(…, dtype=numpy.int32)`: OverflowError) -- `false`: by one that wraps it around (`.astype`) -/\n"
    t += "def indexConvChecked : Bool := %s\n" % ("true" if ic else "false")
    t += "/-- DataFrame.collect: some statement stores the array it returns (or something computed from it) where it outlives the\n"
    t += "call -- an attribute or item of anything, a global, a container's storing method (`collect_result_flow`) -/\n"
    t += "def resultKept : Bool := %s\n" % ("true" if rf[0] else "false")
    t += "/-- DataFrame.collect: the name it returns is bound by calls of the compiled helper only (the array is made by this call) -/\n"
    t += "def resultFresh : Bool := %s\n" % ("true" if rf[1] else "false")
    t += "/-- DataFrame.__getitem__ is the single statement `return self.collect(…)` -/\n"
    t += "def getitemDirect : Bool := %s\n" % ("true" if gd else "false")
    t += "/-- ascii_table: the limit passed to `t.collect(i, …)` inside `calculate_data_width(…)`; `none` = not limited -/\n"
    t += "@[simp] def measureLimit (limit : Int) : Option Int := %s\n" % ml
    t += "/-- ascii_table: the column handed to `t.collect(…)` for each printed column, in order: `Sum.inl` = a position,\n"
    t += "`Sum.inr` = a name (resolved by `DataFrame.collect` to the first column of that name) -/\n"
    t += "def measureRefs (names : List String) : List (Sum Int String) := %s\n" % mr
    t += "end Gen.CallSites\n"
    o.files["CallSitesExpr.lean"] = t

    # Row.__new__: the glue in front of extract_dict_columns, statement by statement
    from .. import core, pystmt

    header = HEADER + "import OrsoVerif.Model.PyDict\n"
    header += ("/-! `Row.__new__` (orso/row.py): the test in front of `extract_dict_columns` and the statements between that test and the\n"
               "helper call, translated statement by statement (harness/extractors/c10_sites.py `row_glue`): what the helper is handed\n"
               "as a function of the dictionary the caller gave. -/\n")
    header += "set_option linter.unusedVariables false\nopen PyDictM\nnamespace Gen.DictGlue\nvariable {α : Type}\n\n"

    def defs(guard, prepare, pre):
        d = "/-- Row.__new__: the statements in front of the dictionary test (a Mapping that is no dict is copied into one) -/\n"
        d += "def rowPre (data : PyDict α) : PyDict α :=\n%s\n" % pre
        d += "/-- Row.__new__: the test that sends `data` to the helper (`isinstance(data, dict)`) -/\n"
        d += "def rowGuard (data : PyDict α) : Bool := %s\n" % guard
        d += "/-- Row.__new__: the statements between that test and `extract_dict_columns(data, cls._fields)` -/\n"
        d += "def rowPrepare (data : PyDict α) : PyDict α :=\n%s\n" % prepare
        return d

    def adefs(prepare):
        d = "/-- DataFrame.append: the statements that rebind `entry` before `self._row_factory(entry)` (a dictionary entry) -/\n"
        d += "def appendPrepare (data : PyDict α) : PyDict α :=\n%s\n" % prepare
        return d

    pinned = {"glue": defs(PINNED_ROW_GUARD, PINNED_ROW_PREPARE, PINNED_ROW_PRE), "append": adefs(PINNED_APPEND_PREPARE)}
    try:
        text, bad = pystmt.compile_checked(header, [("glue", defs(rg[0], rg[1], rg[2])), ("append", adefs(ag))], "\nend Gen.DictGlue\n", pinned, core.LEAN, "DictGlue")
    except Exception as e:
        text, bad = header + pinned["glue"] + "\n" + pinned["append"] + "\nend Gen.DictGlue\n", ["glue (%s)" % type(e).__name__]
    for k in bad:
        o.degraded.append("site.row.%s (the translation does not elaborate in Lean; pinned text used)" % k)
    o.files["DictGlue.lean"] = text
