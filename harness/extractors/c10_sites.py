"""C10, call-site layer: the Python call sites of the compiled helpers, lifted from the sources.

1. `scan_call_sites(repo)` parses every `orso/**/*.py` and lists each call of a compiled helper with
   its enclosing function and argument expressions (so a *new* call site is noticed by the check:
   it is reported as `undriven_call_sites` in the evidence, never as a violation).
2. `generate(o)` writes `Generated/CallSitesExpr.lean` (namespace `Gen.CallSites`):
   * `DataFrame.collect`: every `if <test>: limit = <constant>` statement before the kernel call, in
     source order (`limitGuard<i>` / `limitValue<i>` / `limitSteps`), the expression passed as the
     kernel's limit (`kernelLimit`) and the row taken for a single column (`singleIndex`);
   * `ascii_table`: the limit the display passes to `t.collect(i, …)` inside the argument of
     `calculate_data_width` (`measureLimit`, `none` = no limit).
   `Model/CallSites.lean` is assembled from these, `Props/C10.lean` proves "public collect = the
   plain-Python definition for every limit" and "data widths are measured over every printed row"
   about them.  A shape the extractor does not recognise degrades to the pinned text.
"""
import ast
import os

from ..extract import HEADER, Src
from ..pyexpr import Untranslatable, find_function, to_lean

KERNELS = ("collect_cython", "extract_dict_columns", "calculate_data_width", "from_bytes_cython")

PINNED_STEPS = [["(limitIsNone ∨ (limit < 0))", -1], ["(limit ≥ n)", -1]]


# ----------------------------------------------------------------------------- 1. the call-site table


def scan_call_sites(repo):
    """[{file, function, kernel, args:[text…], line}] for every call of a compiled helper in orso/**/*.py."""
    out = []
    root = os.path.join(repo, "orso")
    for d, _, files in sorted(os.walk(root)):
        for f in sorted(files):
            if not f.endswith(".py"):
                continue
            path = os.path.join(d, f)
            rel = os.path.relpath(path, repo)
            try:
                tree = ast.parse(open(path, encoding="utf-8").read())
            except (OSError, SyntaxError):
                continue

            def visit(node, qual):
                for ch in ast.iter_child_nodes(node):
                    q = qual
                    if isinstance(ch, (ast.FunctionDef, ast.AsyncFunctionDef, ast.ClassDef)):
                        q = (qual + "." if qual else "") + ch.name
                    if isinstance(ch, ast.Call):
                        fn = ch.func
                        name = fn.id if isinstance(fn, ast.Name) else fn.attr if isinstance(fn, ast.Attribute) else None
                        if name in KERNELS:
                            out.append({"file": rel, "function": qual or "<module>", "kernel": name, "line": ch.lineno,
                                        "args": [ast.unparse(a) for a in ch.args] + ["%s=%s" % (k.arg, ast.unparse(k.value)) for k in ch.keywords]})
                    visit(ch, q)

            visit(tree, "")
    return out


# ----------------------------------------------------------------------------- 2. expressions


def _int_const(node):
    if isinstance(node, ast.Constant) and isinstance(node.value, int) and not isinstance(node.value, bool):
        return node.value
    if isinstance(node, ast.UnaryOp) and isinstance(node.op, ast.USub):
        return -_int_const(node.operand)
    raise KeyError("not an integer constant: " + ast.unparse(node))


def _assigns_to(node, name):
    """All statements under `node` that (re)bind `name`."""
    hits = []
    for n in ast.walk(node):
        if isinstance(n, ast.Assign) and any(ast.unparse(t) == name for t in n.targets):
            hits.append(n)
        elif isinstance(n, (ast.AugAssign, ast.AnnAssign)) and ast.unparse(n.target) == name:
            hits.append(n)
        elif isinstance(n, ast.NamedExpr) and ast.unparse(n.target) == name:
            hits.append(n)
    return hits


def _boolean(node, none_tests):
    """Is the expression boolean-typed all the way down (comparisons joined by and/or/not)?  An integer used
    for its truth value (`not limit`, `limit or …`) has no Lean counterpart here: the extractor degrades."""
    if ast.unparse(node) in none_tests:
        return True
    if isinstance(node, ast.Compare):
        return all(type(op) in (ast.Lt, ast.LtE, ast.Gt, ast.GtE, ast.Eq, ast.NotEq) for op in node.ops) \
            and all(_arith(x) or ast.unparse(x) in ("len(self._rows)", "self.rowcount", "len(self)") for x in [node.left] + node.comparators)
    if isinstance(node, ast.BoolOp):
        return all(_boolean(v, none_tests) for v in node.values)
    if isinstance(node, ast.UnaryOp) and isinstance(node.op, ast.Not):
        return _boolean(node.operand, none_tests)
    return False


def _arith(node):
    """Is the expression integer-typed all the way down?"""
    if isinstance(node, ast.Name):
        return node.id == "limit"
    if isinstance(node, ast.Constant):
        return isinstance(node.value, int) and not isinstance(node.value, bool)
    if isinstance(node, ast.BinOp):
        return type(node.op) in (ast.Add, ast.Sub, ast.Mult) and _arith(node.left) and _arith(node.right)
    if isinstance(node, ast.UnaryOp):
        return isinstance(node.op, ast.USub) and _arith(node.operand)
    if isinstance(node, ast.IfExp):
        return _boolean(node.test, ()) and _arith(node.body) and _arith(node.orelse)
    if isinstance(node, ast.Call) and isinstance(node.func, ast.Name) and node.func.id in ("min", "max") and len(node.args) == 2 and not node.keywords:
        return all(_arith(a) for a in node.args)
    return False


def _arith_lean(node, env):
    if not _arith(node):
        raise KeyError("not an integer expression over `limit`: " + ast.unparse(node))
    return to_lean(node, env)


def collect_limit_steps(fn):
    """The `if <test>: limit = <const>` statements of DataFrame.collect before the kernel call."""
    env = {"limit is None": "limitIsNone", "None is limit": "limitIsNone", "limit": "limit",
           "len(self._rows)": "n", "self.rowcount": "n", "len(self)": "n"}
    steps, recognised = [], []
    call_line = None
    for n in ast.walk(fn):
        if isinstance(n, ast.Call) and isinstance(n.func, ast.Name) and n.func.id == "collect_cython":
            call_line = n.lineno
    if call_line is None:
        raise KeyError("collect_cython is not called in DataFrame.collect")
    for st in fn.body:
        if isinstance(st, ast.If) and not st.orelse and len(st.body) == 1 and isinstance(st.body[0], ast.Assign) \
                and [ast.unparse(t) for t in st.body[0].targets] == ["limit"] and st.lineno < call_line:
            if not _boolean(st.test, ("limit is None", "None is limit")):
                raise KeyError("the test at line %d uses a non-boolean value for its truth" % st.lineno)
            steps.append([to_lean(st.test, env), _int_const(st.body[0].value)])
            recognised.append(st.body[0])
    others = [a for a in _assigns_to(fn, "limit") if a not in recognised]
    if others:
        raise KeyError("limit is also rebound at line %d in a shape the extractor does not know" % others[0].lineno)
    return steps


def kernel_limit(fn):
    for n in ast.walk(fn):
        if isinstance(n, ast.Call) and isinstance(n.func, ast.Name) and n.func.id == "collect_cython":
            if ast.unparse(n.args[0]) != "self._rows":
                raise KeyError("first kernel argument is not self._rows")
            kw = {k.arg: k.value for k in n.keywords}
            if len(n.args) >= 3:
                return _arith_lean(n.args[2], {"limit": "limit"})
            if "limit" in kw:
                return _arith_lean(kw["limit"], {"limit": "limit"})
            return "(-1)"  # the kernel's default
    raise KeyError("collect_cython call")


def single_index(fn):
    for n in ast.walk(fn):
        if isinstance(n, ast.If) and ast.unparse(n.test) == "single" and len(n.body) == 1 and isinstance(n.body[0], ast.Return):
            v = n.body[0].value
            if isinstance(v, ast.Subscript) and ast.unparse(v.value) == "collected":
                i = _int_const(v.slice)
                if i < 0:
                    raise KeyError("negative index")
                return i
    raise KeyError("if single: return collected[k]")


def _inline(node, scopes, depth=0):
    """Replace a local name bound exactly once (in the enclosing functions) by its value."""
    if isinstance(node, ast.Name) and node.id != "limit" and depth < 3:
        binds = [a for s in scopes for a in _assigns_to(s, node.id)]
        if len(binds) == 1 and isinstance(binds[0], ast.Assign):
            return _inline(binds[0].value, scopes, depth + 1)
        raise KeyError("cannot resolve the name %s" % node.id)
    return node


def opt_to_lean(node, scopes, env):
    node = _inline(node, scopes)
    if isinstance(node, ast.Constant) and node.value is None:
        return "none"
    if isinstance(node, ast.IfExp):
        if not _boolean(node.test, ()):
            raise KeyError("non-boolean test")
        return "(if %s then %s else %s)" % (to_lean(node.test, env), opt_to_lean(node.body, scopes, env), opt_to_lean(node.orelse, scopes, env))
    return "(some %s)" % _arith_lean(node, env)


def display_measure_limit(tree):
    at = find_function(tree, "ascii_table")
    scopes = [at]
    for n in ast.walk(at):
        if isinstance(n, ast.Call) and isinstance(n.func, ast.Name) and n.func.id == "calculate_data_width":
            if len(n.args) != 1 or n.keywords:
                raise KeyError("calculate_data_width takes one argument")
            c = n.args[0]
            if not (isinstance(c, ast.Call) and isinstance(c.func, ast.Attribute) and c.func.attr == "collect"
                    and ast.unparse(c.func.value) == "t"):
                raise KeyError("the measured column is not t.collect(...)")
            kw = {k.arg: k.value for k in c.keywords}
            args = list(c.args)
            if "columns" in kw:
                args.insert(0, kw.pop("columns"))
            if not args or not isinstance(args[0], ast.Name):
                raise KeyError("the measured column index is not the loop variable")
            lim = args[1] if len(args) > 1 else kw.get("limit")
            if lim is None:
                return "none"
            return opt_to_lean(lim, scopes, {"limit": "limit"})
    raise KeyError("calculate_data_width is not called in ascii_table")


def generate(o):
    df = Src("orso/dataframe.py")
    disp = Src("orso/display.py")

    def fn_collect():
        return find_function(df.tree, "collect", "DataFrame")

    steps = o.item("site.collect.limit_steps", lambda: collect_limit_steps(fn_collect()), PINNED_STEPS)
    kl = o.item("site.collect.kernel_limit", lambda: kernel_limit(fn_collect()), "limit")
    si = o.item("site.collect.single_index", lambda: single_index(fn_collect()), 0)
    ml = o.item("site.display.measure_limit", lambda: display_measure_limit(disp.tree), "none")
    o.item("site.table", lambda: [[s["file"], s["function"], s["kernel"], s["args"]] for s in scan_call_sites(df.path[: -len("orso/dataframe.py")])], [])

    t = HEADER + "set_option linter.unusedVariables false\nnamespace Gen.CallSites\n"
    t += "/-! DataFrame.collect: the `if <test>: limit = <constant>` statements before the kernel call, in source order.\n"
    t += "`limitIsNone` stands for `limit is None`, `n` for `len(self._rows)`. -/\n"
    for i, (g, v) in enumerate(steps):
        t += "@[simp] def limitGuard%d (limitIsNone : Prop) (limit n : Int) : Prop := %s\n" % (i, g)
        t += "instance (limitIsNone : Prop) [Decidable limitIsNone] (limit n : Int) : Decidable (limitGuard%d limitIsNone limit n) := by\n  unfold limitGuard%d; infer_instance\n" % (i, i)
        t += "@[simp] def limitValue%d : Int := %s\n" % (i, "(%d)" % v if v < 0 else "%d" % v)
    t += "@[simp] def limitSteps : List ((Bool → Int → Int → Bool) × Int) :=\n  [%s]\n" % ",\n   ".join(
        "(fun b limit n => decide (limitGuard%d (b = true) limit n), limitValue%d)" % (i, i) for i in range(len(steps)))
    t += "/-- DataFrame.collect: the expression passed as the kernel's `limit` argument -/\n"
    t += "@[simp] def kernelLimit (limit : Int) : Int := %s\n" % kl
    t += "/-- DataFrame.collect: `return collected[k]` for a single column -/\n"
    t += "@[simp] def singleIndex : Nat := %d\n" % si
    t += "/-- ascii_table: the limit passed to `t.collect(i, …)` inside `calculate_data_width(…)`; `none` = not limited -/\n"
    t += "@[simp] def measureLimit (limit : Int) : Option Int := %s\n" % ml
    t += "end Gen.CallSites\n"
    o.files["CallSitesExpr.lean"] = t
