"""C06 tables: orso/types.py (_parse_type regexes, OrsoTypes members, the alias chain of
OrsoTypes.from_name, DECIMAL guards, excluded ARRAY element prefixes), orso/schema.py (the
DECIMAL default-scale factor) and orso/dataframe.py (the two type-code f-strings).

Everything is read with `ast` from the working tree; each item degrades to its pinned value when
the construct is not found in the expected shape (a harmless refactor), never failing the run.
"""
import ast
import fractions

from ..extract import HEADER, Src, lean_list, lean_str

PINNED_REGEX = [
    r"ARRAY<([\w\s\[\]\(\)]+)>",
    r"DECIMAL\((\d+),\s*(\d+)\)",
    r"VARCHAR\[(\d+)\]",
    r"BLOB\[(\d+)\]",
]
PINNED_MEMBERS = [[n, n] for n in ["ARRAY", "BLOB", "BOOLEAN", "DATE", "DECIMAL", "DOUBLE", "INTEGER", "INTERVAL",
                                   "STRUCT", "TIMESTAMP", "TIME", "VARCHAR", "NULL", "JSONB"]] + [["_MISSING_TYPE", "0"]]
PINNED_CHAIN = [
    [["eq", ["ARRAY"]], ["ty", "ARRAY", "VARCHAR"]],
    [["member"], ["self"]],
    [["eq", ["LIST"]], ["ty", "ARRAY", None]],
    [["eq", ["NUMERIC"]], ["ty", "DOUBLE", None]],
    [["eq", ["BSON"]], ["ty", "JSONB", None]],
    [["eq", ["STRING"]], ["raise", "ValueError"]],
    [["eq", ["0", "VARIANT", "MISSING"]], ["zero"]],
]
PINNED_ELSE = ["raise", "ValueError"]
PINNED_EXCLUDED = ["ARRAY", "LIST", "NUMERIC", "BSON", "STRING", "DECIMAL"]
PINNED_ELEM_RAISES = ["ValueError", "ValueError"]
PINNED_GUARDS = [
    ["precision", "lt", 0, "ValueError"],
    ["precision", "gt", 38, "ValueError"],
    ["scale", "lt", 0, "ValueError"],
    ["scale", "gt", 38, "ValueError"],
    ["precision", "lt", "scale", "ValueError"],
]
PINNED_DESC = [["DECIMAL", "DECIMAL(", ",", ")"], ["ARRAY", "ARRAY<", ">"]]

CMP = {ast.Lt: "lt", ast.LtE: "le", ast.Gt: "gt", ast.GtE: "ge", ast.Eq: "eq", ast.NotEq: "ne"}


def lean_chars(s):
    def ch(c):
        o = ord(c)
        if c == "'":
            return "'\\''"
        if c == "\\":
            return "'\\\\'"
        if 32 <= o < 127:
            return "'%s'" % c
        return "Char.ofNat %d" % o

    return "[" + ", ".join(ch(c) for c in s) + "]"


def opt_chars(s):
    return "none" if s is None else "(some %s)" % lean_chars(s)


def exc(cls):
    return ".valueError" if cls == "ValueError" else "(.other %s)" % lean_chars(cls)


def _is_name(n, ident):
    return isinstance(n, ast.Name) and n.id == ident


def _raise_class(stmts):
    for s in stmts:
        if isinstance(s, ast.Raise) and s.exc is not None:
            e = s.exc
            if isinstance(e, ast.Call):
                e = e.func
            if isinstance(e, ast.Name):
                return e.id
            if isinstance(e, ast.Attribute):
                return e.attr
            raise KeyError("raise of unknown shape")
    return None


def _orso_attr(v):
    """OrsoTypes.X -> 'X'"""
    if isinstance(v, ast.Attribute) and _is_name(v.value, "OrsoTypes"):
        return v.attr
    raise KeyError("not OrsoTypes.<member>")


def _outcome(stmts):
    cls = _raise_class(stmts)
    if cls is not None:
        return ["raise", cls]
    ty = elem = None
    kind = None
    for s in stmts:
        if isinstance(s, ast.Assign) and len(s.targets) == 1 and isinstance(s.targets[0], ast.Name):
            tgt, v = s.targets[0].id, s.value
            if tgt == "_type":
                if isinstance(v, ast.Constant) and v.value == 0 and not isinstance(v.value, bool):
                    kind = "zero"
                elif isinstance(v, ast.Subscript) and _is_name(v.value, "OrsoTypes"):
                    kind = "self"
                else:
                    kind, ty = "ty", _orso_attr(v)
            elif tgt == "_element_type":
                elem = _orso_attr(v)
    if kind == "ty":
        return ["ty", ty, elem]
    if kind in ("zero", "self") and elem is None:
        return [kind]
    raise KeyError("branch outcome of unknown shape")


def _cond(test):
    def one(c):
        if not (isinstance(c, ast.Compare) and len(c.ops) == 1 and len(c.comparators) == 1):
            raise KeyError("test of unknown shape")
        lhs, op, rhs = c.left, c.ops[0], c.comparators[0]
        if isinstance(op, ast.Eq) and isinstance(lhs, ast.Constant) and isinstance(rhs, ast.Name):
            lhs, rhs = rhs, lhs  # "X" == parsed_types
        if not (isinstance(lhs, ast.Name) and lhs.id in ("parsed_types", "type_name")):
            raise KeyError("test of unknown shape")
        if isinstance(op, ast.In):
            if isinstance(rhs, ast.Attribute) and rhs.attr == "__members__" and _is_name(rhs.value, "OrsoTypes"):
                return ["member"]
            if isinstance(rhs, (ast.Tuple, ast.List, ast.Set)) and all(isinstance(e, ast.Constant) for e in rhs.elts):
                return [e.value for e in rhs.elts]  # parsed_types in ("A", "B")
            raise KeyError("membership test of unknown shape")
        if isinstance(op, ast.Eq) and isinstance(rhs, ast.Constant):
            return [rhs.value]
        raise KeyError("test of unknown shape")

    if isinstance(test, ast.BoolOp) and isinstance(test.op, ast.Or):
        vals = [x for v in test.values for x in one(v)]
    else:
        vals = one(test)
    if vals == ["member"]:
        return ["member"]
    if "member" in vals:
        raise KeyError("mixed test")
    # a comparison of the (text) name with a non-text constant is never true
    return ["eq", [v for v in vals if isinstance(v, str)]]


def _branch_of(fn, head):
    """The body of `elif parsed_types[0] == "<head>":` in from_name."""
    for n in ast.walk(fn):
        if isinstance(n, ast.If) and isinstance(n.test, ast.Compare) and isinstance(n.test.left, ast.Subscript) \
                and _is_name(n.test.left.value, "parsed_types") and len(n.test.comparators) == 1 \
                and isinstance(n.test.comparators[0], ast.Constant) and n.test.comparators[0].value == head:
            return n.body
    raise KeyError("branch " + head)


def generate(o):
    types = Src("orso/types.py")
    schema = Src("orso/schema.py")
    frame = Src("orso/dataframe.py")

    # ---- the four regular expressions of _parse_type, in order
    def regexes():
        fn = types.func("_parse_type")
        found = []
        for n in ast.walk(fn):
            if isinstance(n, ast.Call) and isinstance(n.func, ast.Attribute) and n.func.attr in ("match", "fullmatch", "search") \
                    and _is_name(n.func.value, "re") and n.args and isinstance(n.args[0], ast.Constant):
                found.append((n.lineno, n.col_offset, n.func.attr, n.args[0].value))
        found.sort()
        if not found:
            raise KeyError("re.match calls")
        return [[f[2], f[3]] for f in found]

    rx = o.item("types.regex", regexes, [["match", r] for r in PINNED_REGEX])
    regex_pinned = rx == [["match", r] for r in PINNED_REGEX]
    if not regex_pinned and not any(d.startswith("types.regex") for d in o.degraded):
        o.degraded.append("types.regex (sources differ from the ones the Lean matchers were written for: %r; "
                          "matchers are tied by correspondence only)" % (rx,))

    # ---- OrsoTypes members: (name, str(value))
    def members():
        for n in types.tree.body:
            if isinstance(n, ast.ClassDef) and n.name == "OrsoTypes":
                out = []
                for s in n.body:
                    if isinstance(s, ast.Assign) and len(s.targets) == 1 and isinstance(s.targets[0], ast.Name) \
                            and isinstance(s.value, ast.Constant):
                        out.append([s.targets[0].id, str(s.value.value)])
                if out:
                    return out
        raise KeyError("OrsoTypes")

    mem = o.item("types.members", members, PINNED_MEMBERS)

    # ---- the alias chain of the untyped-parameter branch
    def chain():
        fn = types.func("from_name", "OrsoTypes")
        top = None
        for n in ast.walk(fn):
            if isinstance(n, ast.If) and isinstance(n.test, ast.Call) and _is_name(n.test.func, "isinstance") \
                    and n.test.args and _is_name(n.test.args[0], "parsed_types"):
                top = n
                break
        if top is None or len(top.body) != 1 or not isinstance(top.body[0], ast.If):
            raise KeyError("isinstance(parsed_types, str) chain")
        node = top.body[0]
        branches = []
        while True:
            branches.append([_cond(node.test), _outcome(node.body)])
            if len(node.orelse) == 1 and isinstance(node.orelse[0], ast.If):
                node = node.orelse[0]
                continue
            if not node.orelse:
                raise KeyError("chain without else")
            return [branches, _outcome(node.orelse)]

    ch = o.item("types.bare_chain", chain, [PINNED_CHAIN, PINNED_ELSE])
    branches, else_out = ch

    # ---- ARRAY branch: excluded prefixes and the two raises
    def excluded():
        body = _branch_of(types.func("from_name", "OrsoTypes"), "ARRAY")
        for n in body:
            for c in ast.walk(n):
                if isinstance(c, ast.Call) and isinstance(c.func, ast.Attribute) and c.func.attr == "startswith":
                    v = ast.literal_eval(c.args[0])
                    return [v] if isinstance(v, str) else list(v)
        raise KeyError("startswith")

    excl = o.item("types.array_excluded_prefixes", excluded, PINNED_EXCLUDED)

    def elem_raises():
        body = _branch_of(types.func("from_name", "OrsoTypes"), "ARRAY")
        r1 = r2 = None
        for n in body:
            if isinstance(n, ast.If):
                has_sw = any(isinstance(c, ast.Attribute) and c.attr == "startswith" for c in ast.walk(n.test))
                if has_sw:
                    r1 = _raise_class(n.body)
                elif n.orelse:
                    r2 = _raise_class(n.orelse)
        if r1 is None or r2 is None:
            raise KeyError("ARRAY branch raises")
        return [r1, r2]

    er = o.item("types.array_raises", elem_raises, PINNED_ELEM_RAISES)

    # ---- DECIMAL guards
    def guards():
        body = _branch_of(types.func("from_name", "OrsoTypes"), "DECIMAL")
        names = {"_precision": "precision", "_scale": "scale"}

        def operand(x):
            if isinstance(x, ast.Name) and x.id in names:
                return names[x.id]
            if isinstance(x, ast.Constant) and isinstance(x.value, int) and not isinstance(x.value, bool) and x.value >= 0:
                return x.value
            raise KeyError("guard operand")

        out = []
        for n in body:
            if isinstance(n, ast.If):
                cls = _raise_class(n.body)
                if cls is None or n.orelse:
                    raise KeyError("guard body")
                tests = n.test.values if isinstance(n.test, ast.BoolOp) and isinstance(n.test.op, ast.Or) else [n.test]
                for t in tests:
                    if not (isinstance(t, ast.Compare) and len(t.ops) == 1 and type(t.ops[0]) in CMP):
                        raise KeyError("guard test")
                    out.append([operand(t.left), CMP[type(t.ops[0])], operand(t.comparators[0]), cls])
        if not out:
            raise KeyError("no guards")
        return out

    gd = o.item("types.decimal_guards", guards, PINNED_GUARDS)

    # ---- runtime parameters of the interpreter the implementation runs in
    def max_digits():
        import sys

        return int(sys.get_int_max_str_digits())

    mx = o.item("runtime.int_max_str_digits", max_digits, 4300)

    def ctx_prec():
        import decimal

        return int(decimal.getcontext().prec)

    cp = o.item("runtime.decimal_context_prec", ctx_prec, 28)

    def scale_factor():
        fn = schema.func("__init__", "FlatColumn")
        for n in ast.walk(fn):
            if isinstance(n, ast.BinOp) and isinstance(n.op, ast.Mult) and isinstance(n.left, ast.Constant) \
                    and isinstance(n.left.value, float) and isinstance(n.right, ast.Attribute) and n.right.attr == "precision":
                f = fractions.Fraction(n.left.value)
                return [f.numerator, f.denominator]
        raise KeyError("default scale factor")

    sf = o.item("schema.decimal_default_scale_factor", scale_factor, [3, 4])

    # ---- the two type-code f-strings of DataFrame.description
    def desc_parts():
        fn = frame.func("description", "DataFrame")
        got = {}
        for n in ast.walk(fn):
            if isinstance(n, ast.If) and isinstance(n.test, (ast.Compare, ast.BoolOp)):
                key = None
                for c in ast.walk(n.test):
                    if isinstance(c, ast.Compare) and isinstance(c.ops[0], ast.Eq) and isinstance(c.comparators[0], ast.Constant) \
                            and isinstance(c.comparators[0].value, str) and isinstance(c.left, ast.Attribute) and c.left.attr == "value":
                        key = c.comparators[0].value
                if key is None:
                    continue
                for s in n.body:
                    if isinstance(s, ast.Assign) and _is_name(s.targets[0], "data_type") and isinstance(s.value, ast.JoinedStr):
                        parts = []
                        cur = ""
                        for v in s.value.values:
                            if isinstance(v, ast.Constant):
                                cur += v.value
                            else:
                                parts.append(cur)
                                cur = ""
                        parts.append(cur)
                        got[key] = parts
        if len(got.get("DECIMAL", [])) != 3 or len(got.get("ARRAY", [])) != 2:
            raise KeyError("description f-strings")
        return [["DECIMAL"] + got["DECIMAL"], ["ARRAY"] + got["ARRAY"]]

    dp = o.item("dataframe.description_formats", desc_parts, PINNED_DESC)

    # ---------------------------------------------------------------- emit
    def cond(c):
        if c[0] == "member":
            return ".isMember"
        return "(.eqAny %s)" % lean_list(c[1], lean_chars)

    def outcome(x):
        if x[0] == "raise":
            return "(.raise %s)" % exc(x[1])
        if x[0] == "ty":
            return "(.ty %s %s)" % (lean_chars(x[1]), opt_chars(x[2]))
        return "." + x[0]

    def operand(x):
        return "(.const %d)" % x if isinstance(x, int) else "." + x

    t = HEADER + "namespace Gen.TypeName\n"
    t += "/-- exception classes: `ValueError` and anything else (by name) -/\n"
    t += "inductive ExcClass where\n  | valueError\n  | other (name : List Char)\n  deriving Repr, DecidableEq\n"
    t += "/-- test of one `if/elif` arm of the untyped-name chain in `OrsoTypes.from_name` -/\n"
    t += "inductive Cond where\n  | eqAny (names : List (List Char))\n  | isMember\n  deriving Repr, DecidableEq\n"
    t += "/-- what the arm does: `_type = OrsoTypes.T` (+ `_element_type = OrsoTypes.E`), `_type = OrsoTypes[parsed]`, `_type = 0`, or `raise C` -/\n"
    t += "inductive Outcome where\n  | ty (t : List Char) (elem : Option (List Char))\n  | self\n  | zero\n  | raise (cls : ExcClass)\n  deriving Repr, DecidableEq\n"
    t += "inductive Operand where\n  | precision\n  | scale\n  | const (n : Nat)\n  deriving Repr, DecidableEq\n"
    t += "inductive Cmp where\n  | lt | le | gt | ge | eq | ne\n  deriving Repr, DecidableEq\n"
    t += "/-- `if lhs op rhs: raise cls` -/\n"
    t += "structure Guard where\n  lhs : Operand\n  op : Cmp\n  rhs : Operand\n  cls : ExcClass\n  deriving Repr, DecidableEq\n\n"
    t += "/-- (re function, pattern source) of `_parse_type`, in source order -/\n"
    t += "def regexSources : List (String × String) := %s\n" % lean_list(rx, lambda p: "(%s, %s)" % (lean_str(p[0]), lean_str(p[1])))
    t += "/-- do the sources equal the ones `Model/TypeName.lean`'s matchers were written for? -/\n"
    t += "def regexPinned : Bool := %s\n" % ("true" if regex_pinned else "false")
    t += "/-- `OrsoTypes` members: (name, str(value)) -/\n"
    t += "def members : List (List Char × List Char) := %s\n" % lean_list(mem, lambda p: "(%s, %s)" % (lean_chars(p[0]), lean_chars(p[1])))
    t += "def bareChain : List (Cond × Outcome) := %s\n" % lean_list(branches, lambda b: "(%s, %s)" % (cond(b[0]), outcome(b[1])))
    t += "def bareElse : Outcome := %s\n" % outcome(else_out)
    t += "def excludedElemPrefixes : List (List Char) := %s\n" % lean_list(excl, lean_chars)
    t += "def elemExcludedRaise : ExcClass := %s\n" % exc(er[0])
    t += "def elemUnknownRaise : ExcClass := %s\n" % exc(er[1])
    t += "def decimalGuards : List Guard := %s\n" % lean_list(
        gd, lambda g: "⟨%s, .%s, %s, %s⟩" % (operand(g[0]), g[1], operand(g[2]), exc(g[3])))
    t += "/-- `sys.get_int_max_str_digits()` of the interpreter under test (0 = unlimited) -/\n"
    t += "def intMaxStrDigits : Nat := %d\n" % mx
    t += "/-- `decimal.getcontext().prec` of the interpreter under test -/\n"
    t += "def ctxPrec : Nat := %d\n" % cp
    t += "/-- `int(0.75 * precision)` as an exact fraction -/\n"
    t += "def scaleNum : Nat := %d\ndef scaleDen : Nat := %d\n" % (sf[0], sf[1])
    d, a = dp
    t += "/-- `DataFrame.description`: value tested and literal parts of the DECIMAL f-string -/\n"
    t += "def descDecimalKey : List Char := %s\n" % lean_chars(d[0])
    t += "def descDecimalPre : List Char := %s\ndef descDecimalMid : List Char := %s\ndef descDecimalPost : List Char := %s\n" % (
        lean_chars(d[1]), lean_chars(d[2]), lean_chars(d[3]))
    t += "def descArrayKey : List Char := %s\n" % lean_chars(a[0])
    t += "def descArrayPre : List Char := %s\ndef descArrayPost : List Char := %s\n" % (lean_chars(a[1]), lean_chars(a[2]))
    t += "end Gen.TypeName\n"
    o.files["TypeName.lean"] = t
