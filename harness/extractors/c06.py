"""C06 tables: orso/types.py (_parse_type regexes, OrsoTypes members, the alias chain of
OrsoTypes.from_name, DECIMAL guards, excluded ARRAY element prefixes), orso/schema.py (the
DECIMAL default-scale factor) and orso/dataframe.py (the two type-code f-strings).

Everything is read with `ast` from the working tree; each item degrades to its pinned value when
the construct is not found in the expected shape (a harmless refactor), never failing the run.
"""
import ast
import fractions

from ..extract import HEADER, Src, lean_list, lean_str

PINNED_REGEX = [
    r"ARRAY<([\w\s\[\]\(\)]+)>",
    r"DECIMAL\((\d+),\s*(\d+)\)",
    r"VARCHAR\[(\d+)\]",
    r"BLOB\[(\d+)\]",
]
PINNED_MEMBERS = [[n, n] for n in ["ARRAY", "BLOB", "BOOLEAN", "DATE", "DECIMAL", "DOUBLE", "INTEGER", "INTERVAL",
                                   "STRUCT", "TIMESTAMP", "TIME", "VARCHAR", "NULL", "JSONB"]] + [["_MISSING_TYPE", "0"]]
PINNED_CHAIN = [
    [["eq", ["ARRAY"]], ["ty", "ARRAY", "VARCHAR"]],
    [["member"], ["self"]],
    [["eq", ["LIST"]], ["ty", "ARRAY", None]],
    [["eq", ["NUMERIC"]], ["ty", "DOUBLE", None]],
    [["eq", ["BSON"]], ["ty", "JSONB", None]],
    [["eq", ["STRING"]], ["raise", "ValueError"]],
    [["eq", ["0", "VARIANT", "MISSING"]], ["zero"]],
]
PINNED_ELSE = ["raise", "ValueError"]
PINNED_EXCLUDED = ["ARRAY", "LIST", "NUMERIC", "BSON", "STRING", "DECIMAL"]
PINNED_ELEM_RAISES = ["ValueError", "ValueError"]
PINNED_GUARDS = [
    ["precision", "lt", 0, "ValueError"],
    ["precision", "gt", 38, "ValueError"],
    ["scale", "lt", 0, "ValueError"],
    ["scale", "gt", 38, "ValueError"],
    ["precision", "lt", "scale", "ValueError"],
]
PINNED_DESC = [["DECIMAL", "DECIMAL(", ",", ")"], ["ARRAY", "ARRAY<", ">"]]
KINDS = ["array", "decimal", "varchar", "blob"]
PINNED_MERGE = [["elem", "isNone", "elem"], ["precision", "isNone", "precision"], ["scale", "isNone", "scale"], ["length", "isNone", "length"]]

CMP = {ast.Lt: "lt", ast.LtE: "le", ast.Gt: "gt", ast.GtE: "ge", ast.Eq: "eq", ast.NotEq: "ne"}


def lean_chars(s):
    def ch(c):
        o = ord(c)
        if c == "'":
            return "'\\''"
        if c == "\\":
            return "'\\\\'"
        if 32 <= o < 127:
            return "'%s'" % c
        return "Char.ofNat %d" % o

    return "[" + ", ".join(ch(c) for c in s) + "]"


def opt_chars(s):
    return "none" if s is None else "(some %s)" % lean_chars(s)


def exc(cls):
    return ".valueError" if cls == "ValueError" else "(.other %s)" % lean_chars(cls)


def _is_name(n, ident):
    return isinstance(n, ast.Name) and n.id == ident


def _raise_class(stmts):
    for s in stmts:
        if isinstance(s, ast.Raise) and s.exc is not None:
            e = s.exc
            if isinstance(e, ast.Call):
                e = e.func
            if isinstance(e, ast.Name):
                return e.id
            if isinstance(e, ast.Attribute):
                return e.attr
            raise KeyError("raise of unknown shape")
    return None


def _orso_attr(v):
    """OrsoTypes.X -> 'X'"""
    if isinstance(v, ast.Attribute) and _is_name(v.value, "OrsoTypes"):
        return v.attr
    raise KeyError("not OrsoTypes.<member>")


def _outcome(stmts):
    cls = _raise_class(stmts)
    if cls is not None:
        return ["raise", cls]
    ty = elem = None
    kind = None
    for s in stmts:
        if isinstance(s, ast.Assign) and len(s.targets) == 1 and isinstance(s.targets[0], ast.Name):
            tgt, v = s.targets[0].id, s.value
            if tgt == "_type":
                if isinstance(v, ast.Constant) and v.value == 0 and not isinstance(v.value, bool):
                    kind = "zero"
                elif isinstance(v, ast.Subscript) and _is_name(v.value, "OrsoTypes"):
                    kind = "self"
                else:
                    kind, ty = "ty", _orso_attr(v)
            elif tgt == "_element_type":
                elem = _orso_attr(v)
    if kind == "ty":
        return ["ty", ty, elem]
    if kind in ("zero", "self") and elem is None:
        return [kind]
    raise KeyError("branch outcome of unknown shape")


def _cond(test):
    def one(c):
        if not (isinstance(c, ast.Compare) and len(c.ops) == 1 and len(c.comparators) == 1):
            raise KeyError("test of unknown shape")
        lhs, op, rhs = c.left, c.ops[0], c.comparators[0]
        if isinstance(op, ast.Eq) and isinstance(lhs, ast.Constant) and isinstance(rhs, ast.Name):
            lhs, rhs = rhs, lhs  # "X" == parsed_types
        if not (isinstance(lhs, ast.Name) and lhs.id in ("parsed_types", "type_name")):
            raise KeyError("test of unknown shape")
        if isinstance(op, ast.In):
            if isinstance(rhs, ast.Attribute) and rhs.attr == "__members__" and _is_name(rhs.value, "OrsoTypes"):
                return ["member"]
            if isinstance(rhs, (ast.Tuple, ast.List, ast.Set)) and all(isinstance(e, ast.Constant) for e in rhs.elts):
                return [e.value for e in rhs.elts]  # parsed_types in ("A", "B")
            raise KeyError("membership test of unknown shape")
        if isinstance(op, ast.Eq) and isinstance(rhs, ast.Constant):
            return [rhs.value]
        raise KeyError("test of unknown shape")

    if isinstance(test, ast.BoolOp) and isinstance(test.op, ast.Or):
        vals = [x for v in test.values for x in one(v)]
    else:
        vals = one(test)
    if vals == ["member"]:
        return ["member"]
    if "member" in vals:
        raise KeyError("mixed test")
    # a comparison of the (text) name with a non-text constant is never true
    return ["eq", [v for v in vals if isinstance(v, str)]]


def rx_items(src):
    """A pattern of the supported subset as a list of items: ["lit", ch] | ["run", atoms, min, captured]
    (atoms: "digit" | "space" | "word" | ["ch", c]).  Supported: literal characters, and greedy unbounded
    repeats (`+`, `*`, `{n,}`) of one class or category, bare or as the whole content of a capturing group."""
    import re as _re
    try:
        import re._parser as P
        import re._constants as K
    except ImportError:  # pragma: no cover
        import sre_parse as P
        import sre_constants as K

    CAT = {K.CATEGORY_DIGIT: "digit", K.CATEGORY_SPACE: "space", K.CATEGORY_WORD: "word"}

    def atoms(node):
        op, arg = node
        if op == K.LITERAL:
            return [["ch", chr(arg)]]
        if op == K.IN:
            out = []
            for o2, a2 in arg:
                if o2 == K.LITERAL:
                    out.append(["ch", chr(a2)])
                elif o2 == K.CATEGORY and a2 in CAT:
                    out.append(CAT[a2])
                else:
                    raise KeyError("class member %s" % (o2,))
            return out
        raise KeyError("repeat of %s" % (op,))

    def run(node, captured):
        op, arg = node
        if op != K.MAX_REPEAT:
            raise KeyError("item %s" % (op,))
        lo, hi, sub = arg
        if hi != K.MAXREPEAT or len(sub) != 1:
            raise KeyError("bounded or compound repeat")
        return ["run", atoms(sub[0]), int(lo), captured]

    parsed = P.parse(src)
    if parsed.state.flags & ~_re.UNICODE:
        raise KeyError("inline flags")
    items, groups = [], 0
    for op, arg in parsed:
        if op == K.LITERAL:
            items.append(["lit", chr(arg)])
        elif op == K.SUBPATTERN:
            g, add, dele, sub = arg
            groups += 1
            if g != groups or add or dele or len(sub) != 1:
                raise KeyError("group of unknown shape")
            items.append(run(sub[0], True))
        else:
            items.append(run((op, arg), False))
    return items


def rx_kind(items):
    """Which of the four patterns: by the letters the pattern starts with."""
    head = ""
    for it in items:
        if it[0] == "lit" and it[1].isalpha():
            head += it[1]
        else:
            break
    return {"ARRAY": "array", "DECIMAL": "decimal", "VARCHAR": "varchar", "BLOB": "blob"}.get(head)


def _branch_of(fn, head):
    """The body of `elif parsed_types[0] == "<head>":` in from_name."""
    for n in ast.walk(fn):
        if isinstance(n, ast.If) and isinstance(n.test, ast.Compare) and isinstance(n.test.left, ast.Subscript) \
                and _is_name(n.test.left.value, "parsed_types") and len(n.test.comparators) == 1 \
                and isinstance(n.test.comparators[0], ast.Constant) and n.test.comparators[0].value == head:
            return n.body
    raise KeyError("branch " + head)


def generate(o):
    types = Src("orso/types.py")
    schema = Src("orso/schema.py")
    frame = Src("orso/dataframe.py")

    # ---- the four regular expressions of _parse_type, in order
    def regexes():
        fn = types.func("_parse_type")
        compiled = {}  # module-level NAME = re.compile(<literal>)
        for n in types.tree.body:
            if isinstance(n, ast.Assign) and len(n.targets) == 1 and isinstance(n.targets[0], ast.Name) \
                    and isinstance(n.value, ast.Call) and isinstance(n.value.func, ast.Attribute) \
                    and n.value.func.attr == "compile" and _is_name(n.value.func.value, "re"):
                if len(n.value.args) != 1 or n.value.keywords or not isinstance(n.value.args[0], ast.Constant):
                    raise KeyError("re.compile with flags / non-literal pattern")
                compiled[n.targets[0].id] = n.value.args[0].value
        found = []
        for n in ast.walk(fn):
            if not (isinstance(n, ast.Call) and isinstance(n.func, ast.Attribute)
                    and n.func.attr in ("match", "fullmatch", "search")):
                continue
            if _is_name(n.func.value, "re"):
                if len(n.args) != 2 or n.keywords or not isinstance(n.args[0], ast.Constant):
                    raise KeyError("re.%s call with flags / non-literal pattern" % n.func.attr)
                found.append((n.lineno, n.col_offset, n.func.attr, n.args[0].value))
            elif isinstance(n.func.value, ast.Name) and n.func.value.id in compiled:
                if len(n.args) != 1 or n.keywords:
                    raise KeyError("pattern.%s call with pos/endpos" % n.func.attr)
                found.append((n.lineno, n.col_offset, n.func.attr, compiled[n.func.value.id]))
        found.sort()
        if not found:
            raise KeyError("re.match calls")
        return [[f[2], f[3]] for f in found]

    rx = o.item("types.regex", regexes, [["match", r] for r in PINNED_REGEX])
    # the model interprets: the patterns themselves (items parsed from the sources), the order in which
    # they are tried, and whether each is anchored at the start (`match`) or found anywhere (`search`)
    pinned_items = {KINDS[i]: rx_items(r) for i, r in enumerate(PINNED_REGEX)}
    groups_needed = {"array": 1, "decimal": 2, "varchar": 1, "blob": 1}
    rx_by_kind = None
    try:
        got = {}
        for fn_, src_ in rx:
            if fn_ not in ("match", "search"):
                raise KeyError("re.%s" % fn_)
            its = rx_items(src_)
            k = rx_kind(its)
            if k is None or k in got or sum(1 for it in its if it[0] == "run" and it[3]) != groups_needed[k]:
                raise KeyError("pattern %r is not one of the four" % (src_,))
            got[k] = (fn_, its)
        if sorted(got) != sorted(KINDS):
            raise KeyError("patterns found: %r" % (sorted(got),))
        rx_by_kind = got
    except Exception as e_:
        if not any(d.startswith("types.regex") for d in o.degraded):
            o.degraded.append("types.regex (%s: %s; patterns pinned, tied by correspondence only)" % (type(e_).__name__, str(e_)[:80]))
    regex_pinned = sorted(r[1] for r in rx) == sorted(PINNED_REGEX)
    if rx_by_kind is not None:
        parse_order = [rx_kind(rx_items(r[1])) for r in rx]
        anchors = {k: ("atStart" if rx_by_kind[k][0] == "match" else "anywhere") for k in KINDS}
        items = {k: rx_by_kind[k][1] for k in KINDS}
    else:
        parse_order = list(KINDS)
        anchors = {k: "atStart" for k in KINDS}
        items = pinned_items
    o.json["types.regex_items"] = items
    o.json["types.parse_order"] = parse_order
    o.json["types.anchors"] = anchors

    # ---- where the name is upper-cased: before `_parse_type` (from_name) and in its final return
    def upper_flags():
        fn = types.func("from_name", "OrsoTypes")

        def is_upper_call(e):
            return isinstance(e, ast.Call) and isinstance(e.func, ast.Attribute) and e.func.attr == "upper" \
                and not e.args and not e.keywords

        def is_name_text(e):  # `name` or `str(name)`
            if _is_name(e, "name"):
                return True
            return isinstance(e, ast.Call) and _is_name(e.func, "str") and len(e.args) == 1 and _is_name(e.args[0], "name")

        call = None
        for n in ast.walk(fn):
            if isinstance(n, ast.Call) and _is_name(n.func, "_parse_type") and len(n.args) == 1 and not n.keywords:
                call = n
                break
        if call is None:
            raise KeyError("_parse_type call")
        arg = call.args[0]
        if isinstance(arg, ast.Name):
            defs = [a for a in ast.walk(fn) if isinstance(a, ast.Assign) and len(a.targets) == 1
                    and _is_name(a.targets[0], arg.id) and a.lineno < call.lineno]
            if len(defs) != 1:
                raise KeyError("argument of _parse_type assigned %d times" % len(defs))
            arg = defs[0].value
        if is_upper_call(arg) and is_name_text(arg.func.value):
            first = True
        elif is_name_text(arg):
            first = False
        else:
            raise KeyError("argument of _parse_type of unknown shape")
        pt = types.func("_parse_type")
        last = pt.body[-1]
        if not isinstance(last, ast.Return) or last.value is None:
            raise KeyError("_parse_type does not end in a return")
        v = last.value
        if is_upper_call(v) and _is_name(v.func.value, pt.args.args[0].arg):
            second = True
        elif _is_name(v, pt.args.args[0].arg):
            second = False
        else:
            raise KeyError("final return of _parse_type of unknown shape")
        return [first, second]

    upf = o.item("types.upper_calls", upper_flags, [True, True])

    # ---- the parameterised branches of from_name: which member, which slot receives the number(s)
    LOCALS = {"_length": "length", "_precision": "precision", "_scale": "scale", "_element_type": "elem"}

    def length_branches():
        fn = types.func("from_name", "OrsoTypes")
        out = []
        for head in ("VARCHAR", "BLOB"):
            body = _branch_of(fn, head)
            member = slot = None
            for st in body:
                if not (isinstance(st, ast.Assign) and len(st.targets) == 1 and isinstance(st.targets[0], ast.Name)):
                    raise KeyError("statement of unknown shape in the %s branch" % head)
                tgt = st.targets[0].id
                if tgt == "_type":
                    member = _orso_attr(st.value)
                elif tgt in LOCALS and ast.unparse(st.value) == "parsed_types[1][0]":
                    if slot is not None:
                        raise KeyError("two parameters in the %s branch" % head)
                    slot = LOCALS[tgt]
                else:
                    raise KeyError("assignment of unknown shape in the %s branch" % head)
            if member is None or slot in (None, "elem"):
                raise KeyError("%s branch" % head)
            out.append([head, member, slot])
        return out

    lb = o.item("types.length_branches", length_branches, [["VARCHAR", "VARCHAR", "length"], ["BLOB", "BLOB", "length"]])

    def decimal_targets():
        body = _branch_of(types.func("from_name", "OrsoTypes"), "DECIMAL")
        for st in body:
            if isinstance(st, ast.Assign) and len(st.targets) == 1 and isinstance(st.targets[0], ast.Tuple) \
                    and ast.unparse(st.value) == "parsed_types[1]":
                names = [LOCALS[e.id] for e in st.targets[0].elts if isinstance(e, ast.Name) and e.id in LOCALS]
                if len(names) == 2 and len(st.targets[0].elts) == 2 and set(names) == {"precision", "scale"}:
                    return names
        raise KeyError("DECIMAL unpack")

    dt = o.item("types.decimal_unpack", decimal_targets, ["precision", "scale"])

    # ---- OrsoTypes members: (name, str(value))
    def members():
        for n in types.tree.body:
            if isinstance(n, ast.ClassDef) and n.name == "OrsoTypes":
                out = []
                for s in n.body:
                    if isinstance(s, ast.Assign) and len(s.targets) == 1 and isinstance(s.targets[0], ast.Name) \
                            and isinstance(s.value, ast.Constant):
                        out.append([s.targets[0].id, str(s.value.value)])
                if out:
                    return out
        raise KeyError("OrsoTypes")

    mem = o.item("types.members", members, PINNED_MEMBERS)

    # ---- the alias chain of the untyped-parameter branch
    def chain():
        fn = types.func("from_name", "OrsoTypes")
        top = None
        for n in ast.walk(fn):
            if isinstance(n, ast.If) and isinstance(n.test, ast.Call) and _is_name(n.test.func, "isinstance") \
                    and n.test.args and _is_name(n.test.args[0], "parsed_types"):
                top = n
                break
        if top is None or len(top.body) != 1 or not isinstance(top.body[0], ast.If):
            raise KeyError("isinstance(parsed_types, str) chain")
        node = top.body[0]
        branches = []
        while True:
            branches.append([_cond(node.test), _outcome(node.body)])
            if len(node.orelse) == 1 and isinstance(node.orelse[0], ast.If):
                node = node.orelse[0]
                continue
            if not node.orelse:
                raise KeyError("chain without else")
            return [branches, _outcome(node.orelse)]

    ch = o.item("types.bare_chain", chain, [PINNED_CHAIN, PINNED_ELSE])
    branches, else_out = ch

    # ---- ARRAY branch: excluded prefixes and the two raises
    def excluded():
        body = _branch_of(types.func("from_name", "OrsoTypes"), "ARRAY")
        for n in body:
            for c in ast.walk(n):
                if isinstance(c, ast.Call) and isinstance(c.func, ast.Attribute) and c.func.attr == "startswith":
                    v = ast.literal_eval(c.args[0])
                    return [v] if isinstance(v, str) else list(v)
        raise KeyError("startswith")

    excl = o.item("types.array_excluded_prefixes", excluded, PINNED_EXCLUDED)

    def elem_raises():
        body = _branch_of(types.func("from_name", "OrsoTypes"), "ARRAY")
        r1 = r2 = None
        for n in body:
            if isinstance(n, ast.If):
                has_sw = any(isinstance(c, ast.Attribute) and c.attr == "startswith" for c in ast.walk(n.test))
                if has_sw:
                    r1 = _raise_class(n.body)
                elif n.orelse:
                    r2 = _raise_class(n.orelse)
        if r1 is None or r2 is None:
            raise KeyError("ARRAY branch raises")
        return [r1, r2]

    er = o.item("types.array_raises", elem_raises, PINNED_ELEM_RAISES)

    # ---- DECIMAL guards
    def guards():
        body = _branch_of(types.func("from_name", "OrsoTypes"), "DECIMAL")
        names = {"_precision": "precision", "_scale": "scale"}

        def operand(x):
            if isinstance(x, ast.Name) and x.id in names:
                return names[x.id]
            if isinstance(x, ast.Constant) and isinstance(x.value, int) and not isinstance(x.value, bool) and x.value >= 0:
                return x.value
            raise KeyError("guard operand")

        out = []
        for n in body:
            if isinstance(n, ast.If):
                cls = _raise_class(n.body)
                if cls is None or n.orelse:
                    raise KeyError("guard body")
                tests = n.test.values if isinstance(n.test, ast.BoolOp) and isinstance(n.test.op, ast.Or) else [n.test]
                for t in tests:
                    if not (isinstance(t, ast.Compare) and len(t.ops) == 1 and type(t.ops[0]) in CMP):
                        raise KeyError("guard test")
                    out.append([operand(t.left), CMP[type(t.ops[0])], operand(t.comparators[0]), cls])
        if not out:
            raise KeyError("no guards")
        return out

    gd = o.item("types.decimal_guards", guards, PINNED_GUARDS)

    # ---- runtime parameters of the interpreter the implementation runs in
    def max_digits():
        import sys

        return int(sys.get_int_max_str_digits())

    mx = o.item("runtime.int_max_str_digits", max_digits, 4300)

    def ctx_prec():
        import decimal

        return int(decimal.getcontext().prec)

    cp = o.item("runtime.decimal_context_prec", ctx_prec, 28)

    def scale_factor():
        fn = schema.func("__init__", "FlatColumn")
        for n in ast.walk(fn):
            if isinstance(n, ast.BinOp) and isinstance(n.op, ast.Mult) and isinstance(n.left, ast.Constant) \
                    and isinstance(n.left.value, float) and isinstance(n.right, ast.Attribute) and n.right.attr == "precision":
                f = fractions.Fraction(n.left.value)
                return [f.numerator, f.denominator]
        raise KeyError("default scale factor")

    sf = o.item("schema.decimal_default_scale_factor", scale_factor, [3, 4])

    # ---- the two type-code f-strings of DataFrame.description
    def desc_parts():
        fn = frame.func("description", "DataFrame")
        got = {}
        for n in ast.walk(fn):
            if isinstance(n, ast.If) and isinstance(n.test, (ast.Compare, ast.BoolOp)):
                key = None
                for c in ast.walk(n.test):
                    if isinstance(c, ast.Compare) and isinstance(c.ops[0], ast.Eq) and isinstance(c.comparators[0], ast.Constant) \
                            and isinstance(c.comparators[0].value, str) and isinstance(c.left, ast.Attribute) and c.left.attr == "value":
                        key = c.comparators[0].value
                if key is None:
                    continue
                for s in n.body:
                    if isinstance(s, ast.Assign) and _is_name(s.targets[0], "data_type") and isinstance(s.value, ast.JoinedStr):
                        parts = []
                        cur = ""
                        for v in s.value.values:
                            if isinstance(v, ast.Constant):
                                cur += v.value
                            else:
                                parts.append(cur)
                                cur = ""
                        parts.append(cur)
                        got[key] = parts
        if len(got.get("DECIMAL", [])) != 3 or len(got.get("ARRAY", [])) != 2:
            raise KeyError("description f-strings")
        return [["DECIMAL"] + got["DECIMAL"], ["ARRAY"] + got["ARRAY"]]

    dp = o.item("dataframe.description_formats", desc_parts, PINNED_DESC)

    # ---- FlatColumn.__init__: how the parsed parameters are merged with the explicit ones
    SELF = {"element_type": "elem", "precision": "precision", "scale": "scale", "length": "length"}
    TUPLE_SLOTS = ["type", "length", "precision", "scale", "elem"]  # what from_name returns, in order

    def _self_attr(e):
        if isinstance(e, ast.Attribute) and _is_name(e.value, "self") and e.attr in SELF:
            return SELF[e.attr]
        return None

    def _none_test(test, attr):
        """`self.<attr> is None` -> isNone, `not self.<attr>` -> falsy (for the given attribute)."""
        if isinstance(test, ast.Compare) and len(test.ops) == 1 and isinstance(test.ops[0], ast.Is) \
                and _self_attr(test.left) == attr and isinstance(test.comparators[0], ast.Constant) \
                and test.comparators[0].value is None:
            return "isNone"
        if isinstance(test, ast.UnaryOp) and isinstance(test.op, ast.Not) and _self_attr(test.operand) == attr:
            return "falsy"
        return None

    def merge_rules():
        fn = schema.func("__init__", "FlatColumn")
        unpack = None
        for n in ast.walk(fn):
            if isinstance(n, ast.Assign) and len(n.targets) == 1 and isinstance(n.targets[0], ast.Tuple) \
                    and isinstance(n.value, ast.Call) and ast.unparse(n.value.func) == "OrsoTypes.from_name" \
                    and len(n.targets[0].elts) == 5:
                unpack = [ast.unparse(e) for e in n.targets[0].elts]
        if unpack is None or unpack[0] != "self.type":
            raise KeyError("unpack of OrsoTypes.from_name")
        source = {loc: TUPLE_SLOTS[i] for i, loc in enumerate(unpack)}
        rules = []
        for n in ast.walk(fn):
            tgt = test = src = None
            if isinstance(n, ast.If) and len(n.body) == 1 and not n.orelse and isinstance(n.body[0], ast.Assign) \
                    and len(n.body[0].targets) == 1:
                a = _self_attr(n.body[0].targets[0])
                v = n.body[0].value
                if a is not None and isinstance(v, ast.Name) and v.id in source:
                    t = _none_test(n.test, a)
                    if t is None:
                        raise KeyError("merge test of unknown shape for " + a)
                    tgt, test, src = a, t, source[v.id]
            elif isinstance(n, ast.Assign) and len(n.targets) == 1 and _self_attr(n.targets[0]) is not None:
                a = _self_attr(n.targets[0])
                v = n.value
                if isinstance(v, ast.BoolOp) and isinstance(v.op, ast.Or) and len(v.values) == 2 \
                        and _self_attr(v.values[0]) == a and isinstance(v.values[1], ast.Name) and v.values[1].id in source:
                    tgt, test, src = a, "falsy", source[v.values[1].id]
                elif isinstance(v, ast.Name) and v.id in source and not any(
                        isinstance(p, ast.If) and n in p.body for p in ast.walk(fn)):
                    raise KeyError("unconditional copy of a parsed parameter")
            if tgt is not None:
                if (tgt == "elem") != (src == "elem") or src == "type":
                    raise KeyError("parameter copied into a slot of another kind")
                rules.append([tgt, test, src])
        if sorted(r[0] for r in rules) != sorted(SELF.values()):
            raise KeyError("merge rules found for %r" % ([r[0] for r in rules],))
        return rules

    mr = o.item("schema.merge_rules", merge_rules, PINNED_MERGE)

    def decimal_defaults():
        """[test for precision, test for scale, default precision (int or "ctx")]"""
        fn = schema.func("__init__", "FlatColumn")

        def is_decimal_test(t):
            return isinstance(t, ast.Compare) and len(t.ops) == 1 and isinstance(t.ops[0], ast.Eq) \
                and ast.unparse(t.left) == "self.type" and ast.unparse(t.comparators[0]) == "OrsoTypes.DECIMAL"

        def default_of(e):
            if ast.unparse(e) in ("getcontext().prec", "decimal.getcontext().prec"):
                return "ctx"
            if isinstance(e, ast.Constant) and isinstance(e.value, int) and not isinstance(e.value, bool):
                return e.value
            if isinstance(e, ast.Name):
                for node in schema.tree.body:
                    tgt = val = None
                    if isinstance(node, ast.Assign) and len(node.targets) == 1:
                        tgt, val = node.targets[0], node.value
                    elif isinstance(node, ast.AnnAssign) and node.value is not None:
                        tgt, val = node.target, node.value
                    if tgt is not None and _is_name(tgt, e.id):
                        return default_of(val) if not isinstance(val, ast.Name) else None
            raise KeyError("default precision of unknown shape")

        found = {}

        def visit(stmts, under_decimal):
            for st in stmts:
                if isinstance(st, ast.If):
                    tests = st.test.values if isinstance(st.test, ast.BoolOp) and isinstance(st.test.op, ast.And) else [st.test]
                    dec = under_decimal or any(is_decimal_test(t) for t in tests)
                    rest = [t for t in tests if not is_decimal_test(t)]
                    if dec and len(rest) == 1:
                        for attr in ("precision", "scale"):
                            nt = _none_test(rest[0], attr)
                            if nt is not None:
                                for b in st.body:
                                    if isinstance(b, ast.Assign) and _self_attr(b.targets[0]) == attr:
                                        found[attr] = [nt, b.value]
                    if dec and not rest and not st.orelse:
                        visit(st.body, True)
                elif under_decimal and isinstance(st, ast.Assign) and len(st.targets) == 1 and _self_attr(st.targets[0]) in ("precision", "scale"):
                    attr = _self_attr(st.targets[0])
                    v = st.value
                    if isinstance(v, ast.BoolOp) and isinstance(v.op, ast.Or) and len(v.values) == 2 and _self_attr(v.values[0]) == attr:
                        found[attr] = ["falsy", v.values[1]]
                    else:
                        raise KeyError("unconditional DECIMAL default")

        visit(fn.body, False)
        if set(found) != {"precision", "scale"}:
            raise KeyError("DECIMAL defaults found for %r" % (sorted(found),))
        sc = found["scale"][1]
        if not (isinstance(sc, ast.Call) and _is_name(sc.func, "int") and isinstance(sc.args[0], ast.BinOp)
                and isinstance(sc.args[0].op, ast.Mult) and ast.unparse(sc.args[0].right) == "self.precision"):
            raise KeyError("default scale of unknown shape")
        return [found["precision"][0], found["scale"][0], default_of(found["precision"][1])]

    dd = o.item("schema.decimal_defaults", decimal_defaults, ["isNone", "isNone", "ctx"])
    default_prec = cp if dd[2] == "ctx" else int(dd[2])

    # ---- DataFrame.description: the statements that compute the type code, as a program:
    # a list of groups (one per top-level `if`), each an if/elif/else chain of arms
    # [cond kind, key, format kind, literal parts, assigns data_precision/data_scale]
    def desc_program():
        fn = frame.func("description", "DataFrame")
        loops = [n for n in ast.walk(fn) if isinstance(n, ast.For)]
        if len(loops) != 1:
            raise KeyError("loops in description")
        branch = None
        for n in ast.walk(loops[0]):
            if isinstance(n, ast.If) and ast.unparse(n.test) == "isinstance(self._schema, RelationSchema)":
                branch = n.body
        if branch is None:
            raise KeyError("RelationSchema branch")
        TYPE = {"column_type", "column_data.type"}
        ELEM_SET = "column_data.element_type is not None"

        def cond(test):
            txt = ast.unparse(test)
            if txt in ("%s is not None" % t for t in TYPE):
                return ["typeNotNone", ""]
            parts = test.values if isinstance(test, ast.BoolOp) and isinstance(test.op, ast.And) else [test]
            key, elem = None, False
            for p_ in parts:
                if ast.unparse(p_) == ELEM_SET:
                    elem = True
                elif isinstance(p_, ast.Compare) and len(p_.ops) == 1 and isinstance(p_.ops[0], ast.Eq) \
                        and ast.unparse(p_.left) in ("%s.value" % t for t in TYPE) \
                        and isinstance(p_.comparators[0], ast.Constant) and isinstance(p_.comparators[0].value, str) and key is None:
                    key = p_.comparators[0].value
                else:
                    raise KeyError("test of unknown shape: " + txt)
            if key is None:
                raise KeyError("test of unknown shape: " + txt)
            return ["valueIsAndElem" if elem else "valueIs", key]

        def arm(c, body):
            fmt, params = None, set()
            for st in body:
                if not (isinstance(st, ast.Assign) and len(st.targets) == 1 and isinstance(st.targets[0], ast.Name)):
                    raise KeyError("statement of unknown shape in an arm")
                tgt, v = st.targets[0].id, st.value
                if tgt == "data_type":
                    if fmt is not None:
                        raise KeyError("two type codes in one arm")
                    if isinstance(v, ast.Call) and _is_name(v.func, "str") and ast.unparse(v.args[0]) in ("%s.value" % t for t in TYPE):
                        fmt = ["plain", []]
                    elif isinstance(v, ast.JoinedStr):
                        lits, holes, cur = [], [], ""
                        for x in v.values:
                            if isinstance(x, ast.Constant):
                                cur += x.value
                            else:
                                if x.conversion != -1 or x.format_spec is not None:
                                    raise KeyError("formatted value with conversion")
                                lits.append(cur)
                                cur = ""
                                holes.append(ast.unparse(x.value))
                        lits.append(cur)
                        if holes in (["data_precision", "data_scale"], ["column_data.precision", "column_data.scale"]):
                            fmt = ["decimal", lits]
                        elif holes == ["column_data.element_type.value"]:
                            fmt = ["array", lits]
                        else:
                            raise KeyError("f-string holes %r" % (holes,))
                    else:
                        raise KeyError("type code of unknown shape")
                elif tgt == "data_precision" and ast.unparse(v) == "column_data.precision":
                    params.add("p")
                elif tgt == "data_scale" and ast.unparse(v) == "column_data.scale":
                    params.add("s")
                else:
                    raise KeyError("assignment of unknown shape in an arm")
            if fmt is None or params not in (set(), {"p", "s"}):
                raise KeyError("arm without a type code")
            if fmt[0] == "decimal" and "data_precision" in ast.unparse(body[-1]) and params != {"p", "s"}:
                raise KeyError("f-string uses locals that are not assigned")
            return c + fmt + [params == {"p", "s"}]

        groups, started = [], False
        for st in branch:
            txt = ast.unparse(st)
            if not started:
                if isinstance(st, ast.Assign) and txt.startswith("column_type = "):
                    if ast.unparse(st.value) != "column_data.type":
                        raise KeyError("column_type of unknown shape")
                    started = True
                continue
            if isinstance(st, ast.Assign) and txt == "nullable = column_data.nullable":
                continue
            if not isinstance(st, ast.If):
                raise KeyError("statement of unknown shape: " + txt[:40])
            g, node = [], st
            while True:
                g.append(arm(cond(node.test), node.body))
                if len(node.orelse) == 1 and isinstance(node.orelse[0], ast.If):
                    node = node.orelse[0]
                    continue
                if node.orelse:
                    g.append(arm(["otherwise", ""], node.orelse))
                break
            groups.append(g)
        if not groups:
            raise KeyError("no type-code statements")
        return groups

    PINNED_PROGRAM = [[["typeNotNone", "", "plain", [], False]],
                      [["valueIs", "DECIMAL", "decimal", ["DECIMAL(", ",", ")"], True]],
                      [["valueIsAndElem", "ARRAY", "array", ["ARRAY<", ">"], False]]]
    prog = o.item("dataframe.description_program", desc_program, PINNED_PROGRAM)

    # ---- DataFrame.description: which column an entry is built from
    def desc_lookup():
        fn = frame.func("description", "DataFrame")
        loops = [n for n in ast.walk(fn) if isinstance(n, ast.For)]
        if len(loops) != 1:
            raise KeyError("loops in description")
        loop = loops[0]
        assigns = [n for n in ast.walk(loop) if isinstance(n, ast.Assign) and len(n.targets) == 1 and _is_name(n.targets[0], "column_data")]
        if len(assigns) != 1:
            raise KeyError("column_data assignments")
        v = assigns[0].value
        it = ast.unparse(loop.iter)
        if it == "enumerate(self.column_names)" and isinstance(loop.target, ast.Tuple) and len(loop.target.elts) == 2 \
                and all(isinstance(e, ast.Name) for e in loop.target.elts) \
                and ast.unparse(v) == "self._schema.columns[%s]" % loop.target.elts[0].id:
            return "byPosition"
        if it == "self.column_names" and isinstance(loop.target, ast.Name) \
                and ast.unparse(v) == "self._schema.find_column(%s)" % loop.target.id:
            return "byName"
        raise KeyError("column lookup of unknown shape")

    dl = o.item("dataframe.description_lookup", desc_lookup, "byPosition")

    # ---- DataFrame.description: is the list computed from the schema on every read, or is an earlier answer
    # kept (a caching decorator on the property, a memo in its body)?  And the same for `column_names`, which
    # description iterates over.
    CACHERS = {"single_item_cache", "lru_cache", "cache", "cached_property", "functools.lru_cache", "functools.cache",
               "functools.cached_property", "tools.single_item_cache", "orso.tools.single_item_cache"}

    def _decorators(fn):
        out = []
        for d in fn.decorator_list:
            out.append(ast.unparse(d.func if isinstance(d, ast.Call) else d))
        return out

    def desc_reads():
        fn = frame.func("description", "DataFrame")
        decos = _decorators(fn)
        kept = [d for d in decos if d in CACHERS]
        if [d for d in decos if d not in CACHERS and d != "property"]:
            raise KeyError("decorator of unknown kind on description: %r" % (decos,))
        if "property" not in decos and "cached_property" not in " ".join(decos):
            raise KeyError("description is not a property")
        body = list(fn.body)
        if body and isinstance(body[0], ast.Expr) and isinstance(body[0].value, ast.Constant) and isinstance(body[0].value.value, str):
            body = body[1:]
        # the body: `result = []`, one loop, `return result` - anything else (a memo read or written, an early
        # return) is a shape this reader does not know
        ok = (len(body) == 3 and isinstance(body[0], ast.Assign) and ast.unparse(body[0]) == "result = []"
              and isinstance(body[1], ast.For) and isinstance(body[2], ast.Return) and ast.unparse(body[2]) == "return result")
        if not ok:
            raise KeyError("body of description of unknown shape")
        for n in ast.walk(body[1]):
            if isinstance(n, (ast.Return, ast.Global, ast.Nonlocal)) or \
                    (isinstance(n, (ast.Assign, ast.AugAssign, ast.AnnAssign)) and "self." in ast.unparse(
                        n.targets[0] if isinstance(n, ast.Assign) else n.target)):
                raise KeyError("the loop of description returns early or writes to the frame")
        names_fn = frame.func("column_names", "DataFrame")
        names_kept = [d for d in _decorators(names_fn) if d in CACHERS]
        return ["keptPerFrame" if kept else "fresh", "keptPerFrame" if names_kept else "fresh"]

    dr = o.item("dataframe.description_reads", desc_reads, ["fresh", "keptPerFrame"])


    # ---- FlatColumn.from_dict (the reader of the dictionary form; RelationSchema.from_dict and from_json go through it):
    # the rewrites `if <tests>: dic = {**dic, "<key>": OrsoTypes.<M>}` in source order, then `return cls(**dic)`
    PINNED_REWRITES = [[[["valueIs", "type", "0"]], "type", "_MISSING_TYPE"],
                       [[["valueIs", "element_type", "0"]], "element_type", "_MISSING_TYPE"],
                       [[["valueIs", "type", "ARRAY"], ["hasKey", "element_type"], ["isNull", "element_type"]], "type", "ARRAY"]]

    def from_dict_rewrites():
        fn = schema.func("from_dict", "FlatColumn")
        values = dict((m[0], m[1]) for m in mem)
        body = list(fn.body)
        if body and isinstance(body[0], ast.Expr) and isinstance(body[0].value, ast.Constant) and isinstance(body[0].value.value, str):
            body = body[1:]
        if not body or ast.unparse(body[-1]) != "return cls(**dic)":
            raise KeyError("from_dict does not end in `return cls(**dic)`")

        def test(t):
            u = ast.unparse(t)
            if isinstance(t, ast.Compare) and len(t.ops) == 1:
                l, op, r = t.left, t.ops[0], t.comparators[0]
                lu = ast.unparse(l)
                if isinstance(op, ast.Eq) and lu.startswith("dic.get(") and isinstance(l, ast.Call) and len(l.args) == 1 \
                        and isinstance(l.args[0], ast.Constant) and isinstance(r, ast.Attribute) and r.attr == "value" \
                        and _orso_attr(r.value) in values:
                    return ["valueIs", l.args[0].value, values[_orso_attr(r.value)]]
                if isinstance(op, ast.In) and isinstance(l, ast.Constant) and ast.unparse(r) == "dic":
                    return ["hasKey", l.value]
                if isinstance(op, ast.Is) and ast.unparse(r) == "None":
                    if isinstance(l, ast.Subscript) and ast.unparse(l.value) == "dic" and isinstance(l.slice, ast.Constant):
                        return ["isNull", l.slice.value]
                    if isinstance(l, ast.Call) and lu.startswith("dic.get(") and len(l.args) == 1 and isinstance(l.args[0], ast.Constant):
                        return ["getIsNone", l.args[0].value]
            raise KeyError("test of unknown shape in from_dict: " + u)

        out = []
        for st in body[:-1]:
            if not (isinstance(st, ast.If) and not st.orelse and len(st.body) == 1 and isinstance(st.body[0], ast.Assign)):
                raise KeyError("statement of unknown shape in from_dict")
            a = st.body[0]
            v = a.value
            if not (_is_name(a.targets[0], "dic") and isinstance(v, ast.Dict) and len(v.keys) == 2 and v.keys[0] is None
                    and ast.unparse(v.values[0]) == "dic" and isinstance(v.keys[1], ast.Constant) and _orso_attr(v.values[1])):
                raise KeyError("rewrite of unknown shape in from_dict")
            tests = st.test.values if (isinstance(st.test, ast.BoolOp) and isinstance(st.test.op, ast.And)) else [st.test]
            out.append([[test(t) for t in tests], v.keys[1].value, _orso_attr(v.values[1])])
        return out

    fdr = o.item("schema.from_dict_rewrites", from_dict_rewrites, PINNED_REWRITES)

    def lean_test(x):
        return "(.%s %s)" % (x[0], " ".join(lean_chars(a) for a in x[1:]))

    td = HEADER + "namespace Gen.TypeNameDict\n"
    td += "/-- one conjunct of a test in `FlatColumn.from_dict`: `dic.get(K) == <member>.value`, `K in dic`, `dic[K] is None`, `dic.get(K) is None` -/\n"
    td += "inductive DictTest where\n  | valueIs (key val : List Char)\n  | hasKey (key : List Char)\n  | isNull (key : List Char)\n"
    td += "  | getIsNone (key : List Char)\n  deriving Repr, DecidableEq\n"
    td += "/-- `if <tests>: dic = {**dic, key: OrsoTypes.<member>}`, in source order; then `return cls(**dic)` -/\n"
    td += "def fromDictRewrites : List (List DictTest × List Char × List Char) := %s\n" % lean_list(
        fdr, lambda r: "(%s, %s, %s)" % (lean_list(r[0], lean_test), lean_chars(r[1]), lean_chars(r[2])))
    td += "/-- `OrsoTypes._MISSING_TYPE.value`: the written form of an untyped column, which is not a type name -/\n"
    td += "def untypedValue : List Char := %s\n" % lean_chars(dict((m[0], m[1]) for m in mem).get("_MISSING_TYPE", "0"))
    td += "end Gen.TypeNameDict\n"
    o.files["TypeNameDict.lean"] = td

    # ---------------------------------------------------------------- emit
    def cond(c):
        if c[0] == "member":
            return ".isMember"
        return "(.eqAny %s)" % lean_list(c[1], lean_chars)

    def outcome(x):
        if x[0] == "raise":
            return "(.raise %s)" % exc(x[1])
        if x[0] == "ty":
            return "(.ty %s %s)" % (lean_chars(x[1]), opt_chars(x[2]))
        return "." + x[0]

    def operand(x):
        return "(.const %d)" % x if isinstance(x, int) else "." + x

    t = HEADER + "namespace Gen.TypeName\n"
    t += "/-- exception classes: `ValueError` and anything else (by name) -/\n"
    t += "inductive ExcClass where\n  | valueError\n  | other (name : List Char)\n  deriving Repr, DecidableEq\n"
    t += "/-- test of one `if/elif` arm of the untyped-name chain in `OrsoTypes.from_name` -/\n"
    t += "inductive Cond where\n  | eqAny (names : List (List Char))\n  | isMember\n  deriving Repr, DecidableEq\n"
    t += "/-- what the arm does: `_type = OrsoTypes.T` (+ `_element_type = OrsoTypes.E`), `_type = OrsoTypes[parsed]`, `_type = 0`, or `raise C` -/\n"
    t += "inductive Outcome where\n  | ty (t : List Char) (elem : Option (List Char))\n  | self\n  | zero\n  | raise (cls : ExcClass)\n  deriving Repr, DecidableEq\n"
    t += "inductive Operand where\n  | precision\n  | scale\n  | const (n : Nat)\n  deriving Repr, DecidableEq\n"
    t += "inductive Cmp where\n  | lt | le | gt | ge | eq | ne\n  deriving Repr, DecidableEq\n"
    t += "/-- `if lhs op rhs: raise cls` -/\n"
    t += "structure Guard where\n  lhs : Operand\n  op : Cmp\n  rhs : Operand\n  cls : ExcClass\n  deriving Repr, DecidableEq\n\n"
    t += "/-- (re function, pattern source) of `_parse_type`, in source order -/\n"
    t += "def regexSources : List (String × String) := %s\n" % lean_list(rx, lambda p: "(%s, %s)" % (lean_str(p[0]), lean_str(p[1])))
    t += "/-- do the sources equal the ones the reference matchers (`matchArray` …) were written for? (informational) -/\n"
    t += "def regexPinned : Bool := %s\n" % ("true" if regex_pinned else "false")
    t += "/-- how a pattern is applied: `re.match` (at the start of the text only) or `search` (leftmost occurrence anywhere) -/\n"
    t += "inductive Anchor where\n  | atStart\n  | anywhere\n  deriving Repr, DecidableEq\n"
    def lean_char(c):
        return lean_chars(c)[1:-1]

    def lean_atom(a):
        return "." + a if isinstance(a, str) else "(.ch %s)" % lean_char(a[1])

    def lean_item(it):
        if it[0] == "lit":
            return "(.lit %s)" % lean_char(it[1])
        return "(.run %s %d %s)" % (lean_list(it[1], lean_atom), it[2], "true" if it[3] else "false")

    t += "/-- a member of a character class: `\\d`, `\\s`, `\\w` or a literal character -/\n"
    t += "inductive Atom where\n  | digit | space | word\n  | ch (c : Char)\n  deriving Repr, DecidableEq\n"
    t += "/-- one item of a pattern: a literal character, or a greedy unbounded repeat (at least `min`) of a class, captured as a group or not -/\n"
    t += "inductive RItem where\n  | lit (c : Char)\n  | run (cls : List Atom) (min : Nat) (cap : Bool)\n  deriving Repr, DecidableEq\n"
    for k in KINDS:
        t += "/-- the %s pattern of `_parse_type`, parsed from its source -/\n" % k.upper()
        t += "def rx%s : List RItem := %s\n" % (k.capitalize(), lean_list(items[k], lean_item))
    t += "inductive PKind where\n  | array | decimal | varchar | blob\n  deriving Repr, DecidableEq\n"
    t += "/-- the order in which `_parse_type` tries its four patterns -/\n"
    t += "def parseOrder : List PKind := %s\n" % lean_list(parse_order, lambda k: "." + k)
    for k in KINDS:
        t += "def anchor%s : Anchor := .%s\n" % (k.capitalize(), anchors[k])
    t += "/-- is the name upper-cased before `_parse_type` sees it (`from_name`) / in `_parse_type`'s final `return` -/\n"
    t += "def upperInFromName : Bool := %s\ndef upperBareReturn : Bool := %s\n" % tuple("true" if b else "false" for b in upf)
    t += "inductive Slot where\n  | length | precision | scale | elem\n  deriving Repr, DecidableEq\n"
    t += "/-- `elif parsed_types[0] == HEAD: _type = OrsoTypes.M; _<slot> = parsed_types[1][0]`: (HEAD, M, slot) -/\n"
    t += "def lengthBranches : List (List Char × List Char × Slot) := %s\n" % lean_list(
        lb, lambda b: "(%s, %s, .%s)" % (lean_chars(b[0]), lean_chars(b[1]), b[2]))
    t += "/-- the targets of `… = parsed_types[1]` in the DECIMAL branch, in order -/\n"
    t += "def decimalTargets : List Slot := %s\n" % lean_list(dt, lambda x: "." + x)
    t += "/-- the test that decides whether an explicit constructor argument is missing: `x is None` or `not x` / `x or …` -/\n"
    t += "inductive NoneTest where\n  | isNone\n  | falsy\n  deriving Repr, DecidableEq\n"
    t += "/-- `FlatColumn.__init__`: `if self.A <test>: self.A = <slot of from_name's tuple>`, in source order -/\n"
    t += "def mergeRules : List (Slot × NoneTest × Slot) := %s\n" % lean_list(mr, lambda r: "(.%s, .%s, .%s)" % tuple(r))
    t += "/-- the tests of the two DECIMAL defaults (precision, scale) and the default precision -/\n"
    t += "def decimalPrecisionTest : NoneTest := .%s\ndef decimalScaleTest : NoneTest := .%s\n" % (dd[0], dd[1])
    t += "def decimalDefaultPrecision : Nat := %d\n" % default_prec
    def lean_arm(a):
        ck, key, fk, lits, params = a
        c = {"typeNotNone": ".typeNotNone", "otherwise": ".otherwise"}.get(ck) or "(.%s %s)" % (ck, lean_chars(key))
        f = ".plain" if fk == "plain" else "(.%s %s)" % (fk, " ".join(lean_chars(x) for x in lits))
        return "⟨%s, %s, %s⟩" % (c, f, "true" if params else "false")

    t += "/-- test of one arm of the type-code statements of `DataFrame.description` -/\n"
    t += "inductive CodeCond where\n  | typeNotNone\n  | valueIs (key : List Char)\n  | valueIsAndElem (key : List Char)\n  | otherwise\n  deriving Repr, DecidableEq\n"
    t += "/-- the type code an arm assigns: `str(type.value)`, `f\"PRE{precision}MID{scale}POST\"`, `f\"PRE{element_type.value}POST\"` -/\n"
    t += "inductive CodeFmt where\n  | plain\n  | decimal (pre mid post : List Char)\n  | array (pre post : List Char)\n  deriving Repr, DecidableEq\n"
    t += "structure CodeArm where\n  cond : CodeCond\n  fmt : CodeFmt\n  setsParams : Bool\n  deriving Repr, DecidableEq\n"
    t += "/-- the statements that compute the type code, in source order: one group per top-level `if`, each group an if/elif/else chain -/\n"
    t += "def descProgram : List (List CodeArm) := %s\n" % lean_list(prog, lambda g: lean_list(g, lean_arm))
    t += "/-- `DataFrame.description`: the entry of a column is built from the column in the same position, or from the first column that bears its name -/\n"
    t += "inductive Lookup where\n  | byPosition\n  | byName\n  deriving Repr, DecidableEq\n"
    t += "def descLookup : Lookup := .%s\n" % dl
    t += "/-- how a property of the frame answers: computed from the schema on every read, or the last answer is kept\n"
    t += "(a result cache keyed on the frame object: `single_item_cache` and the like) -/\n"
    t += "inductive ReadMode where\n  | fresh\n  | keptPerFrame\n  deriving Repr, DecidableEq\n"
    t += "/-- `DataFrame.description` (its decorators and the shape of its body) -/\n"
    t += "def descRead : ReadMode := .%s\n" % dr[0]
    t += "/-- `DataFrame.column_names`, which description iterates over (informational: the sessions of the model keep\n"
    t += "the names and the number of the columns, so a kept tuple of names equals the current one) -/\n"
    t += "def namesRead : ReadMode := .%s\n" % dr[1]
    t += "/-- `OrsoTypes` members: (name, str(value)) -/\n"
    t += "def members : List (List Char × List Char) := %s\n" % lean_list(mem, lambda p: "(%s, %s)" % (lean_chars(p[0]), lean_chars(p[1])))
    t += "def bareChain : List (Cond × Outcome) := %s\n" % lean_list(branches, lambda b: "(%s, %s)" % (cond(b[0]), outcome(b[1])))
    t += "def bareElse : Outcome := %s\n" % outcome(else_out)
    t += "def excludedElemPrefixes : List (List Char) := %s\n" % lean_list(excl, lean_chars)
    t += "def elemExcludedRaise : ExcClass := %s\n" % exc(er[0])
    t += "def elemUnknownRaise : ExcClass := %s\n" % exc(er[1])
    t += "def decimalGuards : List Guard := %s\n" % lean_list(
        gd, lambda g: "⟨%s, .%s, %s, %s⟩" % (operand(g[0]), g[1], operand(g[2]), exc(g[3])))
    t += "/-- `sys.get_int_max_str_digits()` of the interpreter under test (0 = unlimited) -/\n"
    t += "def intMaxStrDigits : Nat := %d\n" % mx
    t += "/-- `decimal.getcontext().prec` of the interpreter under test -/\n"
    t += "def ctxPrec : Nat := %d\n" % cp
    t += "/-- `int(0.75 * precision)` as an exact fraction -/\n"
    t += "def scaleNum : Nat := %d\ndef scaleDen : Nat := %d\n" % (sf[0], sf[1])
    d, a = dp
    t += "/-- `DataFrame.description`: value tested and literal parts of the DECIMAL f-string -/\n"
    t += "def descDecimalKey : List Char := %s\n" % lean_chars(d[0])
    t += "def descDecimalPre : List Char := %s\ndef descDecimalMid : List Char := %s\ndef descDecimalPost : List Char := %s\n" % (
        lean_chars(d[1]), lean_chars(d[2]), lean_chars(d[3]))
    t += "def descArrayKey : List Char := %s\n" % lean_chars(a[0])
    t += "def descArrayPre : List Char := %s\ndef descArrayPost : List Char := %s\n" % (lean_chars(a[1]), lean_chars(a[2]))
    t += "end Gen.TypeName\n"
    o.files["TypeName.lean"] = t
