"""C11: guards, bookkeeping and argument expressions lifted from the AST into Lean terms.

`Generated/ArrowExpr.lean` holds the *expressions* the source contains now:

* `_RowsIterator.__next__` (orso/converters.py): the stop test `self.rows_processed >= self.max_size`
  and the update `self.rows_processed += 1`;
* `from_arrow`: the test `if size:`, `BATCH_SIZE = min(size, BATCH_SIZE)` in that branch and
  `size = float("inf")` in the other;
* `to_arrow`: the guard `size is not None and size >= 0`, the argument of `dataset.head(…)` and the
  test `dataset.rowcount == 0` that selects the empty-columns branch;
* `FlatColumn.arrow_field` (orso/schema.py): the two arguments of `pyarrow.decimal128(…)`
  (`self.precision or DECIMAL_PRECISION`, `10 if self.scale is None else self.scale`).

Round 3 adds: the decimal defaulting block at the end of `FlatColumn.__init__` (what a DECIMAL column's
precision and scale are after construction: `initPrecision`, `initScale`), the argument each glue site passes
on as the size (`DataFrame.arrow` -> `to_arrow`, `DataFrame.pandas` -> `to_pandas`, `to_pandas` ->
`dataset.arrow`: `frameArrowArg`, `framePandasArg`, `toPandasArrowArg`), the stream of tables `from_arrow`
hands to `_RowsIterator` (`itertools.chain([first_table], tables)`: `streamKeepsFirst`) and whether
`__next__` fetches the next table in a loop (`while row is None`) or once (`if row is None`): `fetchLoops`; the type
names of `from_arrow`'s two `isinstance(tables, …)` tests (`acceptedShapes`, `iteredShapes`).

`Model/Arrow.lean` assembles them in a hand-written skeleton; `Props/C11.lean` proves one small
"expression fact" per item (`next_guard_spec`, `next_bookkeeping_spec`, `from_arrow_size_spec`,
`to_arrow_guard_spec`, `decimal_defaulting_spec`) and everything else from those facts, so a changed
operator breaks exactly the fact that names it.  When a statement is not found in the expected shape
the pinned text is written and the item is reported as degraded.
"""
import ast

from ..extract import HEADER, Src
from ..pyexpr import Untranslatable, assignments, find_function, if_tests, to_lean

PINNED_R3 = {
    "init.precision": "(match precision with | none => some (28) | some v => some v)",
    "init.scale": "(match scale with | none => some ((Int.fdiv (3 * precision) 4)) | some v => some v)",
    "glue.identity": "size",
}

PINNED = {
    "next.stop_test": "(rows_processed ≥ max_size)",
    "next.bump": "(rows_processed + 1)",
    "from_arrow.size_test": "(size ≠ 0)",
    "from_arrow.limited_batch": "(min size BATCH_SIZE)",
    "from_arrow.unlimited_is_inf": True,
    "to_arrow.limit_test": "(size ≥ 0)",
    "to_arrow.head_arg": "size",
    "to_arrow.empty_test": "(rowcount = 0)",
    "arrow_field.decimal_precision": "(match precision with | none => some (28) | some v => if v = 0 then some (28) else some v)",
    "arrow_field.decimal_scale": "(match scale with | none => some (10) | some v => some v)",
}


def _is_none(n):
    return isinstance(n, ast.Constant) and n.value is None


# ---- the kind of object a numeric argument is (sixth pass)
# A guard on a size can test more than the value: `isinstance(size, int)`, `type(size) is int`.  The value part goes
# into the Prop (`sizeTest`), the type part into the list of *kinds of argument object* that pass it (`sizeKinds`); a
# guard without a type test passes every kind.  Kind classes: the built-in int, bool, an int subclass, a numpy integer
# scalar (any width), a float (numpy.float64 included: it is a float subclass), another real number (Fraction, Decimal).
ALL_SIZE_KINDS = ["int", "bool", "int-subclass", "numpy-integer", "float", "other-real"]
_ISINSTANCE_KINDS = {
    "int": ["int", "bool", "int-subclass"],
    "bool": ["bool"],
    "float": ["float"],
    "numbers.Integral": ["int", "bool", "int-subclass", "numpy-integer"],
    "Integral": ["int", "bool", "int-subclass", "numpy-integer"],
    "numbers.Number": list(ALL_SIZE_KINDS),
    "Number": list(ALL_SIZE_KINDS),
    "numpy.integer": ["numpy-integer"],
    "np.integer": ["numpy-integer"],
    "numpy.signedinteger": None, "np.signedinteger": None,  # only some widths: not expressible, degrade
}
_EXACT_TYPE_KINDS = {"int": ["int"], "bool": ["bool"], "float": ["float"]}


def type_test_kinds(test, var):
    """`isinstance(<var>, T)` / `isinstance(<var>, (T, U))` / `type(<var>) is T` / `type(<var>) == T` / an `or` of such
    -> the kind classes that pass; None when `test` is not a type test on `var`; KeyError for a type test that is not
    understood (the item then degrades to its pinned value)."""
    if isinstance(test, ast.Call) and isinstance(test.func, ast.Name) and test.func.id == "isinstance" and len(test.args) == 2 \
            and not test.keywords and ast.unparse(test.args[0]) == var:
        ts = test.args[1].elts if isinstance(test.args[1], ast.Tuple) else [test.args[1]]
        kinds = set()
        for t in ts:
            ks = _ISINSTANCE_KINDS.get(ast.unparse(t))
            if ks is None:
                raise KeyError("isinstance(%s, %s)" % (var, ast.unparse(t)))
            kinds.update(ks)
        return [k for k in ALL_SIZE_KINDS if k in kinds]
    if isinstance(test, ast.Compare) and len(test.ops) == 1 and isinstance(test.ops[0], (ast.Is, ast.Eq)) \
            and ast.unparse(test.left) == "type(%s)" % var:
        ks = _EXACT_TYPE_KINDS.get(ast.unparse(test.comparators[0]))
        if ks is None:
            raise KeyError("type(%s) is %s" % (var, ast.unparse(test.comparators[0])))
        return list(ks)
    if isinstance(test, ast.BoolOp) and isinstance(test.op, ast.Or):
        parts = [type_test_kinds(v, var) for v in test.values]
        if all(p is not None for p in parts):
            return [k for k in ALL_SIZE_KINDS if any(k in p for p in parts)]
        if any(p is not None for p in parts):
            raise KeyError("type test mixed with a value test in an `or`: " + ast.unparse(test))
    return None


def guard_kinds(test, var):
    """The kind classes of argument object that pass the type test(s) of a guard (a conjunction): all of them when the
    guard has none."""
    conj = test.values if isinstance(test, ast.BoolOp) and isinstance(test.op, ast.And) else [test]
    kinds = list(ALL_SIZE_KINDS)
    for c in conj:
        ks = type_test_kinds(c, var)
        if ks is not None:
            kinds = [k for k in kinds if k in ks]
    return kinds


def truthiness(test, var, env):
    """A Python `if <test>:` on an optional integer `var` that is known not to be None -> Lean Prop.

    `if size:` -> size ≠ 0;  `if size is not None:` -> True;  `if size is not None and <e>` -> <e>;
    anything else goes through pyexpr.
    """
    if isinstance(test, ast.Name) and test.id == var:
        return "(%s ≠ 0)" % env[var]
    if type_test_kinds(test, var) is not None:
        return "True"  # the type part of the guard: `guard_kinds`
    if isinstance(test, ast.Compare) and len(test.ops) == 1 and isinstance(test.ops[0], ast.IsNot) \
            and ast.unparse(test.left) == var and _is_none(test.comparators[0]):
        return "True"
    if isinstance(test, ast.BoolOp) and isinstance(test.op, ast.And):
        parts = [truthiness(v, var, env) for v in test.values]
        parts = [p for p in parts if p != "True"] or ["True"]
        return parts[0] if len(parts) == 1 else "(" + " ∧ ".join(parts) + ")"
    return to_lean(test, env)


def defaulting(node, attr, env):
    """An argument of pyarrow.decimal128 computed from the optional attribute `self.<attr>` -> Lean
    term of type `Option Int` in the variable `<attr> : Option Int` (None = the call would raise)."""
    me = "self." + attr

    def is_me(n):
        return ast.unparse(n) == me

    if is_me(node):
        return attr
    if isinstance(node, ast.BoolOp) and isinstance(node.op, ast.Or) and len(node.values) == 2 and is_me(node.values[0]):
        d = to_lean(node.values[1], env)  # Python `x or d`: d when x is None or 0
        return "(match %s with | none => some (%s) | some v => if v = 0 then some (%s) else some v)" % (attr, d, d)
    if isinstance(node, ast.IfExp) and isinstance(node.test, ast.Compare) and len(node.test.ops) == 1 \
            and is_me(node.test.left) and _is_none(node.test.comparators[0]):
        if isinstance(node.test.ops[0], ast.Is) and is_me(node.orelse):      # d if x is None else x
            return "(match %s with | none => some (%s) | some v => some v)" % (attr, to_lean(node.body, env))
        if isinstance(node.test.ops[0], ast.IsNot) and is_me(node.body):     # x if x is not None else d
            return "(match %s with | none => some (%s) | some v => some v)" % (attr, to_lean(node.orelse, env))
    raise Untranslatable("decimal argument " + ast.unparse(node))


def opt_update(value, attr, default_of):
    """The value `self.<attr>` is given by `self.<attr> = <value>` as a Lean term of type `Option Int` in the
    variable `<attr> : Option Int`; `default_of(node)` translates the default expression.
    Recognised: `self.x or d` (Python's value-`or`: d for None and for 0), `d if self.x is None else self.x`,
    `self.x if self.x is not None else d`, `self.x`."""
    me = "self." + attr

    def is_me(n):
        return ast.unparse(n) == me

    if is_me(value):
        return attr
    if isinstance(value, ast.BoolOp) and isinstance(value.op, ast.Or) and len(value.values) == 2 and is_me(value.values[0]):
        d = default_of(value.values[1])
        return "(match %s with | none => some (%s) | some v => if v = 0 then some (%s) else some v)" % (attr, d, d)
    if isinstance(value, ast.IfExp) and isinstance(value.test, ast.Compare) and len(value.test.ops) == 1 \
            and is_me(value.test.left) and _is_none(value.test.comparators[0]):
        if isinstance(value.test.ops[0], ast.Is) and is_me(value.orelse):
            return "(match %s with | none => some (%s) | some v => some v)" % (attr, default_of(value.body))
        if isinstance(value.test.ops[0], ast.IsNot) and is_me(value.body):
            return "(match %s with | none => some (%s) | some v => some v)" % (attr, default_of(value.orelse))
    raise Untranslatable("update of %s: %s" % (me, ast.unparse(value)))


def int_of_scaled(node, env):
    """`int(<float constant> * x)` / `int(x * <float constant>)` for a non-negative integer x -> exact Lean Int
    term (`int` truncates; for x >= 0 and a non-negative constant that is the floor of the exact product: the
    float product of a dyadic constant like 0.75 with a small integer is exact)."""
    if isinstance(node, ast.Call) and isinstance(node.func, ast.Name) and node.func.id == "int" and len(node.args) == 1 \
            and not node.keywords and isinstance(node.args[0], ast.BinOp) and isinstance(node.args[0].op, ast.Mult):
        a, b = node.args[0].left, node.args[0].right
        if isinstance(b, ast.Constant):
            a, b = b, a
        if isinstance(a, ast.Constant) and isinstance(a.value, (int, float)) and not isinstance(a.value, bool) and a.value >= 0:
            num, den = (float(a.value)).as_integer_ratio()
            if den & (den - 1) == 0 and den <= 1024:
                return "(Int.fdiv (%d * %s) %d)" % (num, to_lean(b, env), den)
    return to_lean(node, env)


def decimal_init_defaults(fn, prec_default):
    """The decimal block of `FlatColumn.__init__`: top-level `if` statements whose test says
    `self.type == OrsoTypes.DECIMAL` (optionally `and self.<attr> is None`), whose bodies assign
    `self.precision` / `self.scale`.  -> (Lean term for the precision, Lean term for the scale in the variables
    `scale : Option Int` and `precision : Int`, the precision *after* its own defaulting)."""
    is_dec = "self.type == OrsoTypes.DECIMAL"
    terms = {}

    def default_of(attr):
        def go(node):
            txt = ast.unparse(node)
            if attr == "precision":
                if txt in ("getcontext().prec", "decimal.getcontext().prec", "DECIMAL_PRECISION"):
                    return "%d" % prec_default
                return to_lean(node, {})
            return int_of_scaled(node, {"self.precision": "precision"})
        return go

    def visit(stmts, none_guard):
        for st in stmts:
            if isinstance(st, (ast.Import, ast.ImportFrom, ast.Pass)):
                continue
            if isinstance(st, ast.If) and not st.orelse:
                parts = st.test.values if isinstance(st.test, ast.BoolOp) and isinstance(st.test.op, ast.And) else [st.test]
                texts = [ast.unparse(x) for x in parts]
                guard = none_guard
                ok = True
                for t in texts:
                    if t == is_dec:
                        continue
                    m = [a for a in ("precision", "scale") if t == "self.%s is None" % a]
                    f = [a for a in ("precision", "scale") if t == "not self.%s" % a]  # falsy: None *or 0*
                    if m and guard is None:
                        guard = m[0]
                    elif f and guard is None:
                        guard = f[0] + ":falsy"
                    else:
                        ok = False
                if not ok:
                    raise Untranslatable("guard " + ast.unparse(st.test))
                visit(st.body, guard)
                continue
            if isinstance(st, ast.Assign) and len(st.targets) == 1 and ast.unparse(st.targets[0]) in ("self.precision", "self.scale"):
                attr = ast.unparse(st.targets[0])[5:]
                if attr in terms:
                    raise Untranslatable("self.%s assigned twice" % attr)
                if attr == "scale" and "precision" not in terms and "self.precision" in ast.unparse(st.value):
                    # the scale default reads the precision before the precision has been defaulted
                    raise Untranslatable("scale default reads the precision before it is defaulted")
                if none_guard in (attr, attr + ":falsy"):
                    if "self." + attr in ast.unparse(st.value):
                        raise Untranslatable("guarded update reads itself")
                    d = default_of(attr)(st.value)
                    if none_guard == attr:
                        terms[attr] = "(match %s with | none => some (%s) | some v => some v)" % (attr, d)
                    else:
                        terms[attr] = "(match %s with | none => some (%s) | some v => if v = 0 then some (%s) else some v)" \
                            % (attr, d, d)
                elif none_guard is None:
                    terms[attr] = opt_update(st.value, attr, default_of(attr))
                else:
                    raise Untranslatable("self.%s assigned under a guard on self.%s" % (attr, none_guard))
                continue
            raise Untranslatable("statement in the decimal block: " + ast.unparse(st)[:60])

    blocks = [st for st in fn.body if isinstance(st, ast.If) and "OrsoTypes.DECIMAL" in ast.unparse(st.test)
              and any(isinstance(n, ast.Assign) and ast.unparse(n.targets[0]) in ("self.precision", "self.scale")
                      for n in ast.walk(st))]
    if not blocks:
        raise KeyError("if self.type == OrsoTypes.DECIMAL …: self.precision / self.scale = …")
    visit(blocks, None)
    if set(terms) != {"precision", "scale"}:
        raise KeyError("both self.precision and self.scale defaulted")
    return [terms["precision"], terms["scale"]]


def size_passed(fn, callee, param="size"):
    """The expression a glue function passes on as the size in its (only) call of `callee` (positional argument
    after the dataset, or `size=` keyword) as a Lean term `Option Int` in the variable `size : Option Int`:
    `size` -> size; `size or None` -> a zero becomes None; `None` -> none."""
    calls = [n for n in ast.walk(fn) if isinstance(n, ast.Call) and ast.unparse(n.func).split(".")[-1] == callee]
    if len(calls) != 1:
        raise KeyError("exactly one call of %s" % callee)
    c = calls[0]
    kws = {k.arg: k.value for k in c.keywords}
    if "size" in kws:
        arg = kws["size"]
    else:
        pos = [a for a in c.args if ast.unparse(a) not in ("self", "dataset")]
        if len(pos) != 1:
            raise KeyError("one size argument in the call of %s" % callee)
        arg = pos[0]
    txt = ast.unparse(arg)
    if txt == param:
        return "size"
    if txt == "None":
        return "none"
    if isinstance(arg, ast.BoolOp) and isinstance(arg.op, ast.Or) and len(arg.values) == 2 \
            and ast.unparse(arg.values[0]) == param and ast.unparse(arg.values[1]) == "None":
        return "(match size with | none => none | some v => if v = 0 then none else some v)"
    if isinstance(arg, ast.IfExp) and ast.unparse(arg.test) == param and ast.unparse(arg.body) == param \
            and ast.unparse(arg.orelse) == "None":
        return "(match size with | none => none | some v => if v = 0 then none else some v)"
    return "(match size with | none => none | some size => some (%s))" % to_lean(arg, {param: "size"})


def generate(o):
    from .c11 import tracked_item

    item = tracked_item(o)
    conv = Src("orso/converters.py")
    schema = Src("orso/schema.py")
    frame = Src("orso/dataframe.py")
    prec_default = o.json.get("arrow.DECIMAL_PRECISION", 28)

    # ---- _RowsIterator.__next__
    env_next = {"self.rows_processed": "rows_processed", "self.max_size": "max_size"}

    def next_fn():
        return find_function(conv.tree, "__next__", "_RowsIterator")

    def stop_test():
        fn = next_fn()
        st = fn.body[0] if fn.body else None
        # the first statement: `if <test>: raise StopIteration()`
        if isinstance(st, ast.Expr) and isinstance(st.value, ast.Constant):  # docstring
            st = fn.body[1]
        if isinstance(st, ast.If) and len(st.body) == 1 and isinstance(st.body[0], ast.Raise) \
                and "StopIteration" in ast.unparse(st.body[0]) and not st.orelse:
            return to_lean(st.test, env_next)
        raise KeyError("if <rows_processed vs max_size>: raise StopIteration()")

    def bump():
        fn = next_fn()
        found = assignments(fn, "self.rows_processed")
        if not found:
            raise KeyError("self.rows_processed update")
        texts = {to_lean(e, env_next) for _, e in found}
        if len(texts) != 1:
            raise KeyError("differing self.rows_processed updates")
        return texts.pop()

    # ---- from_arrow
    env_fa = {"size": "size", "BATCH_SIZE": "BATCH_SIZE"}

    def fa_if():
        fn = find_function(conv.tree, "from_arrow")
        for st in if_tests(fn):
            body_targets = [ast.unparse(s.targets[0]) for s in st.body if isinstance(s, ast.Assign) and len(s.targets) == 1]
            if "BATCH_SIZE" in body_targets:
                return st
        raise KeyError("if size: BATCH_SIZE = …")

    def size_test():
        return truthiness(fa_if().test, "size", env_fa)

    def size_kinds():
        return guard_kinds(fa_if().test, "size")

    def limited_batch():
        st = fa_if()
        for s in st.body:
            if isinstance(s, ast.Assign) and ast.unparse(s.targets[0]) == "BATCH_SIZE":
                return to_lean(s.value, env_fa)
        raise KeyError("BATCH_SIZE = …")

    def unlimited_is_inf():
        st = fa_if()
        for s in st.orelse:
            if isinstance(s, ast.Assign) and ast.unparse(s.targets[0]) == "size":
                txt = ast.unparse(s.value).replace('"', "'")
                if txt in ("float('inf')", "math.inf", "inf"):
                    return True
                raise KeyError("size = " + txt)
        raise KeyError("else: size = float('inf')")

    # ---- to_arrow
    env_ta = {"size": "size"}

    def ta_if():
        fn = find_function(conv.tree, "to_arrow")
        for st in if_tests(fn):
            if any("head(" in ast.unparse(s) or "slice(" in ast.unparse(s) for s in st.body) and "size" in ast.unparse(st.test):
                return st
        raise KeyError("if size …: dataset = dataset.head(size)")

    def limit_test():
        return truthiness(ta_if().test, "size", env_ta)

    def limit_kinds():
        return guard_kinds(ta_if().test, "size")

    def head_arg():
        st = ta_if()
        for s in st.body:
            if isinstance(s, ast.Assign) and isinstance(s.value, ast.Call) and ast.unparse(s.value.func) == "dataset.head" \
                    and ast.unparse(s.targets[0]) == "dataset" and len(s.value.args) == 1 and not s.value.keywords:
                return to_lean(s.value.args[0], env_ta)
        raise KeyError("dataset = dataset.head(<arg>)")

    def empty_test():
        # `if dataset.rowcount == 0: arrays = [list() …] else: arrays = list(zip(*dataset._rows))`
        fn = find_function(conv.tree, "to_arrow")
        for st in if_tests(fn):
            if "rowcount" not in ast.unparse(st.test):
                continue
            body = [x for x in st.body if isinstance(x, ast.Assign) and ast.unparse(x.targets[0]) == "arrays"]
            other = [x for x in st.orelse if isinstance(x, ast.Assign) and ast.unparse(x.targets[0]) == "arrays"]
            if len(body) == 1 and len(other) == 1 and "zip(" in ast.unparse(other[0].value) \
                    and "zip(" not in ast.unparse(body[0].value):
                return to_lean(st.test, {"dataset.rowcount": "rowcount"})
        raise KeyError("if dataset.rowcount == 0: arrays = [...] else: arrays = list(zip(*rows))")

    # ---- arrow_field: the decimal128 call
    env_af = {"DECIMAL_PRECISION": "%d" % prec_default}

    def decimal_args():
        fn = find_function(schema.tree, "arrow_field", "FlatColumn")
        calls = [n for n in ast.walk(fn) if isinstance(n, ast.Call) and isinstance(n.func, ast.Attribute)
                 and n.func.attr in ("decimal128", "decimal256")]
        if len(calls) != 1 or len(calls[0].args) != 2 or calls[0].keywords:
            raise KeyError("the pyarrow.decimal128(<precision>, <scale>) call")
        return [defaulting(calls[0].args[0], "precision", env_af), defaulting(calls[0].args[1], "scale", env_af)]

    # ---- round 3
    def init_defaults():
        return decimal_init_defaults(find_function(schema.tree, "__init__", "FlatColumn"), prec_default)

    def stream_keeps_first():
        # `_RowsIterator(tables=itertools.chain([first_table], tables), …)`: the table taken off the stream for
        # the schema is put back in front of it
        fn = find_function(conv.tree, "from_arrow")
        calls = [n for n in ast.walk(fn) if isinstance(n, ast.Call) and ast.unparse(n.func) == "_RowsIterator"]
        if len(calls) != 1:
            raise KeyError("one _RowsIterator(...) call")
        kws = {k.arg: k.value for k in calls[0].keywords}
        arg = kws.get("tables", calls[0].args[0] if calls[0].args else None)
        if arg is None:
            raise KeyError("tables= argument")
        txt = ast.unparse(arg).replace(" ", "")
        if txt in ("itertools.chain([first_table],tables)", "chain([first_table],tables)",
                   "itertools.chain((first_table,),tables)"):
            return True
        if txt == "tables":
            return False
        raise KeyError("tables=" + txt)

    def fetch_loops():
        # the statement that holds `self.current_table = next(self.tables, None)`: `while row is None` or `if row is None`
        fn = next_fn()
        for n in ast.walk(fn):
            if isinstance(n, (ast.While, ast.If)) and ast.unparse(n.test) == "row is None" and any(
                    isinstance(x, ast.Assign) and ast.unparse(x.targets[0]) == "self.current_table" for x in n.body):
                return isinstance(n, ast.While)
        raise KeyError("while row is None: self.current_table = next(self.tables, None)")

    def input_dispatch():
        # `if not isinstance(tables, (typing.Generator, list, tuple)): tables = [tables]` and
        # `if isinstance(tables, (list, tuple)): tables = iter(tables)` - the shapes named by the two tests
        fn = find_function(conv.tree, "from_arrow")

        def shapes(call):
            if not (isinstance(call, ast.Call) and ast.unparse(call.func) == "isinstance" and len(call.args) == 2
                    and ast.unparse(call.args[0]) == "tables"):
                raise KeyError("isinstance(tables, …)")
            a = call.args[1]
            elts = a.elts if isinstance(a, ast.Tuple) else [a]
            return [ast.unparse(e).split(".")[-1] for e in elts]

        accepted = itered = None
        for st in fn.body:
            if not isinstance(st, ast.If) or "isinstance(tables" not in ast.unparse(st.test):
                continue
            body = [ast.unparse(x).replace(" ", "") for x in st.body]
            if st.orelse:
                raise KeyError("an isinstance test on `tables` with an else branch")
            if isinstance(st.test, ast.UnaryOp) and isinstance(st.test.op, ast.Not) and body == ["tables=[tables]"]:
                if accepted is not None:
                    raise KeyError("two wrapping tests")
                accepted = shapes(st.test.operand)
            elif isinstance(st.test, ast.Call) and body == ["tables=iter(tables)"]:
                if itered is not None or accepted is None:
                    raise KeyError("two iter tests / iter before the wrapping test")
                itered = shapes(st.test)
            else:
                raise KeyError("isinstance test on `tables` of another shape: " + ast.unparse(st.test)[:50])
        if accepted is None or itered is None:
            raise KeyError("the two isinstance tests on `tables`")
        return [accepted, itered]

    # ---- where the columns a conversion returns come from, and whether that place keeps its results between calls
    def _decorators(fn, plain=()):
        """-> True (a cache / memo decorator), False (none besides `plain`); anything else is not understood"""
        rest = [ast.unparse(d) for d in fn.decorator_list if ast.unparse(d) not in plain]
        if not rest:
            return False
        if all(("cache" in d.lower() or "memo" in d.lower()) for d in rest):
            return True
        raise KeyError("decorators " + ", ".join(rest)[:60])

    def _builds_fresh_schema(expr):
        """`RelationSchema(name=…, columns=[FlatColumn.from_arrow(f) for f in …])`: new objects on every evaluation"""
        if not (isinstance(expr, ast.Call) and ast.unparse(expr.func).split(".")[-1] == "RelationSchema"):
            return False
        cols = [k.value for k in expr.keywords if k.arg == "columns"]
        if len(cols) != 1 or not isinstance(cols[0], ast.ListComp) or len(cols[0].generators) != 1:
            return False
        elt = cols[0].elt
        return isinstance(elt, ast.Call) and ast.unparse(elt.func) in ("FlatColumn.from_arrow", "cls.from_arrow") \
            and len(elt.args) == 1 and not cols[0].generators[0].ifs

    def schema_sites():
        # converters.from_arrow: `orso_schema = RelationSchema(…)` in place, or `orso_schema = <helper>(<arrow schema>)`
        fn = find_function(conv.tree, "from_arrow")
        if fn.decorator_list:
            raise KeyError("from_arrow is decorated")
        exprs = [n.value for n in ast.walk(fn) if isinstance(n, ast.Assign) and len(n.targets) == 1
                 and ast.unparse(n.targets[0]) == "orso_schema"]
        if len(exprs) != 1:
            raise KeyError("one assignment to orso_schema in from_arrow")
        helper = find_function(schema.tree, "convert_arrow_schema_to_orso_schema")
        rets = [n for n in ast.walk(helper) if isinstance(n, ast.Return)]
        body = [st for st in helper.body if not (isinstance(st, ast.Expr) and isinstance(st.value, ast.Constant))]
        if len(rets) != 1 or len(body) != 1 or not _builds_fresh_schema(rets[0].value):
            raise KeyError("convert_arrow_schema_to_orso_schema: return RelationSchema(… [FlatColumn.from_arrow(f) for f in …])")
        helper_memo = _decorators(helper)
        if _builds_fresh_schema(exprs[0]):
            via_helper = False
        elif isinstance(exprs[0], ast.Call) and ast.unparse(exprs[0].func).split(".")[-1] == "convert_arrow_schema_to_orso_schema" \
                and len(exprs[0].args) == 1 and not exprs[0].keywords:
            via_helper = True
        else:
            raise KeyError("orso_schema = " + ast.unparse(exprs[0])[:60])
        col = find_function(schema.tree, "from_arrow", "FlatColumn")
        col_memo = _decorators(col, plain=("classmethod",))
        crets = [n for n in ast.walk(col) if isinstance(n, ast.Return)]
        if len(crets) != 1 or not (isinstance(crets[0].value, ast.Call) and ast.unparse(crets[0].value.func) in ("FlatColumn", "cls")):
            raise KeyError("FlatColumn.from_arrow: return FlatColumn(…)")
        return [via_helper, helper_memo, col_memo]

    def to_sites():
        # the other direction: `arrow_field` is a plain property, the schema helper / `to_arrow` / `DataFrame.arrow` are undecorated
        af = find_function(schema.tree, "arrow_field", "FlatColumn")
        af_memo = _decorators(af, plain=("property",))
        helper = find_function(schema.tree, "convert_orso_schema_to_arrow_schema")
        h_memo = _decorators(helper)
        ta = _decorators(find_function(conv.tree, "to_arrow")) or _decorators(find_function(frame.tree, "arrow", "DataFrame"))
        return [af_memo, h_memo, ta]

    def conversion_writes_frame():
        # does anything on the conversion path (DataFrame.arrow / .pandas, converters.to_arrow / to_pandas) store
        # something ON the frame - an attribute of `self` / `dataset` assigned, `setattr`, `object.__setattr__`?
        # (rebinding the local name `dataset = dataset.head(size)` is not a write on the frame)
        fns = [find_function(frame.tree, "arrow", "DataFrame"), find_function(frame.tree, "pandas", "DataFrame"),
               find_function(conv.tree, "to_arrow"), find_function(conv.tree, "to_pandas")]
        for fn in fns:
            for n in ast.walk(fn):
                tgts = []
                if isinstance(n, ast.Assign):
                    tgts = n.targets
                elif isinstance(n, (ast.AugAssign, ast.AnnAssign)):
                    tgts = [n.target]
                elif isinstance(n, ast.NamedExpr):
                    tgts = [n.target]
                for t in tgts:
                    for e in (t.elts if isinstance(t, (ast.Tuple, ast.List)) else [t]):
                        while isinstance(e, ast.Subscript):
                            e = e.value
                        if isinstance(e, ast.Attribute) and isinstance(e.value, ast.Name) and e.value.id in ("self", "dataset"):
                            return True
                if isinstance(n, ast.Call) and ast.unparse(n.func).split(".")[-1] in ("setattr", "__setattr__") and n.args \
                        and ast.unparse(n.args[0]) in ("self", "dataset"):
                    return True
        return False

    writes_frame = item("arrowexpr.conversion_writes_frame", conversion_writes_frame, False)

    def schema_edited_after_build():
        # converters.from_arrow: once the columns are built from the FIELDS (`FlatColumn.from_arrow(field) for field in ...`),
        # is anything stored on them / on the schema - an attribute assigned (`column.nullable = ...`, `orso_schema.columns[i].x = ...`),
        # `setattr`, an element of the schema's column list replaced or the list edited?  What a column says would then depend on
        # something else than its field (the cells, the position of the table in the stream ...).
        fn = conv.func("from_arrow")
        built = [a.targets[0].id for a in ast.walk(fn) if isinstance(a, ast.Assign) and len(a.targets) == 1
                 and isinstance(a.targets[0], ast.Name) and "FlatColumn.from_arrow" in ast.unparse(a.value)]
        if not built:
            raise KeyError("from_arrow: no `name = ...FlatColumn.from_arrow(...)...` assignment")
        # ... and the same for `DataFrame.from_arrow`, which passes the schema on to the frame (its locals: `rows, schema`)
        fn2 = find_function(frame.tree, "from_arrow", "DataFrame")
        built = built + ["schema"]
        for n in list(ast.walk(fn)) + list(ast.walk(fn2)):
            tgts = []
            if isinstance(n, ast.Assign):
                tgts = n.targets
            elif isinstance(n, (ast.AugAssign, ast.AnnAssign, ast.NamedExpr)):
                tgts = [n.target]
            elif isinstance(n, ast.Delete):
                tgts = n.targets
            for t in tgts:
                for e in (t.elts if isinstance(t, (ast.Tuple, ast.List)) else [t]):
                    if isinstance(e, (ast.Attribute, ast.Subscript)):
                        return True  # the unchanged function stores into no object at all
            if isinstance(n, ast.Call):
                f = ast.unparse(n.func)
                if f.split(".")[-1] in ("setattr", "__setattr__"):
                    return True
                if f.split(".")[-1] in ("append", "pop", "insert", "remove", "extend", "clear", "sort", "reverse", "update") \
                        and any(f == b_ or f.startswith(b_ + ".") for b_ in built):
                    return True
        return False

    schema_edited = item("arrowexpr.from_arrow.schema_edited_after_build", schema_edited_after_build, False)
    via_helper, helper_memo, col_memo = item("arrowexpr.schema_sites.from_arrow", schema_sites, [False, False, False])
    af_memo, to_helper_memo, to_arrow_memo = item("arrowexpr.schema_sites.to_arrow", to_sites, [False, False, False])
    accepted, itered = item("arrowexpr.from_arrow.input_dispatch", input_dispatch, [["Generator", "list", "tuple"], ["list", "tuple"]])
    ip, isc = item("arrowexpr.init.decimal_defaults", init_defaults, [PINNED_R3["init.precision"], PINNED_R3["init.scale"]])
    g_arrow = item("arrowexpr.glue.DataFrame.arrow", lambda: size_passed(find_function(frame.tree, "arrow", "DataFrame"), "to_arrow"),
                     PINNED_R3["glue.identity"])
    g_pandas = item("arrowexpr.glue.DataFrame.pandas", lambda: size_passed(find_function(frame.tree, "pandas", "DataFrame"), "to_pandas"),
                      PINNED_R3["glue.identity"])
    g_topandas = item("arrowexpr.glue.to_pandas", lambda: size_passed(find_function(conv.tree, "to_pandas"), "arrow"),
                        PINNED_R3["glue.identity"])
    keeps_first = item("arrowexpr.from_arrow.stream_keeps_first", stream_keeps_first, True)
    loops = item("arrowexpr.next.fetch_loops", fetch_loops, True)

    v = {}
    v["stop"] = item("arrowexpr.next.stop_test", stop_test, PINNED["next.stop_test"])
    v["bump"] = item("arrowexpr.next.bump", bump, PINNED["next.bump"])
    v["size_test"] = item("arrowexpr.from_arrow.size_test", size_test, PINNED["from_arrow.size_test"])
    v["size_kinds"] = item("arrowexpr.from_arrow.size_kinds", size_kinds, list(ALL_SIZE_KINDS))
    v["limit_kinds"] = item("arrowexpr.to_arrow.limit_kinds", limit_kinds, list(ALL_SIZE_KINDS))
    v["batch"] = item("arrowexpr.from_arrow.limited_batch", limited_batch, PINNED["from_arrow.limited_batch"])
    v["inf"] = item("arrowexpr.from_arrow.unlimited_is_inf", unlimited_is_inf, True)
    v["limit_test"] = item("arrowexpr.to_arrow.limit_test", limit_test, PINNED["to_arrow.limit_test"])
    v["head_arg"] = item("arrowexpr.to_arrow.head_arg", head_arg, PINNED["to_arrow.head_arg"])
    v["empty_test"] = item("arrowexpr.to_arrow.empty_test", empty_test, PINNED["to_arrow.empty_test"])
    dp, ds = item("arrowexpr.arrow_field.decimal_args", decimal_args,
                    [PINNED["arrow_field.decimal_precision"], PINNED["arrow_field.decimal_scale"]])

    text = HEADER + "namespace Gen.ArrowExpr\n"
    text += "/-- converters.py `_RowsIterator.__next__`: the test under which it raises StopIteration before looking at any row -/\n"
    text += "def nextStopTest (rows_processed max_size : Int) : Prop := %s\n" % v["stop"]
    text += "instance (a b : Int) : Decidable (nextStopTest a b) := by unfold nextStopTest; infer_instance\n"
    text += "/-- …and the value `self.rows_processed` is given whenever a row is returned -/\n"
    text += "def nextBump (rows_processed : Int) : Int := %s\n" % v["bump"]
    text += "/-- converters.py `from_arrow`: the test (on a size that is not None) under which the limit is in force -/\n"
    text += "def sizeTest (size : Int) : Prop := %s\n" % v["size_test"]
    text += "instance (a : Int) : Decidable (sizeTest a) := by unfold sizeTest; infer_instance\n"
    text += "/-- `BATCH_SIZE = …` in that branch -/\n"
    text += "def limitedBatch (size BATCH_SIZE : Int) : Int := %s\n" % v["batch"]
    text += "/-- the other branch sets `size = float(\"inf\")` -/\n"
    text += "def unlimitedIsInf : Bool := %s\n" % ("true" if v["inf"] else "false")
    text += "/-- converters.py `to_arrow`: the guard (on a size that is not None) under which the frame is cut with `head` -/\n"
    text += "def toArrowLimitTest (size : Int) : Prop := %s\n" % v["limit_test"]
    text += "instance (a : Int) : Decidable (toArrowLimitTest a) := by unfold toArrowLimitTest; infer_instance\n"
    text += "/-- …and the argument passed to `dataset.head` -/\n"
    text += "def toArrowHeadArg (size : Int) : Int := %s\n" % v["head_arg"]
    text += "/-- `to_arrow`: the test (on `dataset.rowcount`) under which the columns are built empty instead of by `zip(*rows)` -/\n"
    text += "def toArrowEmptyTest (rowcount : Int) : Prop := %s\n" % v["empty_test"]
    text += "instance (a : Int) : Decidable (toArrowEmptyTest a) := by unfold toArrowEmptyTest; infer_instance\n"
    text += "/-- schema.py `arrow_field`: first argument of `pyarrow.decimal128` from `self.precision` (`none` = Python None) -/\n"
    text += "def decimalPrecisionArg (precision : Option Int) : Option Int := %s\n" % dp
    text += "/-- …and the second from `self.scale` -/\n"
    text += "def decimalScaleArg (scale : Option Int) : Option Int := %s\n" % ds
    text += "/-- schema.py `FlatColumn.__init__`, decimal block: `self.precision` of a DECIMAL column after construction -/\n"
    text += "def initPrecision (precision : Option Int) : Option Int := %s\n" % ip
    text += "/-- …and `self.scale` (`precision` is the precision after its own defaulting) -/\n"
    text += "def initScale (scale : Option Int) (precision : Int) : Option Int := %s\n" % isc
    text += "/-- dataframe.py `DataFrame.arrow(size)`: the size it hands to `to_arrow` -/\n"
    text += "def frameArrowArg (size : Option Int) : Option Int := %s\n" % g_arrow
    text += "/-- dataframe.py `DataFrame.pandas(size)`: the size it hands to `to_pandas` -/\n"
    text += "def framePandasArg (size : Option Int) : Option Int := %s\n" % g_pandas
    text += "/-- converters.py `to_pandas(dataset, size)`: the size it hands to `dataset.arrow` -/\n"
    text += "def toPandasArrowArg (size : Option Int) : Option Int := %s\n" % g_topandas
    text += "/-- converters.py `from_arrow`: the table taken off the stream for the schema is chained back in front of it -/\n"
    text += "def streamKeepsFirst : Bool := %s\n" % ("true" if keeps_first else "false")
    text += "/-- converters.py `__next__`: the next table is fetched in a loop (`while row is None`), not once (`if row is None`) -/\n"
    text += "def fetchLoops : Bool := %s\n" % ("true" if loops else "false")
    text += "/-- converters.py `from_arrow`: the type names in `if not isinstance(tables, (…)): tables = [tables]` -/\n"
    text += "def acceptedShapes : List String := [%s]\n" % ", ".join('"%s"' % x for x in accepted)
    text += "/-- …and in `if isinstance(tables, (…)): tables = iter(tables)` -/\n"
    text += "def iteredShapes : List String := [%s]\n" % ", ".join('"%s"' % x for x in itered)
    def b(x):
        return "true" if x else "false"
    text += "/-- converters.py `from_arrow`: the Orso schema comes from the schema helper (`convert_arrow_schema_to_orso_schema`), not from a `RelationSchema(…)` built in place -/\n"
    text += "def fromArrowSchemaViaHelper : Bool := %s\n" % b(via_helper)
    text += "/-- schema.py `convert_arrow_schema_to_orso_schema` carries a cache decorator: an equal Arrow schema gets the objects returned before -/\n"
    text += "def schemaHelperMemoised : Bool := %s\n" % b(helper_memo)
    text += "/-- schema.py `FlatColumn.from_arrow` carries a cache decorator -/\n"
    text += "def columnFromArrowMemoised : Bool := %s\n" % b(col_memo)
    text += "/-- schema.py `FlatColumn.arrow_field` is kept on / for the column (cached property, cache decorator) instead of computed on every read -/\n"
    text += "def arrowFieldMemoised : Bool := %s\n" % b(af_memo)
    text += "/-- schema.py `convert_orso_schema_to_arrow_schema` carries a cache decorator -/\n"
    text += "def toArrowSchemaHelperMemoised : Bool := %s\n" % b(to_helper_memo)
    text += "/-- converters.py `to_arrow` / dataframe.py `DataFrame.arrow` carry a cache decorator -/\n"
    text += "def toArrowMemoised : Bool := %s\n" % b(to_arrow_memo)
    text += ("/-- something on the conversion path (`DataFrame.arrow` / `.pandas`, `to_arrow` / `to_pandas`) assigns an attribute of the\n"
             "frame it converts (a kept table, a flag ...): a conversion is then not a function of the rows the frame holds -/\n")
    text += "def conversionWritesFrame : Bool := %s\n" % b(writes_frame)
    text += ("/-- converters.py `from_arrow` / dataframe.py `DataFrame.from_arrow` stores something on the columns / the schema after they were built from the Arrow fields\n"
             "(an attribute assigned, `setattr`, the column list edited): a column's attributes then no longer come from its field alone -/\n")
    text += "def schemaEditedAfterBuild : Bool := %s\n" % b(schema_edited)
    def strs(xs):
        return "[" + ", ".join('"%s"' % x for x in xs) + "]"
    text += ("/-- converters.py `from_arrow`: the kinds of argument object (built-in int, bool, int subclass, numpy integer scalar, float,\n"
             "another real number) that pass the *type* test of the size guard (`isinstance(size, …)`, `type(size) is …`); every kind when\n"
             "the guard has none (`if size:`).  A size of a kind not listed here takes the other branch: no limit. -/\n")
    text += "def sizeKinds : List String := %s\n" % strs(v["size_kinds"])
    text += "/-- converters.py `to_arrow`: the same for the guard under which the frame is cut with `head` -/\n"
    text += "def toArrowSizeKinds : List String := %s\n" % strs(v["limit_kinds"])
    text += "end Gen.ArrowExpr\n"
    o.files["ArrowExpr.lean"] = text
