"""C11: guards, bookkeeping and argument expressions lifted from the AST into Lean terms.

`Generated/ArrowExpr.lean` holds the *expressions* the source contains now:

* `_RowsIterator.__next__` (orso/converters.py): the stop test `self.rows_processed >= self.max_size`
  and the update `self.rows_processed += 1`;
* `from_arrow`: the test `if size:`, `BATCH_SIZE = min(size, BATCH_SIZE)` in that branch and
  `size = float("inf")` in the other;
* `to_arrow`: the guard `size is not None and size >= 0`, the argument of `dataset.head(…)` and the
  test `dataset.rowcount == 0` that selects the empty-columns branch;
* `FlatColumn.arrow_field` (orso/schema.py): the two arguments of `pyarrow.decimal128(…)`
  (`self.precision or DECIMAL_PRECISION`, `10 if self.scale is None else self.scale`).

`Model/Arrow.lean` assembles them in a hand-written skeleton; `Props/C11.lean` proves one small
"expression fact" per item (`next_guard_spec`, `next_bookkeeping_spec`, `from_arrow_size_spec`,
`to_arrow_guard_spec`, `decimal_defaulting_spec`) and everything else from those facts, so a changed
operator breaks exactly the fact that names it.  When a statement is not found in the expected shape
the pinned text is written and the item is reported as degraded.
"""
import ast

from ..extract import HEADER, Src
from ..pyexpr import Untranslatable, assignments, find_function, if_tests, to_lean

PINNED = {
    "next.stop_test": "(rows_processed ≥ max_size)",
    "next.bump": "(rows_processed + 1)",
    "from_arrow.size_test": "(size ≠ 0)",
    "from_arrow.limited_batch": "(min size BATCH_SIZE)",
    "from_arrow.unlimited_is_inf": True,
    "to_arrow.limit_test": "(size ≥ 0)",
    "to_arrow.head_arg": "size",
    "to_arrow.empty_test": "(rowcount = 0)",
    "arrow_field.decimal_precision": "(match precision with | none => some (28) | some v => if v = 0 then some (28) else some v)",
    "arrow_field.decimal_scale": "(match scale with | none => some (10) | some v => some v)",
}


def _is_none(n):
    return isinstance(n, ast.Constant) and n.value is None


def truthiness(test, var, env):
    """A Python `if <test>:` on an optional integer `var` that is known not to be None -> Lean Prop.

    `if size:` -> size ≠ 0;  `if size is not None:` -> True;  `if size is not None and <e>` -> <e>;
    anything else goes through pyexpr.
    """
    if isinstance(test, ast.Name) and test.id == var:
        return "(%s ≠ 0)" % env[var]
    if isinstance(test, ast.Compare) and len(test.ops) == 1 and isinstance(test.ops[0], ast.IsNot) \
            and ast.unparse(test.left) == var and _is_none(test.comparators[0]):
        return "True"
    if isinstance(test, ast.BoolOp) and isinstance(test.op, ast.And):
        parts = [truthiness(v, var, env) for v in test.values]
        parts = [p for p in parts if p != "True"] or ["True"]
        return parts[0] if len(parts) == 1 else "(" + " ∧ ".join(parts) + ")"
    return to_lean(test, env)


def defaulting(node, attr, env):
    """An argument of pyarrow.decimal128 computed from the optional attribute `self.<attr>` -> Lean
    term of type `Option Int` in the variable `<attr> : Option Int` (None = the call would raise)."""
    me = "self." + attr

    def is_me(n):
        return ast.unparse(n) == me

    if is_me(node):
        return attr
    if isinstance(node, ast.BoolOp) and isinstance(node.op, ast.Or) and len(node.values) == 2 and is_me(node.values[0]):
        d = to_lean(node.values[1], env)  # Python `x or d`: d when x is None or 0
        return "(match %s with | none => some (%s) | some v => if v = 0 then some (%s) else some v)" % (attr, d, d)
    if isinstance(node, ast.IfExp) and isinstance(node.test, ast.Compare) and len(node.test.ops) == 1 \
            and is_me(node.test.left) and _is_none(node.test.comparators[0]):
        if isinstance(node.test.ops[0], ast.Is) and is_me(node.orelse):      # d if x is None else x
            return "(match %s with | none => some (%s) | some v => some v)" % (attr, to_lean(node.body, env))
        if isinstance(node.test.ops[0], ast.IsNot) and is_me(node.body):     # x if x is not None else d
            return "(match %s with | none => some (%s) | some v => some v)" % (attr, to_lean(node.orelse, env))
    raise Untranslatable("decimal argument " + ast.unparse(node))


def generate(o):
    conv = Src("orso/converters.py")
    schema = Src("orso/schema.py")
    prec_default = o.json.get("arrow.DECIMAL_PRECISION", 28)

    # ---- _RowsIterator.__next__
    env_next = {"self.rows_processed": "rows_processed", "self.max_size": "max_size"}

    def next_fn():
        return find_function(conv.tree, "__next__", "_RowsIterator")

    def stop_test():
        fn = next_fn()
        st = fn.body[0] if fn.body else None
        # the first statement: `if <test>: raise StopIteration()`
        if isinstance(st, ast.Expr) and isinstance(st.value, ast.Constant):  # docstring
            st = fn.body[1]
        if isinstance(st, ast.If) and len(st.body) == 1 and isinstance(st.body[0], ast.Raise) \
                and "StopIteration" in ast.unparse(st.body[0]) and not st.orelse:
            return to_lean(st.test, env_next)
        raise KeyError("if <rows_processed vs max_size>: raise StopIteration()")

    def bump():
        fn = next_fn()
        found = assignments(fn, "self.rows_processed")
        if not found:
            raise KeyError("self.rows_processed update")
        texts = {to_lean(e, env_next) for _, e in found}
        if len(texts) != 1:
            raise KeyError("differing self.rows_processed updates")
        return texts.pop()

    # ---- from_arrow
    env_fa = {"size": "size", "BATCH_SIZE": "BATCH_SIZE"}

    def fa_if():
        fn = find_function(conv.tree, "from_arrow")
        for st in if_tests(fn):
            body_targets = [ast.unparse(s.targets[0]) for s in st.body if isinstance(s, ast.Assign) and len(s.targets) == 1]
            if "BATCH_SIZE" in body_targets:
                return st
        raise KeyError("if size: BATCH_SIZE = …")

    def size_test():
        return truthiness(fa_if().test, "size", env_fa)

    def limited_batch():
        st = fa_if()
        for s in st.body:
            if isinstance(s, ast.Assign) and ast.unparse(s.targets[0]) == "BATCH_SIZE":
                return to_lean(s.value, env_fa)
        raise KeyError("BATCH_SIZE = …")

    def unlimited_is_inf():
        st = fa_if()
        for s in st.orelse:
            if isinstance(s, ast.Assign) and ast.unparse(s.targets[0]) == "size":
                txt = ast.unparse(s.value).replace('"', "'")
                if txt in ("float('inf')", "math.inf", "inf"):
                    return True
                raise KeyError("size = " + txt)
        raise KeyError("else: size = float('inf')")

    # ---- to_arrow
    env_ta = {"size": "size"}

    def ta_if():
        fn = find_function(conv.tree, "to_arrow")
        for st in if_tests(fn):
            if any("head(" in ast.unparse(s) or "slice(" in ast.unparse(s) for s in st.body) and "size" in ast.unparse(st.test):
                return st
        raise KeyError("if size …: dataset = dataset.head(size)")

    def limit_test():
        return truthiness(ta_if().test, "size", env_ta)

    def head_arg():
        st = ta_if()
        for s in st.body:
            if isinstance(s, ast.Assign) and isinstance(s.value, ast.Call) and ast.unparse(s.value.func) == "dataset.head" \
                    and ast.unparse(s.targets[0]) == "dataset" and len(s.value.args) == 1 and not s.value.keywords:
                return to_lean(s.value.args[0], env_ta)
        raise KeyError("dataset = dataset.head(<arg>)")

    def empty_test():
        # `if dataset.rowcount == 0: arrays = [list() …] else: arrays = list(zip(*dataset._rows))`
        fn = find_function(conv.tree, "to_arrow")
        for st in if_tests(fn):
            if "rowcount" not in ast.unparse(st.test):
                continue
            body = [x for x in st.body if isinstance(x, ast.Assign) and ast.unparse(x.targets[0]) == "arrays"]
            other = [x for x in st.orelse if isinstance(x, ast.Assign) and ast.unparse(x.targets[0]) == "arrays"]
            if len(body) == 1 and len(other) == 1 and "zip(" in ast.unparse(other[0].value) \
                    and "zip(" not in ast.unparse(body[0].value):
                return to_lean(st.test, {"dataset.rowcount": "rowcount"})
        raise KeyError("if dataset.rowcount == 0: arrays = [...] else: arrays = list(zip(*rows))")

    # ---- arrow_field: the decimal128 call
    env_af = {"DECIMAL_PRECISION": "%d" % prec_default}

    def decimal_args():
        fn = find_function(schema.tree, "arrow_field", "FlatColumn")
        calls = [n for n in ast.walk(fn) if isinstance(n, ast.Call) and isinstance(n.func, ast.Attribute)
                 and n.func.attr in ("decimal128", "decimal256")]
        if len(calls) != 1 or len(calls[0].args) != 2 or calls[0].keywords:
            raise KeyError("the pyarrow.decimal128(<precision>, <scale>) call")
        return [defaulting(calls[0].args[0], "precision", env_af), defaulting(calls[0].args[1], "scale", env_af)]

    v = {}
    v["stop"] = o.item("arrowexpr.next.stop_test", stop_test, PINNED["next.stop_test"])
    v["bump"] = o.item("arrowexpr.next.bump", bump, PINNED["next.bump"])
    v["size_test"] = o.item("arrowexpr.from_arrow.size_test", size_test, PINNED["from_arrow.size_test"])
    v["batch"] = o.item("arrowexpr.from_arrow.limited_batch", limited_batch, PINNED["from_arrow.limited_batch"])
    v["inf"] = o.item("arrowexpr.from_arrow.unlimited_is_inf", unlimited_is_inf, True)
    v["limit_test"] = o.item("arrowexpr.to_arrow.limit_test", limit_test, PINNED["to_arrow.limit_test"])
    v["head_arg"] = o.item("arrowexpr.to_arrow.head_arg", head_arg, PINNED["to_arrow.head_arg"])
    v["empty_test"] = o.item("arrowexpr.to_arrow.empty_test", empty_test, PINNED["to_arrow.empty_test"])
    dp, ds = o.item("arrowexpr.arrow_field.decimal_args", decimal_args,
                    [PINNED["arrow_field.decimal_precision"], PINNED["arrow_field.decimal_scale"]])

    text = HEADER + "namespace Gen.ArrowExpr\n"
    text += "/-- converters.py `_RowsIterator.__next__`: the test under which it raises StopIteration before looking at any row -/\n"
    text += "def nextStopTest (rows_processed max_size : Int) : Prop := %s\n" % v["stop"]
    text += "instance (a b : Int) : Decidable (nextStopTest a b) := by unfold nextStopTest; infer_instance\n"
    text += "/-- …and the value `self.rows_processed` is given whenever a row is returned -/\n"
    text += "def nextBump (rows_processed : Int) : Int := %s\n" % v["bump"]
    text += "/-- converters.py `from_arrow`: the test (on a size that is not None) under which the limit is in force -/\n"
    text += "def sizeTest (size : Int) : Prop := %s\n" % v["size_test"]
    text += "instance (a : Int) : Decidable (sizeTest a) := by unfold sizeTest; infer_instance\n"
    text += "/-- `BATCH_SIZE = …` in that branch -/\n"
    text += "def limitedBatch (size BATCH_SIZE : Int) : Int := %s\n" % v["batch"]
    text += "/-- the other branch sets `size = float(\"inf\")` -/\n"
    text += "def unlimitedIsInf : Bool := %s\n" % ("true" if v["inf"] else "false")
    text += "/-- converters.py `to_arrow`: the guard (on a size that is not None) under which the frame is cut with `head` -/\n"
    text += "def toArrowLimitTest (size : Int) : Prop := %s\n" % v["limit_test"]
    text += "instance (a : Int) : Decidable (toArrowLimitTest a) := by unfold toArrowLimitTest; infer_instance\n"
    text += "/-- …and the argument passed to `dataset.head` -/\n"
    text += "def toArrowHeadArg (size : Int) : Int := %s\n" % v["head_arg"]
    text += "/-- `to_arrow`: the test (on `dataset.rowcount`) under which the columns are built empty instead of by `zip(*rows)` -/\n"
    text += "def toArrowEmptyTest (rowcount : Int) : Prop := %s\n" % v["empty_test"]
    text += "instance (a : Int) : Decidable (toArrowEmptyTest a) := by unfold toArrowEmptyTest; infer_instance\n"
    text += "/-- schema.py `arrow_field`: first argument of `pyarrow.decimal128` from `self.precision` (`none` = Python None) -/\n"
    text += "def decimalPrecisionArg (precision : Option Int) : Option Int := %s\n" % dp
    text += "/-- …and the second from `self.scale` -/\n"
    text += "def decimalScaleArg (scale : Option Int) : Option Int := %s\n" % ds
    text += "end Gen.ArrowExpr\n"
    o.files["ArrowExpr.lean"] = text
