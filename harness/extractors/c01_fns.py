"""C01: `from_bytes_cython` and the framing part of `Row.as_bytes`, translated statement by statement from the
working tree on every run into `Generated/RowFns.lean` (namespace `Gen.RowFns`).

* `from_bytes_cython` -- compiled.pyx is de-cythonised by `harness/pyxshadow.translate` (the same text the
  source-level shadow decoder executes), parsed as Python and translated: the order of the statements, the
  two guard expressions with their operators / mask / value / `or`, the OR/shift arithmetic of `record_size`
  (plain integer arithmetic; its C type `int` is rendered as `cInt32`), the texts of the two `DataError`s
  (-> `malformed` / `badLength`, the way the harness classifies them), the slice handed to `unpackb`, the
  `cdef list` cast, the loop with its test `isinstance(item, list) and len(item) == 2 and item[0] == "…"`,
  the argument of `datetime.fromtimestamp`, the returned tuple.
* `as_bytes_frame`    -- `Row.as_bytes` after `packb(tuple(self), …)` and `time.time_ns()` (the payload and the
  clock are parameters): the cap test, the `+` chain of the returned value in source order with both
  `to_bytes(width, order)` calls.

`Props/C01.lean` proves `generated_from_bytes_eq_model` and `generated_as_bytes_eq_model`: the translations equal
`RowCodec.decodeRow` / `RowBytes.encodeFrame`, the functions every C01 theorem is about.  A change of the source
that changes what these functions compute breaks one of the two (a named theorem) in addition to the failing
input the correspondence finds; a statement shape the translator does not know raises `Untranslatable`, the
pinned translation (`pinned/c01_fns.json`, of the tree as it is) is used and the item is reported as degraded.
"""
import ast
import json
import os
import re

from .. import core, pystmt
from ..extract import HEADER, Src, lean_str
from ..pyexpr import Untranslatable

PINNED_FILE = os.path.join(os.path.dirname(os.path.abspath(__file__)), "pinned", "c01_fns.json")

BITOPS = {ast.BitOr: "|||", ast.BitAnd: "&&&", ast.BitXor: "^^^", ast.LShift: "<<<", ast.RShift: ">>>"}


def _u(n):
    return ast.unparse(n)


def _nodoc(body):
    return [b for b in body if not (isinstance(b, ast.Expr) and isinstance(b.value, ast.Constant))]


def _call(n, name, nargs=None):
    return isinstance(n, ast.Call) and _u(n.func) == name and not n.keywords and (nargs is None or len(n.args) == nargs)


def _int_const(n):
    return isinstance(n, ast.Constant) and isinstance(n.value, int) and not isinstance(n.value, bool) and n.value >= 0


# --------------------------------------------------------------------------- from_bytes_cython


def shadow_source(pyx_text):
    """compiled.pyx -> the Python text of `from_bytes_cython` (harness/pyxshadow.py)"""
    from .. import pyxshadow

    lines = pyx_text.split("\n")
    starts = [i for i, l in enumerate(lines) if re.match(r"^(cpdef|def)\s", l)]
    for k, st in enumerate(starts):
        if not re.match(r"^(?:cpdef|def)\s+(?:[\w\.\[\], =]+?\s+)??from_bytes_cython\s*\(", lines[st]):
            continue
        end = starts[k + 1] if k + 1 < len(starts) else len(lines)
        body = []
        for l in lines[st:end]:
            if body and l and not l.startswith((" ", "\t")) and not l.startswith("#"):
                break
            body.append(l)
        try:
            _, py = pyxshadow.translate(body)
        except pyxshadow.ShadowUnavailable as e:
            raise Untranslatable("pyxshadow: %s" % e)
        return py
    raise Untranslatable("from_bytes_cython not found")


def t_from_bytes(pyx):
    py = shadow_source(pyx.text)
    try:
        mod = ast.parse(py)
    except SyntaxError as e:
        raise Untranslatable("de-cythonised text does not parse: %s" % e)
    fn = mod.body[0]
    if not isinstance(fn, ast.FunctionDef) or [a.arg for a in fn.args.args] != ["data"]:
        raise Untranslatable("from_bytes_cython signature")
    S = {"ptr": None, "acc": None, "raw": None}

    def charptr_index(n):
        """`_uget(data_ptr, K, 'charptr')` -> K"""
        if _call(n, "_uget", 3) and S["ptr"] is not None and _u(n.args[0]) == S["ptr"] and _int_const(n.args[1]) \
                and isinstance(n.args[2], ast.Constant) and n.args[2].value == "charptr":
            return n.args[1].value
        return None

    def item_index(n, var):
        if isinstance(n, ast.Subscript) and isinstance(n.value, ast.Name) and n.value.id == var and _int_const(n.slice):
            return n.slice.value
        return None

    loopvar = [None]

    def hook(n, go):
        if _u(n) == "_ob_size(data)":
            return "((List.length data : Nat) : Int)"
        if _call(n, "_uchar", 1):
            k = charptr_index(n.args[0])
            if k is None:
                raise Untranslatable("unsigned char cast of %s" % _u(n.args[0])[:40])
            return "(byteAt data %d)" % k
        if charptr_index(n) is not None:
            # a bare `data_ptr[k]` is a *signed* char: only its masked low bits are the same as the unsigned byte's
            raise Untranslatable("signed char read %s outside `& mask`" % _u(n)[:40])
        if isinstance(n, ast.BinOp) and type(n.op) in BITOPS:
            def side(x, other):
                k = charptr_index(x)
                if k is not None:
                    if isinstance(n.op, ast.BitAnd) and _int_const(other) and other.value <= 0xFF:
                        return "(byteAt data %d)" % k
                    raise Untranslatable("signed char read %s outside `& mask`" % _u(x)[:40])
                return go(x)
            return "(%s %s %s)" % (side(n.left, n.right), BITOPS[type(n.op)], side(n.right, n.left))
        if isinstance(n, ast.Subscript) and isinstance(n.value, ast.Name) and n.value.id == "data" and isinstance(n.slice, ast.Slice) \
                and n.slice.lower is not None and n.slice.upper is None and n.slice.step is None:
            return "(data.drop %s)" % go(n.slice.lower)
        v = loopvar[0]
        if v is not None:
            if _call(n, "isinstance", 2) and _u(n.args[0]) == v and _u(n.args[1]) == "list":
                return "(isList %s = true)" % v
            if _call(n, "len", 1) and _u(n.args[0]) == v:
                return "(pyLen %s)" % v
            if isinstance(n, ast.Compare) and len(n.ops) == 1 and isinstance(n.ops[0], ast.Eq) and item_index(n.left, v) is not None \
                    and isinstance(n.comparators[0], ast.Constant) and isinstance(n.comparators[0].value, str):
                return "((itemAt %s %d) = some (PyVal.str %s))" % (v, item_index(n.left, v), lean_str(n.comparators[0].value))
            if _call(n, "datetime.fromtimestamp", 1) and item_index(n.args[0], v) is not None:
                return "(fromtimestamp (itemAt %s %d))" % (v, item_index(n.args[0], v))
            if item_index(n, v) is not None or (isinstance(n, ast.Subscript) and _u(n.value) == v):
                raise Untranslatable("use of %s" % _u(n)[:40])
            if isinstance(n, ast.BoolOp) and isinstance(n.op, ast.And) and any(v in _u(x) for x in n.values):
                # `len(item)` / `item[k]` are total only behind the list test: it must come first (Python short-circuits)
                if not (_call(n.values[0], "isinstance", 2) and _u(n.values[0].args[0]) == v and _u(n.values[0].args[1]) == "list"):
                    raise Untranslatable("item test does not start with isinstance(%s, list)" % v)
        return None

    # which `raise DataError(…)` is the length error: the one(s) in the body of an `if` whose test reads the local that
    # holds the declared payload length (built from `unsigned char` operands) -- by structure, not by the message text
    size_locals = {s_.targets[0].id for s_ in ast.walk(fn) if isinstance(s_, ast.Assign) and len(s_.targets) == 1
                   and isinstance(s_.targets[0], ast.Name) and isinstance(s_.value, ast.BinOp) and "_uchar(" in _u(s_.value)}
    length_raises = set()
    for n_ in ast.walk(fn):
        if isinstance(n_, ast.If) and any(isinstance(x, ast.Name) and x.id in size_locals for x in ast.walk(n_.test)):
            for b_ in n_.body:
                for x in ast.walk(b_):
                    if isinstance(x, ast.Raise):
                        length_raises.add(id(x))

    def raise_(s, ex):
        e = s.exc
        if not (isinstance(e, ast.Call) and _u(e.func) == "DataError" and len(e.args) <= 1 and not e.keywords):
            raise Untranslatable("raise %s" % _u(s)[:50])
        return "(Except.error DecErr.badLength)" if id(s) in length_raises else "(Except.error DecErr.malformed)"

    def ret(v, ex):
        if v is not None and _call(v, "tuple", 1) and S["acc"] is not None and _u(v.args[0]) == S["acc"]:
            return "(Except.ok %s)" % S["acc"]
        raise Untranslatable("return %s" % (_u(v)[:40] if v is not None else ""))

    def loop_body(stmts, ex, acc, pad):
        stmts = _nodoc(stmts)
        if len(stmts) != 1:
            raise Untranslatable("loop body: one statement per branch expected")
        s = stmts[0]
        if isinstance(s, ast.If):
            return "if %s then\n%s  %s\n%selse\n%s  %s" % (ex.cond(s.test), pad, loop_body(s.body, ex, acc, pad + "  "), pad, pad,
                                                         loop_body(s.orelse, ex, acc, pad + "  "))
        if isinstance(s, ast.Expr) and isinstance(s.value, ast.Call) and _u(s.value.func) == acc + ".append" and len(s.value.args) == 1 \
                and not s.value.keywords:
            a = s.value.args[0]
            if isinstance(a, ast.Name) and a.id == loopvar[0]:
                return "(some (%s ++ [Item.val %s]))" % (acc, a.id)
            if _call(a, "datetime.fromtimestamp", 1):
                return "((%s).map (fun d => (%s ++ [d])))" % (ex.go(a), acc)
        raise Untranslatable("loop statement %s" % _u(s)[:50])

    def stmt_hook(s, rest, k, depth, st):
        ex = st.ex
        pad = st.ind * depth
        if not (isinstance(s, ast.Assign) and len(s.targets) == 1 and isinstance(s.targets[0], ast.Name)):
            if isinstance(s, ast.For) and not s.orelse and isinstance(s.target, ast.Name) and isinstance(s.iter, ast.Name) \
                    and S["raw"] is not None and s.iter.id == S["raw"] and S["acc"] is not None:
                acc = S["acc"]
                saved = ex.typestate()
                loopvar[0] = s.target.id
                ex.bound.add(s.target.id)
                try:
                    body = loop_body(s.body, ex, acc, pad + st.ind * 2)
                finally:
                    loopvar[0] = None
                    ex.restore(saved)
                tail = st.block(rest, k, depth + 1)
                return ("match (%s.foldl (fun acc %s => acc.bind (fun %s =>\n%s%s%s)) (some %s)) with\n%s| none => (Except.error DecErr.payloadError)\n"
                        "%s| some %s =>\n%s%s%s" % (S["raw"], s.target.id, acc, pad, st.ind * 2, body, acc, pad, pad, acc, pad, st.ind, tail))
            return None
        name, v = s.targets[0].id, s.value
        if name == "data" and _call(v, "_arg", 3) and _u(v.args[1]) == "data":
            return st.block(rest, k, depth)
        if _call(v, "_CharPtr", 1) and _u(v.args[0]) == "data":
            S["ptr"] = name
            return st.block(rest, k, depth)
        if name in ("data", S["ptr"]):
            raise Untranslatable("%s is reassigned" % name)

        def let(text):
            saved = ex.typestate()
            ex.bound.add(name)
            try:
                body = st.block(rest, k, depth)
            finally:
                ex.restore(saved)
            return "let %s\n%s%s" % (text, pad, body)

        if _int_const(v):
            return let("%s : Nat := %d" % (name, v.value))
        if isinstance(v, ast.BinOp) and type(v.op) in BITOPS and "_uchar(" in _u(v):
            # operands of type `unsigned char` are promoted to C `int`: the value is that of a 32-bit signed expression
            return let("%s : Int := (cInt32 %s)" % (name, ex.go(v)))
        if _call(v, "_cdef_cast", 2) and _u(v.args[1]) == "'list'":
            inner = v.args[0]
            if isinstance(inner, ast.List) and not inner.elts:
                S["acc"] = name
                return let("%s : List Item := []" % name)
            if _call(inner, "unpackb", 1):
                S["raw"] = name
                saved = ex.typestate()
                ex.bound.add(name)
                try:
                    body = st.block(rest, k, depth + 1)
                finally:
                    ex.restore(saved)
                return ("match (castList (unpackb %s)) with\n%s| none => (Except.error DecErr.payloadError)\n%s| some %s =>\n%s%s%s"
                        % (ex.go(inner.args[0]), pad, pad, name, pad, st.ind, body))
            raise Untranslatable("cdef list %s = %s" % (name, _u(inner)[:40]))
        return None

    ex = pystmt.Expr(hook=hook)
    ex.bound.add("data")
    body = pystmt.Stmts(ex, ret=ret, raise_=raise_, stmt_hook=stmt_hook).block(_nodoc(fn.body), "FALLOFF", 1)
    if "FALLOFF" in body:
        raise Untranslatable("from_bytes_cython can fall off its end")
    return ("/-- compiled.pyx `from_bytes_cython`, statement by statement -/\n"
            "def from_bytes_cython (data : RowBytes.Bytes) : Except DecErr (List Item) :=\n  %s\n" % body)


# --------------------------------------------------------------------------- Row.as_bytes after packb / time_ns


LEAN_WORDS = set("""instance end at from have show fun let open where with then do theorem def namespace section variable universe class
structure deriving in match if else mutual private protected export local prefix infix notation macro syntax by this example abbrev
inductive axiom opaque import return for unless try catch finally calc suffices obtain exact using Type Prop Sort""".split())


def lname(name):
    """a Python local as a Lean binder"""
    return name + "_" if name in LEAN_WORDS else name


def imported_names(row):
    """bound name -> `module.name` for `from M import N [as A]`, bound name -> `M` for `import M [as A]` (module level)"""
    out = {}
    for node in (row.tree.body if row.tree is not None else []):
        if isinstance(node, ast.ImportFrom) and node.module and node.level == 0:
            for a in node.names:
                out[a.asname or a.name] = "%s.%s" % (node.module, a.name)
        elif isinstance(node, ast.Import):
            for a in node.names:
                out[a.asname or a.name.split(".")[0]] = a.name if a.asname else a.name.split(".")[0]
    return out


def _self_attr_nodes(fn):
    return [x for x in ast.walk(fn) if isinstance(x, ast.Attribute) and isinstance(x.value, ast.Name) and x.value.id == "self"]


def self_attrs(row):
    """(size attribute, record attribute or None): the attributes of `self` that are the *state of the row object* as far as
    `Row.nbytes` / `Row.as_bytes` go.  Size attribute = what `nbytes` returns (`return self.X`) or, failing that, the one attribute
    `nbytes` touches.  Record attribute = another attribute that one of the two functions *assigns* (`self.Y = …`): a value kept
    on the object between calls (there is none on the tree as it is).  More than one such attribute: not translated."""
    try:
        nb = row.func("nbytes", "Row")
    except KeyError:
        return None, None
    try:
        ab = row.func("as_bytes", "Row")
    except KeyError:
        ab = None
    in_nb = {x.attr for x in _self_attr_nodes(nb) if x.attr != "as_bytes"}
    returned = {s.value.attr for s in ast.walk(nb) if isinstance(s, ast.Return) and isinstance(s.value, ast.Attribute)
                and isinstance(s.value.value, ast.Name) and s.value.value.id == "self"}
    stored = {x.attr for fn in (nb, ab) if fn is not None for x in _self_attr_nodes(fn) if isinstance(x.ctx, ast.Store)}
    if len(returned & in_nb) == 1:
        size = next(iter(returned & in_nb))
    elif len(in_nb) == 1:
        size = next(iter(in_nb))
    else:
        sized = {t.attr for s in ast.walk(nb) if isinstance(s, ast.Assign) and len(s.targets) == 1 for t in [s.targets[0]]
                 if isinstance(t, ast.Attribute) and isinstance(t.value, ast.Name) and t.value.id == "self" and _call(s.value, "len", 1)}
        if len(sized) != 1:
            return None, None
        size = next(iter(sized))
    others = stored - {size}  # an attribute that is only read (a class-level constant, a method) is not state of these two functions
    if len(others) > 1:
        raise Untranslatable("several attributes of self besides the size: %s" % ", ".join(sorted(others)))
    return size, (next(iter(others)) if others else None)


def cache_attr(row):
    """the attribute of `self` that `Row.nbytes` keeps the size in (read and written there)"""
    try:
        return self_attrs(row)[0]
    except Untranslatable:
        return None


def t_as_bytes(row, whole=False):
    """`whole=False`: after `packb` / `time_ns` (payload and clock are parameters).  `whole=True`: the `packb` call is part of
    the translation -- which serialiser the name is bound to (the module-level import), that its argument is `tuple(self)`, its
    `option=` flags and whether it has a `default=`; the argument is the row's items, and the size `nbytes` keeps on the
    object (`cached`) is an argument too: a read of it inside `as_bytes` shows in the translation."""
    fn = row.func("as_bytes", "Row")
    S = {"payload": None, "ts": None, "chains": {}}
    imports = imported_names(row)
    cattr, kattr = self_attrs(row) if whole else (None, None)

    def is_kept(n):
        return whole and kattr is not None and isinstance(n, ast.Attribute) and isinstance(n.value, ast.Name) and n.value.id == "self" \
            and n.attr == kattr and isinstance(n.ctx, ast.Load)

    def is_cached(n):
        return whole and cattr is not None and isinstance(n, ast.Attribute) and isinstance(n.value, ast.Name) and n.value.id == "self" \
            and n.attr == cattr and isinstance(n.ctx, ast.Load)

    def hook(n, go):
        if _call(n, "len", 1) and isinstance(n.args[0], ast.Name) and n.args[0].id == S["payload"]:
            return "(List.length %s)" % n.args[0].id
        if isinstance(n, ast.BoolOp) and isinstance(n.op, ast.Or) and len(n.values) == 2 and is_cached(n.values[0]):
            return "(RowGlue.orSize cached %s)" % go(n.values[1])
        if isinstance(n, ast.IfExp) and is_cached(n.body) and isinstance(n.test, ast.Compare) and len(n.test.ops) == 1 \
                and isinstance(n.test.ops[0], ast.IsNot) and is_cached(n.test.left) and isinstance(n.test.comparators[0], ast.Constant) \
                and n.test.comparators[0].value is None:
            return "(cached.getD %s)" % go(n.orelse)
        # a record kept on the object (`self.<record attribute>`, see `self_attrs`): tests on it; `return self.<it>` is in `ret`
        if isinstance(n, ast.Compare) and len(n.ops) == 1 and is_kept(n.left) and isinstance(n.comparators[0], ast.Constant) \
                and n.comparators[0].value is None:
            if isinstance(n.ops[0], (ast.Is, ast.Eq)):
                return "(kept = none)"
            if isinstance(n.ops[0], (ast.IsNot, ast.NotEq)):
                return "(kept ≠ none)"
        if is_kept(n):
            return "(RowGlue.truthyRec kept = true)"  # in a boolean position (elsewhere the text does not elaborate: degrades)
        if isinstance(n, ast.Attribute) and isinstance(n.value, ast.Name) and n.value.id == "self" and isinstance(n.ctx, ast.Load):
            raise Untranslatable("read of self.%s" % n.attr)
        return None

    def raise_(s, ex):
        e = s.exc
        if isinstance(e, ast.Call) and _u(e.func) == "DataError":
            return "(Except.error EncErr.tooLarge)"
        raise Untranslatable("raise %s" % _u(s)[:50])

    def chain(v, ex):
        """operands of a `+` chain of byte strings, in source order (each an `Except EncErr Bytes` term)"""
        parts = []

        def flat(e):
            if isinstance(e, ast.BinOp) and isinstance(e.op, ast.Add):
                flat(e.left)
                flat(e.right)
            elif isinstance(e, ast.Name) and e.id in S["chains"]:
                parts.extend(S["chains"][e.id])  # a local holding part of the record (e.g. `header = PREFIX + … + …`)
            elif isinstance(e, ast.Name) and e.id == "HEADER_PREFIX":
                parts.append("Except.ok Gen.Row.headerPrefix")
            elif isinstance(e, ast.Name) and e.id == S["payload"]:
                parts.append("Except.ok %s" % e.id)
            elif isinstance(e, ast.Call) and isinstance(e.func, ast.Attribute) and e.func.attr == "to_bytes" and len(e.args) == 2 \
                    and not e.keywords and _int_const(e.args[0]) and isinstance(e.args[1], ast.Constant) and isinstance(e.args[1].value, str) \
                    and isinstance(e.func.value, ast.Name) and e.func.value.id in ex.bound:
                parts.append("(intToBytes %s %d %s)" % (e.func.value.id, e.args[0].value, lean_str(e.args[1].value)))
            else:
                raise Untranslatable("operand %s" % _u(e)[:40])

        flat(v)
        return parts

    def ret(v, ex):
        if v is None:
            raise Untranslatable("return without a value")
        if is_kept(v):
            return "(RowGlue.retKept kept)"
        return "(catBytes [%s])" % ", ".join(chain(v, ex))

    def stmt_hook(s, rest, k, depth, st):
        ex = st.ex
        pad = st.ind * depth
        if isinstance(s, ast.FunctionDef):
            return st.block(rest, k, depth)  # `serialize`, the `default=` callback of packb (outside the value domain)
        tgt = s.targets[0] if isinstance(s, ast.Assign) and len(s.targets) == 1 else (s.target if isinstance(s, (ast.AnnAssign, ast.AugAssign)) else None)
        if isinstance(tgt, ast.Attribute) and isinstance(tgt.value, ast.Name) and tgt.value.id == "self" and getattr(s, "value", None) is not None:
            # `self.name = value`: possible only on a row object that has a `__dict__` (RowGlue.setAttr); the value must be an
            # expression the translator knows (it is evaluated first, and could raise), the stored attribute must not be read later
            if isinstance(s, ast.AugAssign):
                raise Untranslatable("augmented assignment to self.%s" % tgt.attr)
            if whole and kattr is not None and tgt.attr == kattr:
                # `self.<record attribute> = <record>` inside `as_bytes`: the record (a `+` chain) is evaluated, stored (possible
                # only with a `__dict__`), and is what a later `self.<record attribute>` of this call reads.  `as_bytes` answers a
                # record, not a state: that the record is still there at the NEXT call is not shown here -- the read at the top
                # of the function (`kept`, any value) is what the theorems see, the `obj` cases with edits exercise the rest.
                if isinstance(s, ast.AnnAssign):
                    raise Untranslatable("annotated assignment to self.%s" % tgt.attr)
                try:
                    parts = chain(s.value, ex)
                except Untranslatable:
                    parts = None
                    # not a record: an attribute nobody reads is only a store (`setAttr` below); one that is read is state we cannot show
                    fns = [fn, row.func("nbytes", "Row")]
                    if any(x.attr == tgt.attr and isinstance(x.ctx, ast.Load) for f_ in fns for x in _self_attr_nodes(f_)):
                        raise
            if whole and kattr is not None and tgt.attr == kattr and parts is not None:
                body = st.block(rest, k, depth + 2)
                return ("match (catBytes [%s]) with\n%s| Except.error e_ => (Except.error e_)\n%s| Except.ok v_ =>\n%s%s(RowGlue.setAttr selfHasDict (\n%s%s"
                        "let kept : Option RowBytes.Bytes := some v_\n%s%s%s))"
                        % (", ".join(parts), pad, pad, pad, st.ind, pad, st.ind * 2, pad, st.ind * 2, body))
            ex.go(s.value)
            if any(isinstance(x, ast.Attribute) and isinstance(x.value, ast.Name) and x.value.id == "self" and x.attr == tgt.attr
                   and isinstance(x.ctx, ast.Load) for r in rest for x in ast.walk(r)):
                raise Untranslatable("self.%s is read after it was assigned" % tgt.attr)
            return "(RowGlue.setAttr selfHasDict (\n%s%s%s))" % (pad, st.ind, st.block(rest, k, depth + 1))
        if isinstance(s, ast.Assign) and len(s.targets) == 1 and isinstance(s.targets[0], ast.Name) and isinstance(s.value, ast.BinOp) \
                and isinstance(s.value.op, ast.Add) and "to_bytes" in _u(s.value) and s.targets[0].id not in (S["payload"], S["ts"]):
            # a local that holds part of the record: its operands are spliced in where it is used (evaluated here, i.e.
            # before whatever follows: the order of the operands is the order of evaluation either way)
            name = s.targets[0].id
            if any(isinstance(x, ast.Name) and x.id == name and isinstance(x.ctx, ast.Store) for r in rest for x in ast.walk(r)):
                raise Untranslatable("%s is assigned twice" % name)
            S["chains"][name] = chain(s.value, ex)
            return st.block(rest, k, depth)
        if isinstance(s, ast.Assign) and len(s.targets) == 1 and isinstance(s.targets[0], ast.Name) and isinstance(s.value, ast.Call):
            name, v = s.targets[0].id, s.value
            f = v.func
            fname = f.id if isinstance(f, ast.Name) else (f.attr if isinstance(f, ast.Attribute) else None)
            param = None
            if fname == "packb":
                if not (v.args and _u(v.args[0]) == "tuple(self)" and len(v.args) == 1 and {kw.arg for kw in v.keywords} <= {"option", "default"}):
                    raise Untranslatable("packb arguments %s" % _u(v)[:60])
                S["payload"], param = name, "payload"
                if whole:
                    # which function the name is bound to: the module-level import
                    if isinstance(f, ast.Name):
                        ser = imports.get(f.id)
                    else:
                        ser = "%s.%s" % (imports.get(_u(f.value), _u(f.value)), f.attr) if isinstance(f.value, ast.Name) else None
                    if ser is None:
                        raise Untranslatable("what is %s bound to" % _u(f)[:30])
                    opts, has_default = [], False
                    for kw in v.keywords:
                        if kw.arg == "option":
                            def names(e):
                                if isinstance(e, ast.BinOp) and isinstance(e.op, ast.BitOr):
                                    return names(e.left) + names(e.right)
                                if isinstance(e, (ast.Name, ast.Attribute)):
                                    return [_u(e).split(".")[-1]]
                                raise Untranslatable("packb option %s" % _u(e)[:30])
                            opts = names(kw.value)
                        else:
                            has_default = not (isinstance(kw.value, ast.Constant) and kw.value.value is None)
                    saved = ex.typestate()
                    ex.bound.add(name)
                    try:
                        body = st.block(rest, k, depth + 1)
                    finally:
                        ex.restore(saved)
                    return ("match (RowGlue.callPackb %s (RowGlue.tupleOf self) [%s] %s) with\n%s| none => (Except.error EncErr.codec)\n%s| some %s =>\n%s%s%s"
                            % (lean_str(ser), ", ".join(lean_str(o) for o in opts), "true" if has_default else "false", pad, pad, name, pad, st.ind, body))
            elif fname == "time_ns" and not v.args and not v.keywords:
                S["ts"], param = name, "ts"
            if param is not None:
                saved = ex.typestate()
                ex.bound.add(name)
                try:
                    body = st.block(rest, k, depth)
                finally:
                    ex.restore(saved)
                return "let %s := %s\n%s%s" % (name, param, pad, body)
        return None

    ex = pystmt.Expr(env={"MAXIMUM_RECORD_SIZE": "Gen.Row.maxRecord", "HEADER_SIZE": "Gen.Row.headerSize"}, hook=hook)
    body = pystmt.Stmts(ex, ret=ret, raise_=raise_, stmt_hook=stmt_hook).block(_nodoc(fn.body), "FALLOFF", 1)
    if "FALLOFF" in body or S["payload"] is None or S["ts"] is None:
        raise Untranslatable("as_bytes: packb / time_ns / return not found")
    if whole:
        decos = [_u(d) for d in fn.decorator_list]
        if decos in (["cached_property"], ["functools.cached_property"]):
            # the value of a `cached_property` is kept on the object under the attribute's own name and handed out from then on:
            # the body runs only while nothing is kept (the store itself cannot be shown: `as_bytes` answers a record, not a state)
            if kattr is not None:
                raise Untranslatable("as_bytes is a cached_property and self.%s is kept as well" % kattr)
            body = "if (kept ≠ none) then\n    (RowGlue.retKept kept)\n  else\n    " + body.replace("\n", "\n  ")
        elif decos != ["property"]:
            raise Untranslatable("as_bytes is decorated with %s" % (", ".join(decos) or "nothing"))
        return ("/-- orso/row.py `Row.as_bytes`, the whole property body statement by statement: `self` = the row's items, `ts` = `time.time_ns()`,\n"
                "`cached` = the size `Row.nbytes` keeps on the object (`None` on a fresh one), `kept` = the record kept on the object (the value of\n"
                "%s), `selfHasDict` as below -/\n"
                "def as_bytes (selfHasDict : Bool) (cached : Option Nat) (kept : Option RowBytes.Bytes) (ts : Nat) (self : List PyVal) : Except EncErr RowBytes.Bytes :=\n  %s\n"
                % ("`self.%s`" % kattr if kattr else "an attribute of `self` other than the size that `nbytes` / `as_bytes` assign: there is none, nothing reads it", body))
    return ("/-- orso/row.py `Row.as_bytes` after `packb` (= `payload`) and `time.time_ns()` (= `ts`), statement by statement;\n"
            "`selfHasDict`: does the row object have a `__dict__` (false for instances of `Row` itself, `__slots__ = ()`) -/\n"
            "def as_bytes_frame (selfHasDict : Bool) (ts : Nat) (payload : RowBytes.Bytes) : Except EncErr RowBytes.Bytes :=\n  %s\n" % body)


# --------------------------------------------------------------------------- Row.from_bytes (the glue in front of the decoder)


def module_ints(row):
    """module-level `NAME = <int expression of literals and earlier names>` of orso/row.py"""
    out = {}
    for node in (row.tree.body if row.tree is not None else []):
        tgt = val = None
        if isinstance(node, ast.Assign) and len(node.targets) == 1:
            tgt, val = node.targets[0], node.value
        elif isinstance(node, ast.AnnAssign) and node.value is not None:
            tgt, val = node.target, node.value
        if isinstance(tgt, ast.Name) and val is not None:
            try:
                if all(isinstance(x, (ast.Constant, ast.BinOp, ast.operator, ast.Name, ast.Load, ast.UnaryOp, ast.unaryop)) for x in ast.walk(val)):
                    v = eval(compile(ast.Expression(val), "<extract>", "eval"), {"__builtins__": {}}, dict(out))
                    if isinstance(v, int) and not isinstance(v, bool) and v >= 0:
                        out[tgt.id] = v
            except Exception:
                pass
    return out


def t_glue(row):
    """`Row.from_bytes` statement by statement -> `RowGlue.Out`.  Known shapes: `return cls(from_bytes_cython(data))`,
    `x = from_bytes_cython(data)` … `return cls(x)`, `return None`, `raise DataError("…")`, `if <test>:` where the test is
    made of `data[k]` (k a literal: guarded by `RowGlue.indexed`, IndexError past the end), `len(data)`, module-level
    integer constants, literals, `& | ^ << >>`, comparisons, `and` / `or` / `not`."""
    fn = row.func("from_bytes", "Row")
    if [a.arg for a in fn.args.args] != ["cls", "data"] or not any(_u(d) == "classmethod" for d in fn.decorator_list) \
            or fn.args.vararg or fn.args.kwarg or fn.args.kwonlyargs or fn.args.defaults:
        raise Untranslatable("from_bytes signature")
    consts = module_ints(row)
    reads = []
    decoded = set()

    def hook(n, go):
        if isinstance(n, ast.Subscript) and isinstance(n.value, ast.Name) and n.value.id == "data":
            kx = n.slice.value if _int_const(n.slice) else (consts.get(n.slice.id) if isinstance(n.slice, ast.Name) else None)
            if kx is not None:
                reads.append(kx)
                return "(byteAt data %d)" % kx
            raise Untranslatable("data[%s]" % _u(n.slice)[:30])
        if _call(n, "len", 1) and _u(n.args[0]) == "data":
            return "(List.length data)"
        if isinstance(n, ast.BinOp) and type(n.op) in BITOPS:
            return "(%s %s %s)" % (go(n.left), BITOPS[type(n.op)], go(n.right))
        if isinstance(n, ast.Name) and n.id == "data":
            raise Untranslatable("use of data other than data[k] / len(data) / from_bytes_cython(data)")
        return None

    def is_decoder_call(v):
        return _call(v, "from_bytes_cython", 1) and _u(v.args[0]) == "data"

    def ret(v, ex):
        if v is None or (isinstance(v, ast.Constant) and v.value is None):
            return '(RowGlue.Out.notRow "NoneType")'
        if _call(v, "cls", 1):
            a = v.args[0]
            if is_decoder_call(a):
                return "(RowGlue.callDecoder (from_bytes_cython data) (fun t => RowGlue.Out.row (RowGlue.rowNew t)))"
            if isinstance(a, ast.Name) and a.id in decoded:
                return "(RowGlue.Out.row (RowGlue.rowNew %s))" % a.id
        raise Untranslatable("return %s" % _u(v)[:40])

    def raise_(s, ex):
        e = s.exc
        if isinstance(e, ast.Call) and _u(e.func) == "DataError" and len(e.args) == 1 and isinstance(e.args[0], ast.Constant) \
                and isinstance(e.args[0].value, str):
            return "(RowGlue.Out.raised %s)" % ("DecErr.badLength" if "incorrect length" in e.args[0].value else "DecErr.malformed")
        if isinstance(e, ast.Call) and isinstance(e.func, ast.Name) and e.func.id[:1].isupper() and e.func.id.endswith(("Error", "Exception")):
            return "(RowGlue.Out.other %s)" % lean_str(e.func.id)
        raise Untranslatable("raise %s" % _u(s)[:50])

    def stmt_hook(s, rest, k, depth, st):
        ex = st.ex
        pad = st.ind * depth
        if isinstance(s, ast.If):
            del reads[:]
            t = s.test
            inty = isinstance(t, (ast.BinOp, ast.Subscript)) or (isinstance(t, ast.Name) and t.id in consts) or _call(t, "len", 1)
            test = "(%s ≠ 0)" % ex.go(t) if inty else ex.cond(t)
            need = sorted(set(reads))
            del reads[:]
            a = st.block(list(s.body) + rest, k, depth + 1)
            b = st.block(list(s.orelse) + rest, k, depth + 1)
            body = "if %s then\n%s%s%s\n%selse\n%s%s%s" % (test, pad, st.ind, a, pad, pad, st.ind, b)
            # `data[k]` is evaluated before the branch is chosen: past the end it raises (the largest index decides only
            # when every read is reached; with `and`/`or` short-circuits the smaller ones may be skipped: not translated)
            if need and any(isinstance(x, ast.BoolOp) for x in ast.walk(t)) and len(need) > 1:
                raise Untranslatable("several data[k] under and/or")
            if need and any(isinstance(x, ast.BoolOp) for x in ast.walk(t)):
                raise Untranslatable("data[k] under and/or (may be skipped by the short-circuit)")
            for kx in reversed(need):
                body = "(RowGlue.indexed data %d (\n%s%s))" % (kx, pad, body)
            return body
        if isinstance(s, ast.Assign) and len(s.targets) == 1 and isinstance(s.targets[0], ast.Name) and is_decoder_call(s.value):
            name = s.targets[0].id
            saved = ex.typestate()
            ex.bound.add(name)
            decoded.add(name)
            try:
                body = st.block(rest, k, depth + 1)
            finally:
                ex.restore(saved)
                decoded.discard(name)
            return "(RowGlue.callDecoder (from_bytes_cython data) (fun %s =>\n%s%s%s))" % (name, pad, st.ind, body)
        if isinstance(s, (ast.Assign, ast.AnnAssign, ast.AugAssign, ast.Expr)) and not (isinstance(s, ast.Expr) and isinstance(s.value, ast.Constant)):
            raise Untranslatable("statement %s" % _u(s)[:50])
        return None

    ex = pystmt.Expr(env={k_: "%d" % v for k_, v in consts.items()}, hook=hook)
    body = pystmt.Stmts(ex, ret=ret, raise_=raise_, stmt_hook=stmt_hook).block(_nodoc(fn.body), '(RowGlue.Out.notRow "NoneType")', 1)
    return ("/-- orso/row.py `Row.from_bytes` (the Python glue in front of the compiled decoder), statement by statement -/\n"
            "def from_bytes (data : RowBytes.Bytes) : RowGlue.Out :=\n  %s\n" % body)


# --------------------------------------------------------------------------- Row.nbytes (the cached size: state of the row object)


def t_nbytes(row):
    """`Row.nbytes` statement by statement -> `RowGlue.SizeOut` (what the call ends in, the cached size afterwards).  Statements:
    `if <test>: … [else: …]`, `self.A = <expr>`, `x = <expr>`, `return <expr>`; expressions: `self.A`, `len(self.as_bytes)`,
    integer literals, module-level integer constants, locals, `None`, `+`; tests: `e is None`, `e is not None`, `e == None`,
    `not e`, `e` (truthiness: `None` and `0` are false)."""
    fn = row.func("nbytes", "Row")
    if [a.arg for a in fn.args.args] != ["self"] or fn.args.vararg or fn.args.kwarg or fn.args.kwonlyargs or fn.decorator_list:
        raise Untranslatable("nbytes signature")
    attr, kattr = self_attrs(row)
    if attr is None:
        raise Untranslatable("nbytes: which attribute holds the size")
    consts = module_ints(row)
    ind = "  "
    RESERVED = ("self", "cached", "kept", "as_bytes", "selfHasDict", "v")

    def is_attr(n):
        return isinstance(n, ast.Attribute) and isinstance(n.value, ast.Name) and n.value.id == "self" and n.attr == attr

    def is_kept(n):
        return kattr is not None and isinstance(n, ast.Attribute) and isinstance(n.value, ast.Name) and n.value.id == "self" and n.attr == kattr

    def is_rec_local(n, local):
        return isinstance(n, ast.Name) and ("rec:" + n.id) in local

    def rec(n, local):
        """a bytes-valued expression (`Except EncErr (Option Bytes)`): `self.as_bytes`, the kept record, a local holding one, `None`"""
        if _u(n) == "self.as_bytes":
            return "(as_bytes.map some)"
        if is_kept(n):
            return "(Except.ok kept)"
        if is_rec_local(n, local):
            return "(Except.ok %s)" % lname(n.id)
        if isinstance(n, ast.Constant) and n.value is None:
            return "(Except.ok none)"
        return None

    def expr(n, local):
        if is_attr(n):
            return "(Except.ok cached)"
        if _call(n, "len", 1) and _u(n.args[0]) == "self.as_bytes":
            return "(RowGlue.lenOf as_bytes)"
        if _call(n, "len", 1) and is_kept(n.args[0]):
            return "(RowGlue.lenOpt kept)"
        if _call(n, "len", 1) and is_rec_local(n.args[0], local):
            return "(RowGlue.lenOpt %s)" % lname(n.args[0].id)
        if _int_const(n):
            return "(Except.ok (some %d))" % n.value
        if isinstance(n, ast.Constant) and n.value is None:
            return "(Except.ok none)"
        if isinstance(n, ast.Name) and n.id in local:
            return "(Except.ok %s)" % lname(n.id)
        if isinstance(n, ast.Name) and n.id in consts:
            return "(Except.ok (some %d))" % consts[n.id]
        if isinstance(n, ast.BinOp) and isinstance(n.op, ast.Add):
            return "(RowGlue.addSize %s %s)" % (expr(n.left, local), expr(n.right, local))
        raise Untranslatable("nbytes expression %s" % _u(n)[:40])

    def opt(n, local):
        """an expression that cannot raise, as an `Option Nat`"""
        if is_attr(n):
            return "cached"
        if is_kept(n):
            return "kept"
        if isinstance(n, ast.Name) and (n.id in local or ("rec:" + n.id) in local):
            return lname(n.id)
        raise Untranslatable("nbytes test on %s" % _u(n)[:40])

    def truth(n, local):
        return "RowGlue.truthyRec" if (is_kept(n) or is_rec_local(n, local)) else "RowGlue.truthy"

    def test(n, local):
        if isinstance(n, ast.Compare) and len(n.ops) == 1 and isinstance(n.comparators[0], ast.Constant) and n.comparators[0].value is None:
            if isinstance(n.ops[0], (ast.Is, ast.Eq)):
                return "(%s = none)" % opt(n.left, local)
            if isinstance(n.ops[0], (ast.IsNot, ast.NotEq)):
                return "(%s ≠ none)" % opt(n.left, local)
        if isinstance(n, ast.UnaryOp) and isinstance(n.op, ast.Not):
            return "(%s %s = false)" % (truth(n.operand, local), opt(n.operand, local))
        return "(%s %s = true)" % (truth(n, local), opt(n, local))

    def block(stmts, depth, local):
        pad = ind * depth
        stmts = _nodoc(stmts)
        if not stmts:
            return "(Except.ok none, cached, kept)"  # falls off its end: returns None
        s, rest = stmts[0], stmts[1:]
        if isinstance(s, ast.Pass):
            return block(rest, depth, local)
        if isinstance(s, ast.If):
            return "if %s then\n%s%s%s\n%selse\n%s%s%s" % (test(s.test, local), pad, ind, block(list(s.body) + rest, depth + 1, local), pad, pad, ind,
                                                           block(list(s.orelse) + rest, depth + 1, local))
        if isinstance(s, ast.Return):
            if s.value is None:
                return "(Except.ok none, cached, kept)"
            return "(RowGlue.bindSize %s cached kept (fun v => (Except.ok v, cached, kept)))" % expr(s.value, local)
        if isinstance(s, ast.Assign) and len(s.targets) == 1:
            t = s.targets[0]
            if is_attr(t):
                return ("(RowGlue.bindSize %s cached kept (fun v => RowGlue.storeCached selfHasDict cached kept v (fun cached =>\n%s%s%s)))"
                        % (expr(s.value, local), pad, ind, block(rest, depth + 1, local)))
            r = rec(s.value, local)
            if is_kept(t) and r is not None:
                # `self.<record attribute> = <record>`: the record is kept on the object (state, visible to `as_bytes`)
                return ("(RowGlue.bindRec %s cached kept (fun v => RowGlue.storeKept selfHasDict cached kept v (fun kept =>\n%s%s%s)))"
                        % (r, pad, ind, block(rest, depth + 1, local)))
            if isinstance(t, ast.Name) and t.id not in RESERVED:
                if r is not None and not (isinstance(s.value, ast.Constant)):
                    return "(RowGlue.bindRec %s cached kept (fun %s =>\n%s%s%s))" % (r, lname(t.id), pad, ind,
                                                                                      block(rest, depth + 1, (local - {t.id}) | {"rec:" + t.id}))
                return "(RowGlue.bindSize %s cached kept (fun %s =>\n%s%s%s))" % (expr(s.value, local), lname(t.id), pad, ind,
                                                                                    block(rest, depth + 1, (local - {"rec:" + t.id}) | {t.id}))
        raise Untranslatable("nbytes statement %s" % _u(s)[:50])

    body = block(fn.body, 1, frozenset())
    return ("/-- orso/row.py `Row.nbytes` statement by statement: `cached` = `self.%s` before the call, `kept` = the record kept on the object\n"
            "(%s), `as_bytes` = what evaluating `self.as_bytes` ends in (on the object as it is at that moment); the result is what the call\n"
            "ends in, and `self.%s` and the kept record afterwards -/\n"
            "def nbytes (selfHasDict : Bool) (cached : Option Nat) (kept : Option RowBytes.Bytes) (as_bytes : Except EncErr RowBytes.Bytes) : RowGlue.SizeOut :=\n  %s\n"
            % (attr, "`self.%s`" % kattr if kattr else "no such attribute on this tree", attr, body))


# --------------------------------------------------------------------------- Row.__new__ (tuple path and dict path)


def t_row_new(row):
    """`Row.__new__` statement by statement -> `Except String (List PyVal)`: `if isinstance(data, dict):`, `if type(data) is not dict:`,
    `if not isinstance(data, (dict, tuple, list)) and isinstance(data, Mapping):` (and / or / not over such tests),
    `data = dict(data)`, `data = extract_dict_columns(data, cls._fields)`, `x = super().__new__(cls, data)`, `return x`."""
    fn = row.func("__new__", "Row")
    if [a.arg for a in fn.args.args] != ["cls", "data"] or fn.args.vararg or fn.args.kwarg or fn.args.kwonlyargs or fn.args.defaults:
        raise Untranslatable("__new__ signature")
    ind = "  "

    def is_tuple_new(v):
        return isinstance(v, ast.Call) and _u(v.func) in ("super().__new__", "tuple.__new__") and not v.keywords and [_u(a) for a in v.args] == ["cls", "data"]

    imports = imported_names(row)

    def type_name(t):
        """a type in `isinstance(data, …)`: the builtins dict / tuple / list, `Mapping` of collections.abc (or typing)"""
        u = _u(t)
        if u in ("dict", "tuple", "list") and u not in imports:
            return u
        full = imports.get(u) if isinstance(t, ast.Name) else ("%s.%s" % (imports.get(_u(t.value), _u(t.value)), t.attr) if isinstance(t, ast.Attribute) else None)
        if full in ("collections.abc.Mapping", "typing.Mapping"):
            return "Mapping"
        raise Untranslatable("isinstance(data, %s)" % u[:30])

    def test(n):
        if _call(n, "isinstance", 2) and _u(n.args[0]) == "data" and _u(n.args[1]) == "dict":
            return "(RowGlue.isDict data = true)"
        if _call(n, "isinstance", 2) and _u(n.args[0]) == "data":
            # any other type / tuple of types: `tuple` and `list` are one kind of argument in the model (a sequence of items)
            ts = [type_name(t) for t in (n.args[1].elts if isinstance(n.args[1], ast.Tuple) else [n.args[1]])]
            if ("tuple" in ts) != ("list" in ts):
                raise Untranslatable("isinstance(data, …) tells a tuple from a list")
            return "(RowGlue.isInst data [%s] = true)" % ", ".join(lean_str(t) for t in ts)
        if isinstance(n, ast.BoolOp):
            return "(" + (" ∧ " if isinstance(n.op, ast.And) else " ∨ ").join(test(v) for v in n.values) + ")"
        if isinstance(n, ast.Compare) and len(n.ops) == 1 and _u(n.left) == "type(data)" and _u(n.comparators[0]) == "dict":
            if isinstance(n.ops[0], (ast.Is, ast.Eq)):
                return "(RowGlue.isExactDict data = true)"
            if isinstance(n.ops[0], (ast.IsNot, ast.NotEq)):
                return "(¬ (RowGlue.isExactDict data = true))"
        if isinstance(n, ast.UnaryOp) and isinstance(n.op, ast.Not):
            return "(¬ %s)" % test(n.operand)
        raise Untranslatable("__new__ test %s" % _u(n)[:40])

    def block(stmts, depth, made):
        pad = ind * depth
        stmts = _nodoc(stmts)
        if not stmts:
            raise Untranslatable("__new__ can fall off its end")
        s, rest = stmts[0], stmts[1:]
        if isinstance(s, ast.Pass):
            return block(rest, depth, made)
        if isinstance(s, ast.If):
            return "if %s then\n%s%s%s\n%selse\n%s%s%s" % (test(s.test), pad, ind, block(list(s.body) + rest, depth + 1, made), pad, pad, ind,
                                                           block(list(s.orelse) + rest, depth + 1, made))
        if isinstance(s, ast.Return) and s.value is not None:
            if isinstance(s.value, ast.Name) and s.value.id in made:
                return "(Except.ok %s)" % lname(s.value.id)
            if is_tuple_new(s.value):
                return "(Except.ok (RowGlue.tupleNew data))"
        if isinstance(s, ast.Assign) and len(s.targets) == 1 and isinstance(s.targets[0], ast.Name):
            name, v = s.targets[0].id, s.value
            if name == "data" and _call(v, "dict", 1) and _u(v.args[0]) == "data":
                return "let data := (RowGlue.dictOf data)\n%s%s" % (pad, block(rest, depth, made))
            if name == "data" and _call(v, "extract_dict_columns", 2) and _u(v.args[0]) == "data" and _u(v.args[1]) == "cls._fields":
                return "(RowGlue.bindNew (RowGlue.extract_dict_columns data fields) (fun data =>\n%s%s%s))" % (pad, ind, block(rest, depth + 1, made))
            if name not in ("data", "cls", "fields") and is_tuple_new(v):
                return "let %s := (RowGlue.tupleNew data)\n%s%s" % (lname(name), pad, block(rest, depth, made | {name}))
        raise Untranslatable("__new__ statement %s" % _u(s)[:50])

    body = block(fn.body, 1, frozenset())
    return ("/-- orso/row.py `Row.__new__` statement by statement: `fields` = `cls._fields` (`None` on the class `Row` itself), `data` = the\n"
            "argument (a tuple of items, a dictionary, or a mapping that is not a dict); the result is the items of the new row, or the exception -/\n"
            "def row_new (fields : Option (List String)) (data : RowGlue.NewArg) : Except String (List PyVal) :=\n  %s\n" % body)


def _pinned():
    try:
        return json.load(open(PINNED_FILE))
    except Exception:
        return {}


def generate(o):
    row = Src("orso/row.py")
    pyx = Src("orso/compute/compiled.pyx")
    pinned = _pinned()
    table = (("from_bytes_cython", lambda: t_from_bytes(pyx)), ("as_bytes_frame", lambda: t_as_bytes(row)), ("from_bytes", lambda: t_glue(row)),
             ("as_bytes", lambda: t_as_bytes(row, whole=True)), ("nbytes", lambda: t_nbytes(row)), ("row_new", lambda: t_row_new(row)))
    fresh = {}
    for key, fn in table:
        fresh[key] = o.item("c01.fn." + key, fn, pinned.get(key, "-- %s: not translated\n" % key))
    if os.environ.get("ORSO_VERIF_WRITE_PINNED") == "c01_fns":
        os.makedirs(os.path.dirname(PINNED_FILE), exist_ok=True)
        json.dump(fresh, open(PINNED_FILE, "w"), indent=1, sort_keys=True)
    header = HEADER + "import OrsoVerif.Model.RowCodec\nimport OrsoVerif.Model.RowGlue\n"
    header += ("/-! `from_bytes_cython` (orso/compute/compiled.pyx, de-cythonised by harness/pyxshadow.py) and the framing part of\n"
               "`Row.as_bytes` (orso/row.py) and the glue `Row.from_bytes` translated statement by statement (harness/pystmt.py,\nharness/extractors/c01_fns.py). -/\n")
    header += "set_option linter.unusedVariables false\nopen RowBytes RowCodec MsgPack\nnamespace Gen.RowFns\n\n"
    text, bad = pystmt.compile_checked(header, [(k, fresh[k]) for k, _ in table], "\nend Gen.RowFns\n", pinned, core.LEAN, "RowFns")
    for k in bad:
        o.degraded.append("c01.fn.%s (the translation does not elaborate in Lean; pinned text used)" % k)
    o.files["RowFns.lean"] = text
