"""Profiler constants: orso/profiler/profiler.py (sketch size, most-frequent list size, histogram bins,
the batch size of TableProfile.from_dataframe, the width of the text key and of the text prefix)."""
import ast

from ..extract import HEADER, Src


def generate(o):
    src = Src("orso/profiler/profiler.py")
    kvm = o.item("profiler.KVM_SIZE", lambda: int(src.assign("KVM_SIZE")), 32)
    mfv = o.item("profiler.MOST_FREQUENT_VALUE_SIZE", lambda: int(src.assign("MOST_FREQUENT_VALUE_SIZE")), 32)
    bins = o.item("profiler.DISTOGRAM_BIN_COUNT", lambda: int(src.assign("DISTOGRAM_BIN_COUNT")), 50)
    kw = o.item("profiler.SIXTY_FOUR_BITS", lambda: int(src.assign("SIXTY_FOUR_BITS")), 8)
    pw = o.item("profiler.SIXTY_FOUR_BYTES", lambda: int(src.assign("SIXTY_FOUR_BYTES")), 64)
    mx = o.item("profiler.MAX_INT64", lambda: int(src.assign("MAX_INT64")), 9223372036854775807)

    def batch():
        fn = src.func("from_dataframe", "TableProfile")
        for n in ast.walk(fn):
            if isinstance(n, ast.Call) and isinstance(n.func, ast.Attribute) and n.func.attr == "to_batches":
                if n.args:
                    return int(ast.literal_eval(n.args[0]))
                for kw_ in n.keywords:
                    if kw_.arg in ("batch_size", "size"):
                        return int(ast.literal_eval(kw_.value))
        raise KeyError("to_batches(<int>)")

    bs = o.item("profiler.batch_size", batch, 25000)

    def sketch_sizes():
        """The size argument at the call sites of get_kvm_hashes and find_mfvs (must be the constants)."""
        names = []
        for n in ast.walk(src.tree):
            if isinstance(n, ast.Call) and isinstance(n.func, ast.Name) and n.func.id in ("get_kvm_hashes", "find_mfvs"):
                a = n.args[1] if len(n.args) > 1 else None
                names.append([n.func.id, a.id if isinstance(a, ast.Name) else ast.literal_eval(a)])
        if not names:
            raise KeyError("call sites")
        return sorted(names)

    o.item(
        "profiler.size_arguments",
        sketch_sizes,
        [["find_mfvs", "MOST_FREQUENT_VALUE_SIZE"]] * 2 + [["get_kvm_hashes", "KVM_SIZE"]] * 2,
    )
    text = HEADER + "namespace Gen.Profile\n"
    text += "/-- KVM_SIZE: size of the k-minimum-values sketch -/\ndef kvmSize : Nat := %d\n" % kvm
    text += "/-- MOST_FREQUENT_VALUE_SIZE: length of the most-frequent-values list -/\ndef mfvSize : Nat := %d\n" % mfv
    text += "/-- DISTOGRAM_BIN_COUNT: bins asked of numpy.histogram -/\ndef binCount : Nat := %d\n" % bins
    text += "/-- rows per batch in TableProfile.from_dataframe -/\ndef batchSize : Nat := %d\n" % bs
    text += "/-- SIXTY_FOUR_BITS: bytes of a text value that form its integer key -/\ndef keyBytes : Nat := %d\n" % kw
    text += "/-- SIXTY_FOUR_BYTES: characters of a text value that are profiled -/\ndef textPrefix : Nat := %d\n" % pw
    text += "def maxInt64 : Nat := %d\n" % mx
    text += "end Gen.Profile\n"
    o.files["Profile.lean"] = text
