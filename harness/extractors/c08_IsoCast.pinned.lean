/-- `parse_date` of orso/types.py, statement by statement -/
def parseDate (x : Val) : Except Exc (Option Val) :=
  -- result = parse_iso(x)
  ((pyVal x).bind callParseIso).bind fun result =>
  -- if result is None:
  pySeq
    (if pyIsNone result then
      -- raise ValueError(f'Invalid date.')
        (.error (excOfName "ValueError"))
    else
      .ok none
    )
    (
      -- return result.date()
        pyReturn ((pyVal result).bind methDate)
    )

/-- `parse_time` of orso/types.py, statement by statement -/
def parseTime (x : Val) : Except Exc (Option Val) :=
  -- if isinstance(x, datetime.time):
  pySeq
    (if pyIsInstance x ["datetime.time"] then
      -- return x
        pyReturn (pyVal x)
    else
      .ok none
    )
    (
      -- result = parse_iso(x)
      ((pyVal x).bind callParseIso).bind fun result =>
      -- if result is None:
      pySeq
        (if pyIsNone result then
          -- if isinstance(x, (str, bytes)):
          pySeq
            (if pyIsInstance x ["str", "bytes"] then
              -- try:
                (pyTry (
                  -- return datetime.time.fromisoformat(x.decode('utf-8') if isinstance(x, bytes) else x)
                    pyReturn ((if pyIsInstance x ["bytes"] then ((pyVal x).bind methDecode) else (pyVal x)).bind callTimeFromIso)
                ) ["ValueError"] (
                  -- pass
                    (.ok none)
                ))
            else
              .ok none
            )
            (
              -- raise ValueError(f'Invalid date.')
                (.error (excOfName "ValueError"))
            )
        else
          .ok none
        )
        (
          -- return result.time()
            pyReturn ((pyVal result).bind methTime)
        )
    )

/-- `parse_timestamp` of orso/types.py, statement by statement -/
def parseTimestamp (x : Val) : Except Exc (Option Val) :=
  -- result = parse_iso(x)
  ((pyVal x).bind callParseIso).bind fun result =>
  -- if result is None:
  pySeq
    (if pyIsNone result then
      -- raise ValueError(f'Invalid timestamp.')
        (.error (excOfName "ValueError"))
    else
      .ok none
    )
    (
      -- return result
        pyReturn (pyVal result)
    )

