"""C20 — log sanitiser tables: orso/logging/log_formatter.py and the colour table of orso/display.py.

Extracted on every run into Generated/Sanitise.lean (namespace Gen.Sanitise):

* the regular-expression sources of KEYS_TO_SANITIZE, parsed into the fragment the model
  understands: optional leading `.*`, a literal of word characters, optional trailing `$`;
* whether the patterns are compiled with re.IGNORECASE;
* the method clean_record applies to a key (`match`, `search` or `fullmatch`);
* the URL user-info regular expression of format(), parsed into opening literal / lazy-any /
  closing literal, and the replacement text;
* COLOR_EXCHANGES, COLOR_CODES and display.COLORS (pure data the exact output depends on).
"""
import ast
import re

from ..extract import HEADER, Src, lean_list, lean_str

PINNED_KEYS = [r"password$", r"pwd$", r".*_secret$", r".*_key$", r"_token$", r"credentials"]
PINNED_EXCH = [
    [" ALERT    ", "\001BOLD_REDm ALERT    \001OFFm"],
    [" ERROR    ", "\001REDm ERROR    \001OFFm"],
    [" DEBUG    ", "\001GREENm DEBUG    \001OFFm"],
    [" AUDIT    ", "\001YELLOWm AUDIT    \001OFFm"],
    [" WARNING  ", "\001BOLD_REDm WARNING  \001OFFm"],
    [" INFO     ", "\001BOLD_WHITEm INFO     \001OFFm"],
]
PINNED_CODES = {"KEY": "\001KEYm", "OFF": "\001OFFm", "PURPLE": "\001PURPLEm", "YELLOW": "\001YELLOWm", "VALUE": "\001VALUEm"}
PINNED_URL = [r":\/\/(.*?)\@", "://\001BOLD_PURLEm<redacted>\001OFFm"]
PINNED_CALL_SITES = [
    "orso/logging/add_level.py:add_logging_level.log_for_level:_log",
    "orso/logging/add_level.py:report_suppressions:get_logger",
    "orso/logging/create_logger.py:get_logger:GoogleLogger",
    "orso/logging/create_logger.py:get_logger:LogFormatter",
    "orso/logging/create_logger.py:get_logger:StreamHandler",
    "orso/logging/create_logger.py:get_logger:add_logging_level",
    "orso/logging/create_logger.py:get_logger:add_logging_level",
    "orso/logging/create_logger.py:get_logger:add_logging_level",
    "orso/logging/create_logger.py:get_logger:add_logging_level",
    "orso/logging/create_logger.py:get_logger:add_logging_level",
    "orso/logging/create_logger.py:get_logger:add_logging_level",
    "orso/logging/create_logger.py:get_logger:setFormatter",
    "orso/logging/google_cloud_logger.py:GoogleLogger.create_logger.base_logger:write_event",
    "orso/logging/google_cloud_logger.py:GoogleLogger.write_event:LogFormatter",
    "orso/logging/google_cloud_logger.py:GoogleLogger.write_event:clean_record",
    "orso/logging/google_cloud_logger.py:GoogleLogger.write_event:log_it",
    "orso/logging/google_cloud_logger.py:GoogleLogger.write_event:log_it",
    "orso/logging/google_cloud_logger.py:log_it:print",
    "orso/logging/google_cloud_logger.py:report_suppressions:get_logger",
    "orso/logging/log_formatter.py:LogFormatter.clean_record:clean_record",
    "orso/logging/log_formatter.py:LogFormatter.clean_record:hash_it",
    "orso/logging/log_formatter.py:LogFormatter.format:sanitize_record",
    "orso/logging/log_formatter.py:LogFormatter.sanitize_record:clean_record",
    "orso/logging/log_formatter.py:LogFormatter.sanitize_record:color_code",
    "orso/logging/log_formatter.py:LogFormatter.sanitize_record:color_code",
    "orso/logging/log_formatter.py:LogFormatter.sanitize_record:colorizer",
]


def parse_key_pattern(src):
    """`.*`? literal `$`?  ->  (lead, literal, dollar); anything else is outside the fragment."""
    s = src
    lead = s.startswith(".*")
    if lead:
        s = s[2:]
    dollar = s.endswith("$")
    if dollar:
        s = s[:-1]
    if not re.fullmatch(r"[A-Za-z0-9_]*", s):
        raise ValueError("pattern outside the modelled fragment: %r" % src)
    return [lead, s, dollar]


def expand_alternation(src):
    """A regular expression of the fragment  alt ('|' alt)*,  alt = `.*`? word* [ '(' ['?:'] word* ('|' word*)* ')' word* ] `$`?
    -> the list of simple sources (`.*`? literal `$`?) it is the union of.  `a|b$` is [a, b$] - the `$` binds to
    the last alternative only - while `(?:a|b)$` is [a$, b$].  Anything else is outside the fragment."""
    alts, depth, cur = [], 0, ""
    for ch in src:
        if ch in "[]\\{}+?^" and not (ch == "?" and cur.endswith("(")):
            raise ValueError("pattern outside the modelled fragment: %r" % src)
        if ch == "(":
            depth += 1
        elif ch == ")":
            depth -= 1
            if depth < 0:
                raise ValueError("unbalanced: %r" % src)
        if ch == "|" and depth == 0:
            alts.append(cur)
            cur = ""
        else:
            cur += ch
    if depth:
        raise ValueError("unbalanced: %r" % src)
    alts.append(cur)
    out = []
    for a in alts:
        lead = a.startswith(".*")
        body = a[2:] if lead else a
        dollar = body.endswith("$")
        if dollar:
            body = body[:-1]
        m = re.fullmatch(r"(\w*)(?:\((?:\?:)?(\w*(?:\|\w*)*)\)(\w*))?", body)
        if not m:
            raise ValueError("pattern outside the modelled fragment: %r" % a)
        if m.group(2) is None:
            lits = [m.group(1)]
        else:
            lits = [m.group(1) + x + m.group(3) for x in m.group(2).split("|")]
        out += [(".*" if lead else "") + x + ("$" if dollar else "") for x in lits]
    return out


class Static:
    """Evaluates, without running anything, the module-level expressions a pattern table is built from: text and
    list literals, names bound once at module level, `+`, `sep.join(...)`, f-strings, `re.escape`, list / generator
    comprehensions over such lists.  Anything else raises KeyError (-> the item degrades to its pinned value)."""

    def __init__(self, src):
        self.src = src

    def binding(self, name):
        found = []
        for node in (self.src.tree.body if self.src.tree is not None else []):
            if isinstance(node, ast.Assign) and any(isinstance(t, ast.Name) and t.id == name for t in node.targets):
                found.append(node.value)
            elif isinstance(node, ast.AnnAssign) and isinstance(node.target, ast.Name) and node.target.id == name and node.value is not None:
                found.append(node.value)
            elif isinstance(node, (ast.AugAssign, ast.For, ast.If, ast.With, ast.Try, ast.While)):
                for x in ast.walk(node):
                    if isinstance(x, ast.Name) and x.id == name and isinstance(x.ctx, ast.Store):
                        raise KeyError("%s is assigned in a compound statement" % name)
        if len(found) != 1:
            raise KeyError("%s: %d module-level bindings" % (name, len(found)))
        return found[0]

    def ev(self, n, env=None, depth=0):
        env = env or {}
        if depth > 12:
            raise KeyError("too deep")
        go = lambda x, e=env: self.ev(x, e, depth + 1)
        if isinstance(n, ast.Constant) and isinstance(n.value, (str, int, bool, type(None))):
            return n.value
        if isinstance(n, (ast.List, ast.Tuple)):
            return [go(x) for x in n.elts]
        if isinstance(n, ast.Name):
            if n.id in env:
                return env[n.id]
            return go(self.binding(n.id), {})
        if isinstance(n, ast.BinOp) and isinstance(n.op, ast.Add):
            a, b = go(n.left), go(n.right)
            if (isinstance(a, str) and isinstance(b, str)) or (isinstance(a, list) and isinstance(b, list)):
                return a + b
            raise KeyError("+ of %s and %s" % (type(a).__name__, type(b).__name__))
        if isinstance(n, ast.JoinedStr):
            out = ""
            for v in n.values:
                if isinstance(v, ast.Constant) and isinstance(v.value, str):
                    out += v.value
                elif isinstance(v, ast.FormattedValue) and v.conversion == -1 and v.format_spec is None:
                    x = go(v.value)
                    if not isinstance(x, str):
                        raise KeyError("f-string field")
                    out += x
                else:
                    raise KeyError("f-string field")
            return out
        if isinstance(n, ast.Call) and not n.keywords and isinstance(n.func, ast.Attribute) and n.func.attr == "join" and len(n.args) == 1:
            sep, xs = go(n.func.value), go(n.args[0])
            if isinstance(sep, str) and isinstance(xs, list) and all(isinstance(x, str) for x in xs):
                return sep.join(xs)
            raise KeyError("join")
        if isinstance(n, ast.Call) and not n.keywords and ast.unparse(n.func) == "re.escape" and len(n.args) == 1:
            x = go(n.args[0])
            if isinstance(x, str):
                return re.escape(x)
            raise KeyError("re.escape")
        if isinstance(n, ast.Call) and not n.keywords and ast.unparse(n.func) in ("list", "tuple") and len(n.args) == 1:
            x = go(n.args[0])
            if isinstance(x, list):
                return list(x)
            raise KeyError("list()")
        if isinstance(n, (ast.ListComp, ast.GeneratorExp)) and len(n.generators) == 1 and not n.generators[0].ifs \
                and isinstance(n.generators[0].target, ast.Name) and not n.generators[0].is_async:
            xs = go(n.generators[0].iter)
            if not isinstance(xs, list):
                raise KeyError("comprehension over %s" % type(xs).__name__)
            return [self.ev(n.elt, dict(env, **{n.generators[0].target.id: x}), depth + 1) for x in xs]
        raise KeyError("not static: %s" % ast.unparse(n)[:50])


def key_test(lf):
    """How clean_record tests a key: -> (name of the module-level table / compiled expression, method).
    `any(R.search(key) for R in NAME)` (any loop variable) or `NAME.search(key)`; exactly one test."""
    fn = lf.func("clean_record", "LogFormatter")
    found = []
    for n in ast.walk(fn):
        if isinstance(n, ast.Call) and isinstance(n.func, ast.Attribute) and n.func.attr in ("match", "search", "fullmatch") \
                and isinstance(n.func.value, ast.Name) and len(n.args) == 1 and not n.keywords:
            found.append((n.func.value.id, n.func.attr, n))
    if len(found) != 1:
        raise KeyError("key test: %d candidates" % len(found))
    var, method, call = found[0]
    for n in ast.walk(fn):
        if isinstance(n, (ast.GeneratorExp, ast.ListComp)) and any(x is call for x in ast.walk(n.elt)):
            g = n.generators
            if len(g) == 1 and isinstance(g[0].target, ast.Name) and g[0].target.id == var and isinstance(g[0].iter, ast.Name) and not g[0].ifs:
                return g[0].iter.id, method
            raise KeyError("key test: comprehension shape")
    return var, method


def compiled_key_patterns(lf):
    """The regular expressions the key test runs, as *compiled*: follows the name the test uses to its module-level
    definition and evaluates the `re.compile(...)` argument(s) statically.  -> (simple sources, IGNORECASE?)."""
    name, _ = key_test(lf)
    st = Static(lf)
    node = st.binding(name)

    def flags_of(call):
        names = sorted(x.attr for a in call.args[1:] + [k.value for k in call.keywords] for x in ast.walk(a) if isinstance(x, ast.Attribute))
        extra = [a for a in call.args[1:] + [k.value for k in call.keywords] if not isinstance(a, (ast.Attribute, ast.BinOp))]
        other = [x for x in names if x not in ("IGNORECASE", "I", "re")]
        if other or extra:
            raise KeyError("unmodelled flags %s" % (other or "expression"))
        return bool(names)

    def is_compile(c):
        return isinstance(c, ast.Call) and ast.unparse(c.func) == "re.compile" and c.args

    if isinstance(node, (ast.ListComp, ast.GeneratorExp)) and is_compile(node.elt):
        g = node.generators
        if len(g) != 1 or g[0].ifs or not isinstance(g[0].target, ast.Name):
            raise KeyError("comprehension shape")
        xs = st.ev(g[0].iter)
        srcs = [st.ev(node.elt.args[0], {g[0].target.id: x}) for x in xs]
        icase = [flags_of(node.elt)]
    elif is_compile(node):
        srcs, icase = [st.ev(node.args[0])], [flags_of(node)]
    elif isinstance(node, (ast.List, ast.Tuple)) and node.elts and all(is_compile(c) for c in node.elts):
        srcs, icase = [st.ev(c.args[0]) for c in node.elts], [flags_of(c) for c in node.elts]
    else:
        raise KeyError("%s is not built by re.compile" % name)
    if not srcs or not all(isinstance(x, str) for x in srcs) or len(set(icase)) != 1:
        raise KeyError("compiled sources")
    out = []
    for x in srcs:
        out += expand_alternation(x)
    return out, icase[0]


def parse_url_pattern(src):
    m = re.fullmatch(r"(.*?)\(\.\*(\??)\)(.*)", src)
    if not m:
        raise ValueError("url pattern shape")

    def lit(t):
        out = []
        i = 0
        while i < len(t):
            if t[i] == "\\" and i + 1 < len(t) and not t[i + 1].isalnum():
                out.append(t[i + 1])
                i += 2
            elif t[i] in ".^$*+?{}[]|()\\":
                raise ValueError("url pattern metacharacter")
            else:
                out.append(t[i])
                i += 1
        return "".join(out)

    o, c = lit(m.group(1)), lit(m.group(3))
    if not o or len(c) != 1 or m.group(2) != "?":
        raise ValueError("url pattern outside the modelled fragment")
    return [o, c]


PINNED_INSTALLS = [["AUDIT", ["not hasattr(logger, 'audit')"]], ["ALERT", ["not hasattr(logging, 'alert')"]], ["DEBUG", []], ["INFO", []], ["WARNING", []], ["ERROR", []]]


def generate(o):
    lf = Src("orso/logging/log_formatter.py")
    disp = Src("orso/display.py")

    # what the key test really runs: the name it uses, followed to the re.compile call(s) and evaluated statically
    # (a table rebuilt from word lists, one alternation, f-strings ... are all read; `a|b$` is [a, b$])
    comp = o.item("c20.compiled_key_patterns", lambda: list(compiled_key_patterns(lf)), None)
    if comp is not None:
        keys = o.item("c20.KEYS_TO_SANITIZE", lambda: [str(x) for x in comp[0]], PINNED_KEYS)
    else:  # the table as written (the shape round 1 read)
        keys = o.item("c20.KEYS_TO_SANITIZE", lambda: [str(x) for x in lf.assign("KEYS_TO_SANITIZE")], PINNED_KEYS)
    pats = o.item("c20.key_patterns", lambda: [parse_key_pattern(k) for k in keys], [parse_key_pattern(k) for k in PINNED_KEYS])

    def flags():
        for node in lf.tree.body:
            if isinstance(node, ast.Assign) and any(isinstance(t, ast.Name) and t.id == "COMPILED_KEYS_TO_SANITIZE" for t in node.targets):
                calls = [n for n in ast.walk(node.value) if isinstance(n, ast.Call) and isinstance(n.func, ast.Attribute) and n.func.attr == "compile"]
                if len(calls) != 1:
                    raise KeyError("re.compile call")
                names = sorted(n.attr for a in calls[0].args[1:] + [k.value for k in calls[0].keywords] for n in ast.walk(a) if isinstance(n, ast.Attribute))
                other = [n for n in names if n not in ("IGNORECASE", "I")]
                if other:
                    raise KeyError("unmodelled flags %s" % other)
                return bool(names)
        raise KeyError("COMPILED_KEYS_TO_SANITIZE")

    icase = o.item("c20.ignorecase", (lambda: bool(comp[1])) if comp is not None else flags, True)

    def mode():
        return key_test(lf)[1]

    md = o.item("c20.match_mode", mode, "search")

    def url():
        fn = lf.func("format", "LogFormatter")
        for n in ast.walk(fn):
            if isinstance(n, ast.Call) and isinstance(n.func, ast.Attribute) and n.func.attr == "sub" and len(n.args) >= 2:
                return [ast.literal_eval(n.args[0]), ast.literal_eval(n.args[1])]
        raise KeyError("re.sub in format")

    u = o.item("c20.url_sub", url, PINNED_URL)
    uparts = o.item("c20.url_parts", lambda: parse_url_pattern(u[0]), parse_url_pattern(PINNED_URL[0]))

    # the replacement is a template: expand its escapes (no group references are modelled)
    urepl = o.item("c20.url_replacement", lambda: re.sub(r"\A", u[1], "", count=1), "://\001BOLD_PURLEm<redacted>\001OFFm")

    def url_guard():
        fn = lf.func("format", "LogFormatter")
        for n in ast.walk(fn):
            if isinstance(n, ast.If) and isinstance(n.test, ast.Compare) and isinstance(n.test.ops[0], ast.In):
                return ast.literal_eval(n.test.left)
        raise KeyError("guard")

    guard = o.item("c20.url_guard", url_guard, "://")

    # the structured logger applies the same rule to a text message (google_cloud_logger.py, write_event)
    gl = Src("orso/logging/google_cloud_logger.py")

    def g_url():
        fn = gl.func("write_event", "GoogleLogger")
        subs = [n for n in ast.walk(fn) if isinstance(n, ast.Call) and isinstance(n.func, ast.Attribute) and n.func.attr == "sub" and len(n.args) >= 2]
        if len(subs) != 1:
            raise KeyError("re.sub in write_event")
        return [ast.literal_eval(subs[0].args[0]), ast.literal_eval(subs[0].args[1])]

    PINNED_GURL = [r":\/\/(.*?)\@", "://<redacted>@"]
    gu = o.item("c20.g_url_sub", g_url, PINNED_GURL)
    guparts = o.item("c20.g_url_parts", lambda: parse_url_pattern(gu[0]), parse_url_pattern(PINNED_GURL[0]))
    gurepl = o.item("c20.g_url_replacement", lambda: re.sub(r"\A", gu[1], "", count=1), "://<redacted>@")

    def g_url_guard():
        fn = gl.func("write_event", "GoogleLogger")
        found = [ast.literal_eval(n.left) for n in ast.walk(fn) if isinstance(n, ast.Compare) and isinstance(n.ops[0], ast.In)
                 and isinstance(n.left, ast.Constant) and isinstance(n.left.value, str)]
        if len(found) != 1:
            raise KeyError("guard")
        return found[0]

    gguard = o.item("c20.g_url_guard", g_url_guard, "://")

    # hash_it: the digest is a prefix of the hex SHA-256 of the text it is given, and of nothing else
    def digest_len():
        fn = lf.func("hash_it", "LogFormatter")
        rets = [n for n in ast.walk(fn) if isinstance(n, ast.Return)]
        if len(rets) != 1:
            raise KeyError("hash_it return")
        r = rets[0].value
        if not (isinstance(r, ast.Subscript) and isinstance(r.slice, ast.Slice) and r.slice.lower is None and r.slice.step is None
                and isinstance(r.slice.upper, ast.Constant) and isinstance(r.slice.upper.value, int)):
            raise KeyError("hash_it slice")
        if ast.unparse(r.value) not in ("hashlib.sha256(value_to_hash.encode(errors='surrogatepass')).hexdigest()",
                                        "hashlib.sha256(value_to_hash.encode()).hexdigest()"):
            raise KeyError("hash_it expression")
        return r.slice.upper.value

    dlen = o.item("c20.digest_len", digest_len, 8)

    # the isolation loop of sanitize_record: where it starts, and what the guard strips / looks for
    def isolate_items():
        fn = lf.func("sanitize_record", "LogFormatter")
        loops = [n for n in fn.body if isinstance(n, ast.For)]
        if len(loops) != 1:
            raise KeyError("loop")
        it = loops[0].iter
        if not (isinstance(it, ast.Call) and ast.unparse(it.func) == "range" and ast.unparse(it.args[-1]) == "len(parts)" and len(it.args) in (1, 2)):
            raise KeyError("range")
        start = 0 if len(it.args) == 1 else ast.literal_eval(it.args[0])
        if not isinstance(start, int) or start < 0:
            raise KeyError("start")
        first = loops[0].body[0]
        # if not parts[index].lstrip(CHARS).startswith(OPEN): continue
        t = first.test if isinstance(first, ast.If) else None
        if not (isinstance(t, ast.UnaryOp) and isinstance(t.op, ast.Not) and isinstance(t.operand, ast.Call)
                and isinstance(t.operand.func, ast.Attribute) and t.operand.func.attr == "startswith"
                and isinstance(t.operand.func.value, ast.Call) and isinstance(t.operand.func.value.func, ast.Attribute)
                and t.operand.func.value.func.attr == "lstrip" and ast.unparse(t.operand.func.value.func.value) == "parts[index]"
                and len(first.body) == 1 and isinstance(first.body[0], ast.Continue)):
            raise KeyError("guard")
        return [start, ast.literal_eval(t.operand.func.value.args[0]), ast.literal_eval(t.operand.args[0])]

    iso = o.item("c20.isolate", isolate_items, [0, " \t\r\n\ufeff", "{"])

    # every path by which a message reaches the sanitiser or an output: the call sites in the orso tree
    def call_sites():
        import os as _os
        from .. import core as _core
        names = {"LogFormatter", "GoogleLogger", "clean_record", "sanitize_record", "write_event", "log_it", "hash_it",
                 "add_logging_level", "get_logger", "color_code", "colorizer", "print", "StreamHandler", "setFormatter", "_log"}
        found = []
        root = _os.path.join(_core.REPO, "orso")
        for dp, dn, fn in _os.walk(root):
            dn[:] = sorted(d for d in dn if d != "__pycache__")
            for f in sorted(fn):
                if not f.endswith(".py"):
                    continue
                rel = _os.path.relpath(_os.path.join(dp, f), _core.REPO)
                in_logging = rel.startswith("orso/logging/")
                try:
                    tree = ast.parse(open(_os.path.join(dp, f), encoding="utf-8").read())
                except SyntaxError:
                    continue

                def visit(node, scope):
                    for ch in ast.iter_child_nodes(node):
                        sc = scope
                        if isinstance(ch, (ast.FunctionDef, ast.AsyncFunctionDef, ast.ClassDef)):
                            sc = scope + [ch.name]
                        if isinstance(ch, ast.Call):
                            callee = ch.func.attr if isinstance(ch.func, ast.Attribute) else (ch.func.id if isinstance(ch.func, ast.Name) else None)
                            if callee in names and (in_logging or callee not in ("print", "colorizer", "_log")):
                                found.append("%s:%s:%s" % (rel, ".".join(scope) or "<module>", callee))
                        visit(ch, sc)
                visit(tree, [])
        return sorted(found)

    sites = o.item("c20.call_sites", call_sites, PINNED_CALL_SITES)
    new_sites = sorted(set(sites) - set(PINNED_CALL_SITES))
    gone_sites = sorted(set(PINNED_CALL_SITES) - set(sites))
    o.json["c20.call_sites_new"] = new_sites
    o.json["c20.call_sites_gone"] = gone_sites
    if new_sites or gone_sites:
        # a new caller of the sanitiser / a new output path is not covered by the harness until someone looks
        o.degraded.append("c20.call_sites changed: new %s, gone %s" % (new_sites[:6], gone_sites[:6]))

    # get_logger(): which add_logging_level(NAME, ...) calls run on every call and which sit under a test of what the
    # process already holds (`if not hasattr(logger, "audit")`): [NAME, [source of every enclosing test, outermost first]]
    def level_installs():
        cl = Src("orso/logging/create_logger.py")
        fn = cl.func("get_logger")
        found = []

        def walk(stmts, guards):
            for st in stmts:
                if isinstance(st, ast.If):
                    src = ast.unparse(st.test)
                    walk(st.body, guards + [src])
                    walk(st.orelse, guards + ["not (%s)" % src])
                elif isinstance(st, (ast.For, ast.While, ast.With, ast.Try)):
                    inner = guards + ["<%s>" % type(st).__name__.lower()]
                    for part in ("body", "orelse", "finalbody"):
                        walk(getattr(st, part, []) or [], inner)
                    for h in getattr(st, "handlers", []) or []:
                        walk(h.body, inner)
                else:
                    for n in ast.walk(st):
                        if isinstance(n, ast.Call) and (getattr(n.func, "id", None) == "add_logging_level" or getattr(n.func, "attr", None) == "add_logging_level"):
                            if isinstance(st, ast.Return):
                                raise KeyError("add_logging_level inside a return")
                            if not n.args or not isinstance(n.args[0], ast.Constant) or not isinstance(n.args[0].value, str):
                                raise KeyError("add_logging_level with a computed name")
                            found.append([n.args[0].value, list(guards)])
                if isinstance(st, ast.Return) and not guards:
                    break
        # statements after an unguarded early return do not run: the GoogleLogger branch returns under its own test
        walk(fn.body, [])
        if not found:
            raise KeyError("no add_logging_level call in get_logger")
        return found

    installs = o.item("c20.level_installs", level_installs, PINNED_INSTALLS)

    exch = o.item("c20.COLOR_EXCHANGES", lambda: [[k, v] for k, v in lf.assign("COLOR_EXCHANGES").items()], PINNED_EXCH)
    codes = o.item("c20.COLOR_CODES", lambda: dict(lf.assign("COLOR_CODES")), PINNED_CODES)
    for k in PINNED_CODES:
        if k not in codes:
            o.degraded.append("c20.COLOR_CODES lacks %s" % k)
            codes = PINNED_CODES
            break
    colors = o.item("c20.display.COLORS", lambda: [[k, v] for k, v in disp.assign("COLORS").items()], None)
    if colors is None:
        colors = []

    def chars(t):
        """explicit character list (kernel-reducible, unlike String.toList on a literal)"""
        out = []
        for ch in t:
            if 32 <= ord(ch) < 127 and ch not in "'\\":
                out.append("'%s'" % ch)
            else:
                out.append("Char.ofNat %d" % ord(ch))
        return "[" + ", ".join(out) + "]"

    def pair(p):
        return "(%s, %s)" % (chars(p[0]), chars(p[1]))

    text = HEADER + "namespace Gen.Sanitise\n"
    text += "/-- KEYS_TO_SANITIZE as written -/\n"
    text += "def keySources : List String := %s\n" % lean_list(keys, lean_str)
    text += "/-- the same, parsed: (leading `.*`, literal, trailing `$`) -/\n"
    text += "def keyPatterns : List (Bool × List Char × Bool) := %s\n" % lean_list(
        pats, lambda p: "(%s, %s, %s)" % ("true" if p[0] else "false", chars(p[1]), "true" if p[2] else "false"))
    text += "def ignoreCase : Bool := %s\n" % ("true" if icase else "false")
    text += "/-- the method clean_record applies to a key: match | search | fullmatch -/\n"
    text += "def matchModeName : String := %s\n" % lean_str(md)
    text += "/-- 0 = match (anchored at the start), 1 = search, 2 = fullmatch -/\n"
    text += "def matchMode : Nat := %d\n" % {"match": 0, "search": 1, "fullmatch": 2}[md]
    text += "def urlSource : String := %s\n" % lean_str(u[0])
    text += "def urlGuard : List Char := %s\n" % chars(guard)
    text += "def urlOpen : List Char := %s\n" % chars(uparts[0])
    text += "def urlClose : Char := %s\n" % ("Char.ofNat %d" % ord(uparts[1]))
    text += "def urlReplacement : List Char := %s\n" % chars(urepl)
    text += "/-- the URL rule of GoogleLogger.write_event for a text message -/\n"
    text += "def gUrlSource : String := %s\n" % lean_str(gu[0])
    text += "def gUrlGuard : List Char := %s\n" % chars(gguard)
    text += "def gUrlOpen : List Char := %s\n" % chars(guparts[0])
    text += "def gUrlClose : Char := %s\n" % ("Char.ofNat %d" % ord(guparts[1]))
    text += "def gUrlReplacement : List Char := %s\n" % chars(gurepl)
    text += "/-- hash_it keeps this many hex digits of SHA-256 -/\n"
    text += "def digestLen : Nat := %d\n" % dlen
    text += "/-- sanitize_record: first index the isolation loop tries; what the guard strips; what it looks for -/\n"
    text += "def isolateStart : Nat := %d\n" % iso[0]
    text += "def guardStrip : List Char := %s\n" % chars(iso[1])
    text += "def guardOpen : List Char := %s\n" % chars(iso[2])
    text += "def colorExchanges : List (List Char × List Char) := %s\n" % lean_list(exch, pair)
    for k in ("KEY", "OFF", "PURPLE", "YELLOW", "VALUE"):
        text += "def code%s : List Char := %s\n" % (k.capitalize(), chars(codes[k]))
    text += "/-- orso.display.COLORS in source order -/\n"
    text += "def displayColors : List (List Char × List Char) := %s\n" % lean_list(colors, pair)
    text += "/-- get_logger(): every add_logging_level(NAME, ..) call with the tests it sits under (none: runs on every call) -/\n"
    text += "def levelInstalls : List (String × List String) := %s\n" % lean_list(installs, lambda p: "(%s, %s)" % (lean_str(p[0]), lean_list(p[1], lean_str)))
    text += "end Gen.Sanitise\n"
    o.files["Sanitise.lean"] = text
