"""C20 — log sanitiser tables: orso/logging/log_formatter.py and the colour table of orso/display.py.

Extracted on every run into Generated/Sanitise.lean (namespace Gen.Sanitise):

* the regular-expression sources of KEYS_TO_SANITIZE, parsed into the fragment the model
  understands: optional leading `.*`, a literal of word characters, optional trailing `$`;
* whether the patterns are compiled with re.IGNORECASE;
* the method clean_record applies to a key (`match`, `search` or `fullmatch`);
* the URL user-info regular expression of format(), parsed into opening literal / lazy-any /
  closing literal, and the replacement text;
* COLOR_EXCHANGES, COLOR_CODES and display.COLORS (pure data the exact output depends on).
"""
import ast
import re

from ..extract import HEADER, Src, lean_list, lean_str

PINNED_KEYS = [r"password$", r"pwd$", r".*_secret$", r".*_key$", r"_token$", r"credentials"]
PINNED_EXCH = [
    [" ALERT    ", "\001BOLD_REDm ALERT    \001OFFm"],
    [" ERROR    ", "\001REDm ERROR    \001OFFm"],
    [" DEBUG    ", "\001GREENm DEBUG    \001OFFm"],
    [" AUDIT    ", "\001YELLOWm AUDIT    \001OFFm"],
    [" WARNING  ", "\001BOLD_REDm WARNING  \001OFFm"],
    [" INFO     ", "\001BOLD_WHITEm INFO     \001OFFm"],
]
PINNED_CODES = {"KEY": "\001KEYm", "OFF": "\001OFFm", "PURPLE": "\001PURPLEm", "YELLOW": "\001YELLOWm", "VALUE": "\001VALUEm"}
PINNED_URL = [r":\/\/(.*?)\@", "://\001BOLD_PURLEm<redacted>\001OFFm"]


def parse_key_pattern(src):
    """`.*`? literal `$`?  ->  (lead, literal, dollar); anything else is outside the fragment."""
    s = src
    lead = s.startswith(".*")
    if lead:
        s = s[2:]
    dollar = s.endswith("$")
    if dollar:
        s = s[:-1]
    if not re.fullmatch(r"[A-Za-z0-9_]*", s):
        raise ValueError("pattern outside the modelled fragment: %r" % src)
    return [lead, s, dollar]


def parse_url_pattern(src):
    m = re.fullmatch(r"(.*?)\(\.\*(\??)\)(.*)", src)
    if not m:
        raise ValueError("url pattern shape")

    def lit(t):
        out = []
        i = 0
        while i < len(t):
            if t[i] == "\\" and i + 1 < len(t) and not t[i + 1].isalnum():
                out.append(t[i + 1])
                i += 2
            elif t[i] in ".^$*+?{}[]|()\\":
                raise ValueError("url pattern metacharacter")
            else:
                out.append(t[i])
                i += 1
        return "".join(out)

    o, c = lit(m.group(1)), lit(m.group(3))
    if not o or len(c) != 1 or m.group(2) != "?":
        raise ValueError("url pattern outside the modelled fragment")
    return [o, c]


def generate(o):
    lf = Src("orso/logging/log_formatter.py")
    disp = Src("orso/display.py")

    keys = o.item("c20.KEYS_TO_SANITIZE", lambda: [str(x) for x in lf.assign("KEYS_TO_SANITIZE")], PINNED_KEYS)
    pats = o.item("c20.key_patterns", lambda: [parse_key_pattern(k) for k in keys], [parse_key_pattern(k) for k in PINNED_KEYS])

    def flags():
        for node in lf.tree.body:
            if isinstance(node, ast.Assign) and any(isinstance(t, ast.Name) and t.id == "COMPILED_KEYS_TO_SANITIZE" for t in node.targets):
                calls = [n for n in ast.walk(node.value) if isinstance(n, ast.Call) and isinstance(n.func, ast.Attribute) and n.func.attr == "compile"]
                if len(calls) != 1:
                    raise KeyError("re.compile call")
                names = sorted(n.attr for a in calls[0].args[1:] + [k.value for k in calls[0].keywords] for n in ast.walk(a) if isinstance(n, ast.Attribute))
                other = [n for n in names if n not in ("IGNORECASE", "I")]
                if other:
                    raise KeyError("unmodelled flags %s" % other)
                return bool(names)
        raise KeyError("COMPILED_KEYS_TO_SANITIZE")

    icase = o.item("c20.ignorecase", flags, True)

    def mode():
        fn = lf.func("clean_record", "LogFormatter")
        found = []
        for n in ast.walk(fn):
            if isinstance(n, ast.Call) and isinstance(n.func, ast.Attribute) and isinstance(n.func.value, ast.Name) \
                    and n.func.value.id == "regex" and n.func.attr in ("match", "search", "fullmatch"):
                found.append(n.func.attr)
        if len(set(found)) != 1:
            raise KeyError("key test method %r" % found)
        return found[0]

    md = o.item("c20.match_mode", mode, "search")

    def url():
        fn = lf.func("format", "LogFormatter")
        for n in ast.walk(fn):
            if isinstance(n, ast.Call) and isinstance(n.func, ast.Attribute) and n.func.attr == "sub" and len(n.args) >= 2:
                return [ast.literal_eval(n.args[0]), ast.literal_eval(n.args[1])]
        raise KeyError("re.sub in format")

    u = o.item("c20.url_sub", url, PINNED_URL)
    uparts = o.item("c20.url_parts", lambda: parse_url_pattern(u[0]), parse_url_pattern(PINNED_URL[0]))

    # the replacement is a template: expand its escapes (no group references are modelled)
    urepl = o.item("c20.url_replacement", lambda: re.sub(r"\A", u[1], "", count=1), "://\001BOLD_PURLEm<redacted>\001OFFm")

    def url_guard():
        fn = lf.func("format", "LogFormatter")
        for n in ast.walk(fn):
            if isinstance(n, ast.If) and isinstance(n.test, ast.Compare) and isinstance(n.test.ops[0], ast.In):
                return ast.literal_eval(n.test.left)
        raise KeyError("guard")

    guard = o.item("c20.url_guard", url_guard, "://")

    exch = o.item("c20.COLOR_EXCHANGES", lambda: [[k, v] for k, v in lf.assign("COLOR_EXCHANGES").items()], PINNED_EXCH)
    codes = o.item("c20.COLOR_CODES", lambda: dict(lf.assign("COLOR_CODES")), PINNED_CODES)
    for k in PINNED_CODES:
        if k not in codes:
            o.degraded.append("c20.COLOR_CODES lacks %s" % k)
            codes = PINNED_CODES
            break
    colors = o.item("c20.display.COLORS", lambda: [[k, v] for k, v in disp.assign("COLORS").items()], None)
    if colors is None:
        colors = []

    def chars(t):
        """explicit character list (kernel-reducible, unlike String.toList on a literal)"""
        out = []
        for ch in t:
            if 32 <= ord(ch) < 127 and ch not in "'\\":
                out.append("'%s'" % ch)
            else:
                out.append("Char.ofNat %d" % ord(ch))
        return "[" + ", ".join(out) + "]"

    def pair(p):
        return "(%s, %s)" % (chars(p[0]), chars(p[1]))

    text = HEADER + "namespace Gen.Sanitise\n"
    text += "/-- KEYS_TO_SANITIZE as written -/\n"
    text += "def keySources : List String := %s\n" % lean_list(keys, lean_str)
    text += "/-- the same, parsed: (leading `.*`, literal, trailing `$`) -/\n"
    text += "def keyPatterns : List (Bool × List Char × Bool) := %s\n" % lean_list(
        pats, lambda p: "(%s, %s, %s)" % ("true" if p[0] else "false", chars(p[1]), "true" if p[2] else "false"))
    text += "def ignoreCase : Bool := %s\n" % ("true" if icase else "false")
    text += "/-- the method clean_record applies to a key: match | search | fullmatch -/\n"
    text += "def matchModeName : String := %s\n" % lean_str(md)
    text += "/-- 0 = match (anchored at the start), 1 = search, 2 = fullmatch -/\n"
    text += "def matchMode : Nat := %d\n" % {"match": 0, "search": 1, "fullmatch": 2}[md]
    text += "def urlSource : String := %s\n" % lean_str(u[0])
    text += "def urlGuard : List Char := %s\n" % chars(guard)
    text += "def urlOpen : List Char := %s\n" % chars(uparts[0])
    text += "def urlClose : Char := %s\n" % ("Char.ofNat %d" % ord(uparts[1]))
    text += "def urlReplacement : List Char := %s\n" % chars(urepl)
    text += "def colorExchanges : List (List Char × List Char) := %s\n" % lean_list(exch, pair)
    for k in ("KEY", "OFF", "PURPLE", "YELLOW", "VALUE"):
        text += "def code%s : List Char := %s\n" % (k.capitalize(), chars(codes[k]))
    text += "/-- orso.display.COLORS in source order -/\n"
    text += "def displayColors : List (List Char × List Char) := %s\n" % lean_list(colors, pair)
    text += "end Gen.Sanitise\n"
    o.files["Sanitise.lean"] = text
