"""C09: the comparison operators of the RLE run detection and of the sparse scan (orso/schema.py)."""
import ast

from ..extract import HEADER, Src


def generate(o):
    src = Src("orso/schema.py")

    def rle_compare():
        fn = src.func("__init__", "RLEColumn")
        for n in ast.walk(fn):
            if isinstance(n, ast.If) and isinstance(n.test, ast.Compare) and len(n.test.ops) == 1:
                names = {x.id for x in ast.walk(n.test) if isinstance(x, ast.Name)}
                if names == {"value", "prev_value"}:
                    return type(n.test.ops[0]).__name__
        raise KeyError("if value <op> prev_value")

    def run_start():
        fn = src.func("__init__", "RLEColumn")
        vals = []
        for n in ast.walk(fn):
            if isinstance(n, ast.Assign) and len(n.targets) == 1 and isinstance(n.targets[0], ast.Name) \
                    and n.targets[0].id == "run_length":
                vals.append(ast.literal_eval(n.value))
        if not vals or len(set(vals)) != 1:
            raise KeyError("run_length = <const>")
        return vals[0]

    def sparse_compare():
        fn = src.func("__init__", "SparseColumn")
        for n in ast.walk(fn):
            if isinstance(n, ast.Compare) and len(n.ops) == 1 and isinstance(n.comparators[0], ast.Attribute) \
                    and n.comparators[0].attr == "default_value":
                return type(n.ops[0]).__name__
        raise KeyError("<array> <op> self.default_value")

    rc = o.item("schema.rle_compare", rle_compare, "Eq")
    rs = o.item("schema.rle_run_start", run_start, 1)
    sc = o.item("schema.sparse_compare", sparse_compare, "NotEq")
    text = HEADER + "namespace Gen.Encodings\n"
    text += "/-- `if value == prev_value` in RLEColumn.__init__ (found: %s) -/\n" % rc
    text += "def rleCompareIsEq : Bool := %s\n" % ("true" if rc == "Eq" else "false")
    text += "/-- every `run_length = <n>` in RLEColumn.__init__ -/\n"
    text += "def runStart : Nat := %d\n" % (rs if isinstance(rs, int) and rs >= 0 else 0)
    text += "/-- `numpy.array(self.values) != self.default_value` in SparseColumn.__init__ (found: %s) -/\n" % sc
    text += "def sparseCompareIsNe : Bool := %s\n" % ("true" if sc == "NotEq" else "false")
    text += "end Gen.Encodings\n"
    o.files["Encodings.lean"] = text
