"""C09: the column encodings of orso/schema.py, regenerated from the working tree on every run.

* `Generated/Encodings.lean` — the bodies of RLEColumn.__init__/materialize, SparseColumn.__init__/
  materialize, DictionaryColumn.__init__/materialize, ConstantColumn.__init__/materialize and
  FunctionColumn.materialize translated statement by statement (harness/pystmt.py); the dtype
  decision of SparseColumn.materialize (the guard over the dtype kinds and both branches) as
  `sparseResultDType`; and the three scalar facts the first version extracted (comparison operator
  of the run detection, of the sparse scan, initial run length).
* `Generated/NpDtypes.lean` — dtype kind, item size, integer range, float format of numpy's numeric
  dtypes and the whole `numpy.promote_types` table, asked of the installed numpy at run time.

Every item degrades to its pinned text when the source (or numpy) is not in the expected shape.
"""
import ast
import os
import re

from .. import core
from .. import pystmt_np as pystmt
from ..extract import GEN_DIR, HEADER, Src
from ..pystmt_np import Spec, Untranslatable
from .c09_pinned import PINNED

ELEM_CMP = "(eq : α → α → Bool)"

NUMS = ["bool", "int8", "int16", "int32", "int64", "uint8", "uint16", "uint32", "uint64",
        "float16", "float32", "float64", "complex64", "complex128"]
CTOR = {"bool": "bool", "int8": "i8", "int16": "i16", "int32": "i32", "int64": "i64", "uint8": "u8", "uint16": "u16",
        "uint32": "u32", "uint64": "u64", "float16": "f16", "float32": "f32", "float64": "f64", "complex64": "c64",
        "complex128": "c128"}
KINDS = set("biufcUSOMmV")


def specs():
    """(key, (function, class), Spec) for every translated function."""
    out = []
    out.append(("rleInit", ("__init__", "RLEColumn"), Spec(
        # (`sameClass`: "of the same class", for a run test that looks at the classes of the two values; a source that
        # does not is translated to a definition that ignores the parameter)
        "rleInit", "(eq : α → α → Bool) (sameClass : α → α → Bool) (self_values : List α)", "List α × List Nat",
        ctx_binders="(eq : α → α → Bool) (sameClass : α → α → Bool)", ctx_args="eq sameClass", cmp={"Eq": "eq", "SameClass": "sameClass"},
        var_types={"run_values": "List α", "run_lengths": "List Nat", "self.values": "List α", "self.lengths": "List Nat"},
        init_scope={"self.values": ("self_values", "List α"), "self.lengths": ("self_lengths", "List Nat")},
        # (`lengths` is a dataclass field with `default_factory=list`: FlatColumn.__init__ sets it to [])
        prelude=["let self_lengths : List Nat := []"], outputs=["self.values", "self.lengths"],
        skip_stmts={"super().__init__(**kwargs)"},
        expect_loops=[["prev_value", "run_length", "run_lengths", "run_values"]], doc="RLEColumn.__init__")))
    out.append(("rleMaterialize", ("materialize", "RLEColumn"), Spec(
        "rleMaterialize", "(self_values : List α) (self_lengths : List Nat)", "List α",
        var_types={"materialized": "List α"},
        init_scope={"self.values": ("self_values", "List α"), "self.lengths": ("self_lengths", "List Nat")},
        expect_loops=[["materialized"]], doc="RLEColumn.materialize", frozen_self=True)))
    out.append(("functionMaterialize", ("materialize", "FunctionColumn"), Spec(
        "functionMaterialize", "{γ : Type} (binding : γ → α) (configuration : γ) (self_length : Nat)", "List α",
        env={"self.binding(*self.configuration)": ("binding configuration", "α")},
        init_scope={"self.length": ("self_length", "Nat")}, expect_loops=[], doc="FunctionColumn.materialize", frozen_self=True)))
    out.append(("constInit", ("__init__", "ConstantColumn"), Spec(
        "constInit", "(self_value : α)", "List α", var_types={"self.values": "List α"},
        init_scope={"self.value": ("self_value", "α")}, outputs=["self.values"],
        skip_stmts={"super().__init__(**kwargs)"}, expect_loops=[], doc="ConstantColumn.__init__")))
    out.append(("constMaterialize", ("materialize", "ConstantColumn"), Spec(
        "constMaterialize", "(self_length : Nat) (self_values : List α)", "List α",
        init_scope={"self.length": ("self_length", "Nat"), "self.values": ("self_values", "List α")},
        expect_loops=[], doc="ConstantColumn.materialize", frozen_self=True)))
    out.append(("sparseInit", ("__init__", "SparseColumn"), Spec(
        "sparseInit", "(ne : α → α → Bool) (isPyNumber : α → Bool) (self_values : List α) (self_default_value : α)",
        "List Nat × List α × Nat", cmp={"NotEq": "ne"},
        env={"(int, float)": ("isPyNumber", ""), "kwargs.get('values', [])": ("values0", "List α")},
        var_types={"self.values": "List α", "self.indices": "List Nat", "self.total_length": "Nat"},
        init_scope={"self.values": ("self_values", "List α"), "self.default_value": ("self_default_value", "α")},
        # (`values` is always passed by keyword: `kwargs.get("values", [])` is the input sequence)
        prelude=["let values0 : List α := self_values"], outputs=["self.indices", "self.values", "self.total_length"],
        skip_stmts={"super().__init__(**kwargs)"}, expect_loops=[], doc="SparseColumn.__init__")))
    out.append(("sparseMaterialize", ("materialize", "SparseColumn"), Spec(
        "sparseMaterialize", "{DT : Type} (cast : DT → α → Option α) (dtype : DT) (self_values : List α) "
        "(self_default_value : α) (self_indices : List Nat) (self_total_length : Nat)", "List α",
        env={"dtype": ("dtype", "DT")}, skip_targets={"kinds", "dtype", "default"},
        init_scope={"self.values": ("self_values", "List α"), "self.default_value": ("self_default_value", "α"),
                    "self.indices": ("self_indices", "List Nat"), "self.total_length": ("self_total_length", "Nat")},
        expect_loops=[], doc="SparseColumn.materialize", frozen_self=True)))
    out.append(("dictInit", ("__init__", "DictionaryColumn"), Spec(
        "dictInit", "[DecidableEq α] (le : α → α → Bool) (self_values : List α)", "List α × List Nat",
        var_types={"self.values": "List α", "self.encoding": "List Nat"},
        init_scope={"self.values": ("self_values", "List α")}, outputs=["self.values", "self.encoding"],
        skip_stmts={"super().__init__(**kwargs)"}, expect_loops=[], doc="DictionaryColumn.__init__")))
    out.append(("dictMaterialize", ("materialize", "DictionaryColumn"), Spec(
        "dictMaterialize", "(self_values : List α) (self_encoding : List Nat)", "List α",
        init_scope={"self.values": ("self_values", "List α"), "self.encoding": ("self_encoding", "List Nat")},
        expect_loops=[], doc="DictionaryColumn.materialize", frozen_self=True)))
    out.append(("ctorResolve", ("__init__", "FlatColumn", "isinstance(self.type, OrsoTypes)"), Spec(
        "ctorResolve", "{ET : Type} (self_element_type : Option ET) (self_precision self_scale self_length : Option Nat) "
        "(u_element_type : Option ET) (u_precision u_scale u_length : Option Nat)",
        "Option ET × Option Nat × Option Nat × Option Nat",
        init_scope={"self.element_type": ("self_element_type", "Option ET"), "self.precision": ("self_precision", "Option Nat"),
                    "self.scale": ("self_scale", "Option Nat"), "self.length": ("self_length", "Option Nat"),
                    "_element_type": ("u_element_type", "Option ET"), "_precision": ("u_precision", "Option Nat"),
                    "_scale": ("u_scale", "Option Nat"), "_length": ("u_length", "Option Nat")},
        outputs=["self.element_type", "self.precision", "self.scale", "self.length"], expect_loops=[],
        doc="FlatColumn.__init__, the block `if isinstance(self.type, OrsoTypes):` (the parameters parsed from a type name "
            "meet the keywords)")))
    return out


class _Block:
    """The body of one `if <test>:` of a function, presented to the translator as a function body."""

    def __init__(self, fn, test):
        found = [n for n in ast.walk(fn) if isinstance(n, ast.If) and ast.unparse(n.test) == test]
        if len(found) != 1 or found[0].orelse:
            raise Untranslatable("%d blocks `if %s:` without else" % (len(found), test))
        self.body = found[0].body


# --------------------------------------------------------------------------- helpers written out
#
# Before a method is translated, calls to small helpers are written out in place, so that a refactor
# which moves an expression into a helper is *retranslated* (and the theorems re-checked against it)
# instead of degrading:
#   * a module-level function / a method of the same class whose body is `return <expression>`
#     (after an optional docstring), undecorated, with plain positional parameters: the call is
#     replaced by the expression with the arguments substituted.  A *decorated* helper is left alone
#     (a decorator may do anything -- cache, retry, log): the call then is outside the translated
#     subset and the item degrades;
#   * a local name assigned once from an attribute of `self` and never assigned again is replaced by
#     the attribute (`binding = self.binding`);
#   * `f(*tuple(x))` / `f(*list(x))` is `f(*x)`.


def _single_return(fd):
    body = [st for st in fd.body if not (isinstance(st, ast.Expr) and isinstance(st.value, ast.Constant) and isinstance(st.value.value, str))]
    if len(body) == 1 and isinstance(body[0], ast.Return) and body[0].value is not None:
        return body[0].value
    return None


def _plain_params(fd, method):
    a = fd.args
    if fd.decorator_list or a.vararg or a.kwarg or a.kwonlyargs or a.posonlyargs or a.defaults or isinstance(fd, ast.AsyncFunctionDef):
        return None
    names = [x.arg for x in a.args]
    if method:
        if not names or names[0] != "self":
            return None
        names = names[1:]
    return names


class _Subst(ast.NodeTransformer):
    def __init__(self, mapping):
        self.mapping = mapping

    def visit_Name(self, n):
        if isinstance(n.ctx, ast.Load) and n.id in self.mapping:
            return ast.parse(ast.unparse(self.mapping[n.id]), mode="eval").body
        return n


class _Inline(ast.NodeTransformer):
    def __init__(self, module, cls, depth=0):
        self.funcs = {n.name: n for n in module.body if isinstance(n, ast.FunctionDef)} if module is not None else {}
        self.methods = {n.name: n for n in cls.body if isinstance(n, ast.FunctionDef)} if cls is not None else {}
        self.module, self.cls, self.depth = module, cls, depth
        self.written_out = []

    def visit_Call(self, n):
        self.generic_visit(n)
        # f(*tuple(x)) -> f(*x)
        for i, a in enumerate(n.args):
            if isinstance(a, ast.Starred) and isinstance(a.value, ast.Call) and isinstance(a.value.func, ast.Name) \
                    and a.value.func.id in ("tuple", "list") and len(a.value.args) == 1 and not a.value.keywords:
                n.args[i] = ast.Starred(value=a.value.args[0], ctx=ast.Load())
        fd, method = None, False
        if isinstance(n.func, ast.Name) and n.func.id in self.funcs:
            fd = self.funcs[n.func.id]
        elif isinstance(n.func, ast.Attribute) and isinstance(n.func.value, ast.Name) and n.func.value.id == "self" \
                and n.func.attr in self.methods:
            fd, method = self.methods[n.func.attr], True
        if fd is None or self.depth >= 3:
            return n
        params = _plain_params(fd, method)
        ret = _single_return(fd)
        if params is None or ret is None or any(isinstance(a, ast.Starred) for a in n.args) or any(k.arg is None for k in n.keywords):
            return n
        if len(n.args) > len(params):
            return n
        mapping = dict(zip(params, n.args))
        for k in n.keywords:
            if k.arg not in params or k.arg in mapping:
                return n
            mapping[k.arg] = k.value
        if set(mapping) != set(params):
            return n
        # the helper's own locals are its parameters only (single return expression); comprehension /
        # lambda binders inside it could capture: leave such helpers alone
        if any(isinstance(x, (ast.Lambda, ast.ListComp, ast.SetComp, ast.DictComp, ast.GeneratorExp, ast.NamedExpr)) for x in ast.walk(ret)):
            return n
        body = _Subst(mapping).visit(ast.parse(ast.unparse(ret), mode="eval").body)
        body = _Inline(self.module, self.cls, self.depth + 1).visit(body)
        self.written_out.append(fd.name)
        return body


def _propagate_self_aliases(fn):
    """`x = self.attr` (assigned once, `self.attr` not assigned in the function) -> uses of `x` read `self.attr`."""
    counts, alias = {}, {}
    for name in pystmt.assigned(fn.body):
        counts[name] = 0
    for n in ast.walk(fn):
        if isinstance(n, (ast.Assign, ast.AugAssign, ast.AnnAssign, ast.For, ast.With, ast.NamedExpr)):
            for nm in pystmt.assigned([n]) if not isinstance(n, (ast.AnnAssign, ast.With, ast.NamedExpr)) else ["<other>"]:
                counts[nm] = counts.get(nm, 0) + 1
    if "<other>" in counts:
        return fn
    for st in fn.body:
        if isinstance(st, ast.Assign) and len(st.targets) == 1 and isinstance(st.targets[0], ast.Name) \
                and isinstance(st.value, ast.Attribute) and isinstance(st.value.value, ast.Name) and st.value.value.id == "self" \
                and counts.get(st.targets[0].id) == 1 and counts.get("self." + st.value.attr, 0) == 0:
            alias[st.targets[0].id] = st.value
    if not alias:
        return fn
    fn.body = [st for st in fn.body if not (isinstance(st, ast.Assign) and len(st.targets) == 1 and isinstance(st.targets[0], ast.Name)
                                            and st.targets[0].id in alias)]
    return _Subst(alias).visit(fn)


def written_out(src, fn_name, cls_name):
    """A copy of the method with helper calls written out in place (see above)."""
    fn = src.func(fn_name, cls_name)
    fn = ast.parse(ast.unparse(fn)).body[0]  # a private copy
    cls = next((n for n in src.tree.body if isinstance(n, ast.ClassDef) and n.name == cls_name), None)
    fn = _propagate_self_aliases(fn)
    fn = _Inline(src.tree, cls).visit(fn)
    return ast.fix_missing_locations(fn)


def source_of(src, where):
    fn = written_out(src, where[0], where[1])
    return fn if len(where) == 2 else _Block(fn, where[2])


def rle_extends(fn, spec):
    """`Gen.Encodings.rleExtends`: the test of the run-detection loop of RLEColumn.__init__ under which a value
    *extends* the current run (the branch that increments `run_length`), as a function of the two values.  The
    theorems about the stored form ("adjacent runs differ") are stated over it."""
    loops = [n for n in ast.walk(fn) if isinstance(n, ast.For)]
    if len(loops) != 1 or not isinstance(loops[0].target, ast.Name):
        raise Untranslatable("%d loops in RLEColumn.__init__" % len(loops))
    var = loops[0].target.id
    ifs = [s for s in loops[0].body if isinstance(s, ast.If)]
    if len(ifs) != 1:
        raise Untranslatable("%d tests in the run-detection loop" % len(ifs))

    def increments(stmts):
        return any(isinstance(x, ast.AugAssign) and isinstance(x.op, ast.Add) and ast.unparse(x.target) == "run_length"
                   and ast.unparse(x.value) == "1" for st in stmts for x in ast.walk(st))

    test = ifs[0].test
    names = {x.id for x in ast.walk(test) if isinstance(x, ast.Name)} - {"type"}
    if names != {var, "prev_value"} or var != "value" or increments(ifs[0].body) == increments(ifs[0].orelse):
        raise Untranslatable("run test " + ast.unparse(test)[:60])
    tr = pystmt.Translator(spec)
    v = tr.expr(test, {"value": ("value", spec.elem), "prev_value": ("prev_value", spec.elem)})
    tr.pure(v)
    if v.ty != "Bool":
        raise Untranslatable("run test of type " + v.ty)
    term = v.term if increments(ifs[0].body) else "!(%s)" % v.term
    return ("/-- the run test of `RLEColumn.__init__` (`if %s:`, the increment of `run_length` in the %s branch): a value\n"
            "extends the current run exactly when this holds -/\n"
            "def rleExtends %s (value prev_value : %s) : Bool :=\n  %s\n"
            % (ast.unparse(test), "`if`" if increments(ifs[0].body) else "`else`", spec.ctx_binders, spec.elem, term))


def class_length_default(src, cls):
    """`length: int = <n>` in the class body (the dataclass field default the shared constructor assigns when
    the keyword is absent)."""
    if src.tree is None:
        raise KeyError("orso/schema.py does not parse")
    for n in ast.walk(src.tree):
        if isinstance(n, ast.ClassDef) and n.name == cls:
            for st in n.body:
                if isinstance(st, ast.AnnAssign) and isinstance(st.target, ast.Name) and st.target.id == "length":
                    if st.value is None:
                        raise KeyError("%s.length has no default" % cls)
                    v = ast.literal_eval(st.value)
                    if v is None:
                        return None
                    if type(v) is int and v >= 0:
                        return v
                    raise KeyError("%s.length default %r" % (cls, v))
            return None  # inherited from FlatColumn: None
    raise KeyError("class " + cls)


def function_configuration_arity(src):
    """Number of arguments in the default `configuration` of FunctionColumn (`field(default_factory=tuple)`,
    `()`, `tuple()` -> 0; a literal tuple -> its length)."""
    if src.tree is None:
        raise KeyError("orso/schema.py does not parse")
    for n in src.tree.body:
        if isinstance(n, ast.ClassDef) and n.name == "FunctionColumn":
            for st in n.body:
                if isinstance(st, ast.AnnAssign) and isinstance(st.target, ast.Name) and st.target.id == "configuration":
                    v = st.value
                    if v is None:
                        raise KeyError("FunctionColumn.configuration has no default")
                    if isinstance(v, ast.Call) and ast.unparse(v.func) in ("field", "dataclasses.field") and not v.args:
                        kws = {k.arg: k.value for k in v.keywords}
                        if set(kws) == {"default_factory"} and ast.unparse(kws["default_factory"]) in ("tuple", "list"):
                            return 0
                        if set(kws) == {"default"}:
                            v = kws["default"]
                        else:
                            raise KeyError("FunctionColumn.configuration = " + ast.unparse(st.value)[:40])
                    if isinstance(v, ast.Call) and ast.unparse(v.func) in ("tuple", "list") and not v.args and not v.keywords:
                        return 0
                    if isinstance(v, ast.Tuple):
                        return len(v.elts)
                    raise KeyError("FunctionColumn.configuration = " + ast.unparse(v)[:40])
            raise KeyError("FunctionColumn.configuration")
    raise KeyError("class FunctionColumn")


# --------------------------------------------------------------------------- the dtype decision


# --------------------------------------------------------------------------- whose array does `materialize` return?

_NEW_ARRAY = {"numpy.full", "numpy.array", "numpy.repeat", "numpy.take", "numpy.tile", "numpy.concatenate", "numpy.copy",
              "numpy.zeros", "numpy.ones", "numpy.empty", "numpy.full_like", "numpy.zeros_like", "numpy.ones_like",
              "numpy.empty_like", "numpy.fromiter", "numpy.hstack", "numpy.arange", "numpy.where", "numpy.nonzero",
              "numpy.flatnonzero", "numpy.argsort", "numpy.sort", "numpy.unique", "numpy.char.upper", "numpy.char.add"}
_SAME_OR_NEW = {"numpy.asarray", "numpy.asanyarray", "numpy.ascontiguousarray"}
_WINDOW = {"numpy.broadcast_to", "numpy.reshape", "numpy.ravel", "numpy.squeeze", "numpy.atleast_1d", "numpy.transpose",
           "numpy.flip", "numpy.expand_dims", "numpy.lib.stride_tricks.as_strided", "numpy.lib.stride_tricks.sliding_window_view",
           "numpy.broadcast_arrays", "numpy.swapaxes", "numpy.moveaxis"}
_NEW_METHODS = {"copy", "astype", "repeat", "take", "flatten", "compress", "round", "clip"}
_WINDOW_METHODS = {"view", "reshape", "ravel", "squeeze", "transpose", "swapaxes"}


STORED_ATTRS = ("values", "indices", "encoding", "lengths")


def materialize_origin(fn, stored_attrs=False):
    """With `stored_attrs` (an `__init__`): the same reading for the arrays the constructor STORES -- `self.<attr>`
    as the method finds it is the caller's input; `alias` when, at the end of the body or at any `return`, one of
    `self.values / indices / encoding / lengths` that the method assigns is the input or a window onto it (for one
    shape of input is enough), `fresh` when every one it assigns is recognised as built anew.

    `fresh` when every `return` of the method hands out an array (or list) built anew -- numpy.full /
    numpy.array / repeat / take / indexing by an index array / arithmetic; `alias` when it hands out a
    window onto an array stored on the column -- numpy.broadcast_to / slicing / view / reshape / asarray of
    `self.<attr>`, or the attribute itself.  Anything else is not recognised (KeyError: the item degrades)."""
    def no_copy_false(call):
        return not any(k.arg == "copy" for k in call.keywords) and not any(k.arg == "out" for k in call.keywords)

    env = {}  # name -> origin of what it is bound to where the walk stands (absent / None: not recognised)
    in_empty = [0]

    def org(e, depth=0):
        if depth > 12 or e is None:
            raise KeyError("materialize: an expression whose origin is not recognised")
        if isinstance(e, ast.Name):
            if env.get(e.id) is None:
                raise KeyError("materialize: `%s` is bound to something that is not recognised" % e.id)
            return env[e.id]
        if isinstance(e, ast.Attribute):
            if isinstance(e.value, ast.Name) and e.value.id == "self":
                # (an attribute the method itself has just bound is what it was bound to: a scratch array built in
                # this call; any other attribute is an array stored on the column)
                key = "self." + e.attr
                if key in env:
                    if env[key] is None:
                        raise KeyError("materialize: `%s` is bound to something that is not recognised" % key)
                    return env[key]
                if stored_attrs and e.attr not in STORED_ATTRS:
                    # (in a constructor only the array attributes are the caller's sequence; `self.value`,
                    # `self.default_value`, `self.length` are scalars)
                    raise KeyError("__init__: attribute `%s`" % ast.unparse(e))
                return "stored"
            if e.attr in ("T", "real", "imag", "flat") and org(e.value, depth + 1) == "stored":
                return "stored"
            raise KeyError("materialize: attribute `%s`" % ast.unparse(e))
        if isinstance(e, (ast.List, ast.ListComp, ast.Tuple)):
            return "pylist"
        if isinstance(e, ast.BinOp):
            sides = []
            for x in (e.left, e.right):
                try:
                    sides.append(org(x, depth + 1))
                except KeyError:
                    sides.append(None)
            if "pylist" in sides:
                return "pylist"
            if any(sides):
                return "fresh"
            raise KeyError("materialize: `%s`" % ast.unparse(e))
        if isinstance(e, ast.IfExp):
            both = []
            for x in (e.body, e.orelse):
                try:
                    both.append(org(x, depth + 1))
                except KeyError:
                    both.append(None)
            if "stored" in both:
                return "stored"  # (a window for one shape of input is a window)
            a, b = both
            if a is not None and a == b:
                return a
            raise KeyError("materialize: a conditional expression of two origins")
        if isinstance(e, ast.Call):
            name = ast.unparse(e.func)
            if name in _NEW_ARRAY and no_copy_false(e):
                return "fresh"
            if name in ("list", "sorted"):
                return "pylist"
            if name == "getattr" and e.args and isinstance(e.args[0], ast.Name) and e.args[0].id == "self":
                return "stored"
            if name in _SAME_OR_NEW and e.args:
                o = org(e.args[0], depth + 1)
                return "fresh" if o == "pylist" else o
            if name in _WINDOW and e.args:
                if org(e.args[0], depth + 1) == "stored":
                    return "stored"
                raise KeyError("materialize: `%s` of an array that is not stored on the column" % name)
            if isinstance(e.func, ast.Attribute):
                if e.func.attr == "tolist":
                    return "pylist"
                if e.func.attr in _NEW_METHODS and no_copy_false(e):
                    org(e.func.value, depth + 1)  # (of something recognised)
                    return "fresh"
                if e.func.attr in _WINDOW_METHODS:
                    if org(e.func.value, depth + 1) == "stored":
                        return "stored"
            raise KeyError("materialize: call `%s`" % name)
        if isinstance(e, ast.Subscript):
            base = org(e.value, depth + 1)
            ix = e.slice
            parts = ix.elts if isinstance(ix, ast.Tuple) else [ix]
            if all(isinstance(x, ast.Slice) or (isinstance(x, ast.Constant) and x.value in (Ellipsis, None)) for x in parts):
                return base  # (a slice of an array is a window; a slice of a list is a list)
            if len(parts) == 1 and base in ("stored", "fresh"):
                try:
                    if org(parts[0], depth + 1) in ("stored", "fresh", "pylist"):
                        return "fresh"  # (indexing by an index array / list gathers into a new array)
                except KeyError:
                    pass
            raise KeyError("materialize: subscript `%s`" % ast.unparse(e))
        raise KeyError("materialize: `%s`" % ast.unparse(e)[:60])

    rets = []  # origin of every `return` (None: not recognised), with the message of the first that is not

    def try_org(e):
        try:
            return org(e), None
        except KeyError as err:
            return None, err

    def merge(e1, e2):
        # after an `if`: a name bound differently in the two branches is a window as soon as one of them is
        out = {}
        for k in set(e1) | set(e2):
            a, b = e1.get(k), e2.get(k)
            if stored_attrs and k.startswith("self."):
                # (an attribute one branch leaves alone is what the method found: the caller's input)
                a = "stored" if k not in e1 else a
                b = "stored" if k not in e2 else b
            out[k] = a if a == b else "stored" if "stored" in (a, b) else None
        return out

    def walk(stmts):
        nonlocal env
        for st in stmts:
            if isinstance(st, ast.Assign):
                v, _ = try_org(st.value)
                for t in st.targets:
                    if isinstance(t, ast.Attribute) and isinstance(t.value, ast.Name) and t.value.id == "self":
                        env["self." + t.attr] = v
                    for x in ([t] if isinstance(t, ast.Name) else t.elts if isinstance(t, (ast.Tuple, ast.List)) else []):
                        if isinstance(x, ast.Name):
                            env[x.id] = v if isinstance(t, ast.Name) else None
                        elif isinstance(x, ast.Attribute) and isinstance(x.value, ast.Name) and x.value.id == "self":
                            # (`(self.indices,) = numpy.where(...)`, `self.values, self.encoding = numpy.unique(...)`: the
                            # parts of a tuple of arrays built anew are built anew; of anything else: not recognised)
                            env["self." + x.attr] = "fresh" if v == "fresh" else None
            elif isinstance(st, ast.AnnAssign) and isinstance(st.target, ast.Name) and st.value is not None:
                env[st.target.id] = try_org(st.value)[0]
            elif isinstance(st, ast.If):
                before = dict(env)
                # (a branch taken for the EMPTY input only: an array without elements cannot be changed through any
                # window, whatever it shares with the input is not observable)
                empty = stored_attrs and re.sub(r"\s", "", ast.unparse(st.test)) in (
                    "len(self.values)==0", "notlen(self.values)", "len(self.values)<1", "0==len(self.values)")
                in_empty[0] += 1 if empty else 0
                walk(st.body)
                in_empty[0] -= 1 if empty else 0
                after_body, env = env, dict(before)
                walk(st.orelse)
                leaves = lambda b: bool(b) and isinstance(b[-1], (ast.Return, ast.Raise))
                if stored_attrs and leaves(st.body) and not leaves(st.orelse):
                    pass  # (the branch left the method: what follows sees the other branch only)
                elif stored_attrs and leaves(st.orelse) and not leaves(st.body):
                    env = after_body
                else:
                    env = merge(after_body, env)
            elif isinstance(st, (ast.For, ast.While)):
                if isinstance(st, ast.For):
                    for x in ast.walk(st.target):
                        if isinstance(x, ast.Name):
                            env[x.id] = None
                before = dict(env)
                walk(st.body)
                env = merge(before, env)
                walk(st.orelse)
            elif isinstance(st, ast.With):
                walk(st.body)
            elif isinstance(st, ast.Try):
                walk(st.body)
                for h in st.handlers:
                    walk(h.body)
                walk(st.orelse)
                walk(st.finalbody)
            elif isinstance(st, ast.Return):
                if stored_attrs:
                    snapshot()
                else:
                    rets.append(try_org(st.value))
            # (`x *= 2`, `x[i] = v`, `x.extend(...)`: in place, the object stays the one it was; other statements: nothing)

    def snapshot():
        if in_empty[0]:
            return
        if "self.values" not in env:
            rets.append(("stored", None))  # (`self.values` left as the shared constructor bound it: the caller's input)
        for a in STORED_ATTRS:
            if "self." + a in env:
                k = env["self." + a]
                rets.append((k, None if k is not None else KeyError("__init__: `self.%s` is bound to something that is not recognised" % a)))

    walk(fn.body)
    if stored_attrs:
        snapshot()
        if not rets:
            return "fresh"  # (the constructor stores no array of its own making: nothing to alias)
    if not rets:
        raise KeyError("materialize: no return")
    if any(k == "stored" for k, _ in rets):
        return "alias"  # (one `return` that hands out a window is enough: a fast path for one shape of column)
    for k, err in rets:
        if k is None:
            raise err
    return "fresh"


STORED_ORIGINS = (("rle", "RLEColumn"), ("dict", "DictionaryColumn"), ("sparse", "SparseColumn"), ("const", "ConstantColumn"))
ORIGINS = (("rle", "RLEColumn"), ("dict", "DictionaryColumn"), ("sparse", "SparseColumn"), ("const", "ConstantColumn"),
           ("function", "FunctionColumn"))


def kind_ctor(ch):
    if ch not in KINDS:
        raise Untranslatable("dtype kind %r" % ch)
    return "Kind." + ch


def dtype_decision(fn):
    """`sparseResultDType`: the `if <test over the dtype kinds>: dtype = A else: dtype = B` of
    SparseColumn.materialize as a Lean function of the two dtypes."""
    who = {}  # local array name -> "vdt" / "ddt"
    for s in fn.body:
        if isinstance(s, ast.Assign) and len(s.targets) == 1 and isinstance(s.targets[0], ast.Name) \
                and isinstance(s.value, ast.Call) and ast.unparse(s.value.func) in ("numpy.asarray", "numpy.array") \
                and len(s.value.args) == 1 and not s.value.keywords:
            arg = ast.unparse(s.value.args[0])
            if arg == "self.values":
                who[s.targets[0].id] = "vdt"
            elif arg == "self.default_value":
                who[s.targets[0].id] = "ddt"
    sets = {}

    def dt(n):
        """`x.dtype` -> vdt / ddt"""
        if isinstance(n, ast.Attribute) and n.attr == "dtype" and isinstance(n.value, ast.Name) and n.value.id in who:
            return who[n.value.id]
        raise Untranslatable("dtype expression " + ast.unparse(n)[:50])

    def kindset(n):
        if isinstance(n, ast.Name) and n.id in sets:
            return sets[n.id]
        if isinstance(n, ast.Set):
            items = []
            for e in n.elts:
                if isinstance(e, ast.Attribute) and e.attr == "kind":
                    items.append("%s.kind" % dt(e.value))
                else:
                    raise Untranslatable("set element " + ast.unparse(e)[:40])
            return "[" + ", ".join(items) + "]"
        if isinstance(n, ast.Call) and ast.unparse(n.func) == "set" and len(n.args) == 1 and isinstance(n.args[0], ast.Constant) \
                and isinstance(n.args[0].value, str):
            return "[" + ", ".join(kind_ctor(c) for c in n.args[0].value) + "]"
        if isinstance(n, ast.Constant) and isinstance(n.value, str):
            return "[" + ", ".join(kind_ctor(c) for c in n.value) + "]"
        raise Untranslatable("kind set " + ast.unparse(n)[:50])

    def kind1(n):
        if isinstance(n, ast.Constant) and isinstance(n.value, str) and len(n.value) == 1:
            return kind_ctor(n.value)
        if isinstance(n, ast.Attribute) and n.attr == "kind":
            return "%s.kind" % dt(n.value)
        raise Untranslatable("dtype kind " + ast.unparse(n)[:50])

    def test(n):
        if isinstance(n, ast.BoolOp):
            j = " || " if isinstance(n.op, ast.Or) else " && "
            return "(" + j.join(test(v) for v in n.values) + ")"
        if isinstance(n, ast.UnaryOp) and isinstance(n.op, ast.Not):
            return "(!%s)" % test(n.operand)
        if isinstance(n, ast.Compare) and len(n.ops) == 1:
            op, l, r = n.ops[0], n.left, n.comparators[0]
            if isinstance(op, ast.LtE):
                return "(%s).all (fun k => (%s).contains k)" % (kindset(l), kindset(r))
            if isinstance(op, ast.In):
                return "(%s).contains (%s)" % (kindset(r), kind1(l))
            if isinstance(op, ast.NotIn):
                return "(!(%s).contains (%s))" % (kindset(r), kind1(l))
            if isinstance(op, (ast.Eq, ast.NotEq)) and isinstance(l, ast.Call) and ast.unparse(l.func) == "len" \
                    and isinstance(r, ast.Constant) and isinstance(r.value, int):
                return "(distinctCount (%s) %s %d)" % (kindset(l.args[0]), "==" if isinstance(op, ast.Eq) else "!=", r.value)
            if isinstance(op, (ast.Eq, ast.NotEq)):
                return "(%s %s %s)" % (kind1(l), "==" if isinstance(op, ast.Eq) else "!=", kind1(r))
        raise Untranslatable("dtype test " + ast.unparse(n)[:60])

    def result(stmts):
        if len(stmts) != 1 or not isinstance(stmts[0], ast.Assign) or ast.unparse(stmts[0].targets[0]) != "dtype":
            raise Untranslatable("branch of the dtype decision")
        v = stmts[0].value
        if isinstance(v, ast.Call) and ast.unparse(v.func) == "numpy.promote_types" and len(v.args) == 2 and not v.keywords:
            return "NpDType.promote %s %s" % (dt(v.args[0]), dt(v.args[1]))
        if isinstance(v, ast.Call) and ast.unparse(v.func) == "numpy.dtype" and len(v.args) == 1 and ast.unparse(v.args[0]) == "object":
            return "NpDType.object"
        return dt(v)

    found = None
    for s in fn.body:
        if isinstance(s, ast.Assign) and len(s.targets) == 1 and isinstance(s.targets[0], ast.Name) and isinstance(s.value, ast.Set):
            sets[s.targets[0].id] = kindset(s.value)
        if isinstance(s, ast.If) and "dtype" in pystmt.assigned([s]):
            if found is not None:
                raise Untranslatable("two dtype decisions")
            found = s
    if found is None:
        raise Untranslatable("no `if ...: dtype = ... else: dtype = ...`")
    return "if %s then %s else %s" % (test(found.test), result(found.body), result(found.orelse))


# --------------------------------------------------------------------------- numpy's tables


def numpy_tables():
    import numpy

    rows = {}
    for a in NUMS:
        d = numpy.dtype(a)
        row = {"kind": d.kind, "bits": d.itemsize * 8}
        if d.kind == "b":
            row["int"] = (0, 1)
        elif d.kind in "iu":
            ii = numpy.iinfo(d)
            row["int"] = (int(ii.min), int(ii.max))
        else:
            fi = numpy.finfo(d)
            row["float"] = (int(fi.nmant) + 1, int(fi.maxexp))
        row["promote"] = {}
        for b in NUMS:
            p = numpy.promote_types(d, numpy.dtype(b)).name
            if p not in NUMS:
                raise KeyError("promote_types(%s, %s) = %s" % (a, b, p))
            row["promote"][b] = p
        rows[a] = row
    return {"version": numpy.__version__, "rows": rows}


def dtypes_text(t):
    rows = t["rows"]
    out = HEADER + "import OrsoVerif.Model.NpNum\n"
    out += "/-! numpy %s asked at run time: `dtype.kind`, item size, `iinfo`, `finfo`, `promote_types`. -/\n" % t["version"]
    out += "namespace Gen.NpDtypes\nopen Enc\n\n"
    out += "def numpyVersion : String := \"%s\"\n\n" % t["version"]
    out += "/-- `numpy.dtype(name).kind` -/\ndef kind : Num → Kind\n"
    for a in NUMS:
        out += "  | .%s => .%s\n" % (CTOR[a], rows[a]["kind"])
    out += "\n/-- `numpy.dtype(name).itemsize * 8` -/\ndef bits : Num → Nat\n"
    for a in NUMS:
        out += "  | .%s => %d\n" % (CTOR[a], rows[a]["bits"])
    out += "\n/-- `numpy.iinfo(name).min, .max` (`False, True` for bool; none for floats) -/\ndef intRange : Num → Option (Int × Int)\n"
    for a in NUMS:
        r = rows[a].get("int")
        out += "  | .%s => %s\n" % (CTOR[a], "some (%s, %d)" % ("(%d)" % r[0] if r[0] < 0 else "%d" % r[0], r[1]) if r else "none")
    out += "\n/-- `numpy.finfo(name)`: precision in bits (`nmant + 1`) and `maxexp` (of the components for complex) -/\n"
    out += "def floatFormat : Num → Option (Nat × Nat)\n"
    for a in NUMS:
        r = rows[a].get("float")
        out += "  | .%s => %s\n" % (CTOR[a], "some (%d, %d)" % tuple(r) if r else "none")
    out += "\n/-- `numpy.promote_types(a, b)`, all %d pairs -/\ndef promote : Num → Num → Num\n" % (len(NUMS) ** 2)
    for a in NUMS:
        for b in NUMS:
            out += "  | .%s, .%s => .%s\n" % (CTOR[a], CTOR[b], CTOR[rows[a]["promote"][b]])
    out += "\nend Gen.NpDtypes\n"
    return out


# --------------------------------------------------------------------------- safety net


def type_checks(text):
    """Does the generated file elaborate?  (Only asked when the text differs from the file on disk,
    which did.)  The translator checks types itself; this catches what it does not foresee, so that
    a source it mistranslates degrades to the pinned text instead of breaking the model's build."""
    path = os.path.join(GEN_DIR, "Encodings.lean")
    try:
        if open(path).read() == text:
            return True, ""
    except OSError:
        pass
    tmp = os.path.join(core.LEAN, ".lake", "C09_generated_check.lean")
    os.makedirs(os.path.dirname(tmp), exist_ok=True)
    with open(tmp, "w") as f:
        f.write(text)
    rc, out = core.sh(["lake", "env", "lean", tmp], cwd=core.LEAN, timeout=600)
    m = re.search(r"error:[^\n]*", out)
    return rc == 0, (m.group(0) if m else out[-200:])


# --------------------------------------------------------------------------- entry point


def generate(o):
    src = Src("orso/schema.py")

    def rle_compare():
        """The comparison under which a value continues the current run (`==` with the increment in the
        `if` branch, or `!=` with the increment in the `else` branch)."""
        fn = src.func("__init__", "RLEColumn")
        for n in ast.walk(fn):
            if isinstance(n, ast.If) and isinstance(n.test, ast.Compare) and len(n.test.ops) == 1:
                names = {x.id for x in ast.walk(n.test) if isinstance(x, ast.Name)}
                if names == {"value", "prev_value"}:
                    def increments(stmts):
                        return any(isinstance(x, ast.AugAssign) and isinstance(x.op, ast.Add) and ast.unparse(x.target) == "run_length"
                                   for st in stmts for x in ast.walk(st))
                    op = type(n.test.ops[0]).__name__
                    if op == "NotEq" and increments(n.orelse) and not increments(n.body):
                        return "Eq"
                    if op == "Eq" and increments(n.orelse) and not increments(n.body):
                        return "NotEq"
                    return op
        raise KeyError("if value <op> prev_value")

    def run_start():
        fn = src.func("__init__", "RLEColumn")
        vals = []
        for n in ast.walk(fn):
            if isinstance(n, ast.Assign) and len(n.targets) == 1 and isinstance(n.targets[0], ast.Name) \
                    and n.targets[0].id == "run_length":
                vals.append(ast.literal_eval(n.value))
        if not vals or len(set(vals)) != 1:
            raise KeyError("run_length = <const>")
        return vals[0]

    def sparse_compare():
        fn = src.func("__init__", "SparseColumn")
        for n in ast.walk(fn):
            if isinstance(n, ast.Compare) and len(n.ops) == 1 and isinstance(n.left, ast.Call) \
                    and ast.unparse(n.left.func) in ("numpy.array", "numpy.asarray") \
                    and ast.unparse(n.comparators[0]) in ("self.default_value", "default"):
                return type(n.ops[0]).__name__
        raise KeyError("numpy.array(self.values) <op> <default>")

    rc = o.item("schema.rle_compare", rle_compare, "Eq")
    rs = o.item("schema.rle_run_start", run_start, 1)
    sc = o.item("schema.sparse_compare", sparse_compare, "NotEq")

    def assemble(translated, decision):
        text = HEADER + "import OrsoVerif.Model.Np\nimport OrsoVerif.Model.NpDtype\n"
        text += "set_option linter.unusedVariables false\n"
        text += "namespace Gen.Encodings\nopen Enc\n"
        text += "/-- `if value == prev_value` in RLEColumn.__init__ (found: %s) -/\n" % rc
        text += "def rleCompareIsEq : Bool := %s\n" % ("true" if rc == "Eq" else "false")
        text += "/-- every `run_length = <n>` in RLEColumn.__init__ -/\n"
        text += "def runStart : Nat := %d\n" % (rs if isinstance(rs, int) and rs >= 0 else 0)
        text += "/-- `numpy.array(self.values) != <default>` in SparseColumn.__init__ (found: %s) -/\n" % sc
        text += "def sparseCompareIsNe : Bool := %s\n\n" % ("true" if sc == "NotEq" else "false")
        text += "variable {α : Type}\n\n"
        for key, _, _ in specs():
            text += translated[key] + "\n\n"
        text += "/-- the dtype SparseColumn.materialize gives its result: the decision over the dtype kinds of the stored\n"
        text += "values (`vdt`) and of the default (`ddt`), both branches, as written in the source -/\n"
        text += "def sparseResultDType (vdt ddt : NpDType) : NpDType :=\n  %s\n\n" % decision
        for cls, nm in (("ConstantColumn", "constLengthDefault"), ("FunctionColumn", "functionLengthDefault")):
            text += "/-- `length: int = ...` of %s: what the shared constructor assigns when the keyword is absent -/\n" % cls
            text += "def %s : Option Nat := %s\n\n" % (nm, "some %d" % ld[cls] if isinstance(ld[cls], int) else "none")
        text += "/-- the default `configuration` of FunctionColumn: how many arguments the binding of a column declared\n"
        text += "without one is called with (`field(default_factory=tuple)`: none) -/\n"
        text += "def functionConfigurationArity : Nat := %d\n\n" % (fa if isinstance(fa, int) and fa >= 0 else 0)
        for short, cls in ORIGINS:
            text += "/-- whose array `%s.materialize` returns, read off its `return` expression(s): `fresh` = built anew\n" % cls
            text += "(numpy.full / numpy.array / repeat / take / indexing by an index array), `aliasStored` = a window onto an\n"
            text += "array stored on the column (numpy.broadcast_to / slicing / view / the attribute itself) -/\n"
            text += "def %sMaterializeOrigin : Origin := %s\n\n" % (short, ".aliasStored" if og[cls] == "alias" else ".fresh")
        for short, cls in STORED_ORIGINS:
            text += "/-- whose arrays `%s.__init__` stores (`self.values` / `indices` / `encoding` / `lengths`), read off the\n" % cls
            text += "assignments of its body: `own` = every one built anew (numpy.array / numpy.unique / numpy.where / indexing by an\n"
            text += "index array / a list built in the method), `aliasInput` = one of them is the caller's input or a window onto it\n"
            text += "(numpy.asarray of it / a slice / the attribute as it was found), were it for one shape of input only -/\n"
            text += "def %sStoredOrigin : StoredOrigin := %s\n\n" % (short, ".aliasInput" if sg[cls] == "alias" else ".own")
        text += "end Gen.Encodings\n"
        return text

    class _ValueFirst(ast.NodeTransformer):
        """`prev_value == value` -> `value == prev_value` (also `!=`): Python's equality is symmetric on the
        property's element kinds; the theorems are stated with the new value first."""

        def visit_Compare(self, n):
            self.generic_visit(n)
            if len(n.ops) == 1 and isinstance(n.ops[0], (ast.Eq, ast.NotEq)) and ast.unparse(n.left) == "prev_value" \
                    and ast.unparse(n.comparators[0]) == "value":
                n.left, n.comparators = n.comparators[0], [n.left]
            return n

    def lean_of(key, where, spec):
        fn = source_of(src, where)
        if key == "rleInit":
            fn = ast.fix_missing_locations(_ValueFirst().visit(fn))
        text = pystmt.translate(fn, spec)
        if key == "rleInit":
            # (one item with the translation of the constructor: either both follow the source or both are pinned)
            text = rle_extends(fn, spec) + "\n" + text
        return text

    translated = {}
    for key, where, spec in specs():
        translated[key] = o.item("schema.lean." + key, (lambda key=key, where=where, spec=spec: lean_of(key, where, spec)),
                                 PINNED.get(key, ""))
    ld = {cls: o.item("schema.length_default." + cls, (lambda cls=cls: class_length_default(src, cls)), 1)
          for cls in ("ConstantColumn", "FunctionColumn")}
    fa = o.item("schema.function_configuration_arity", lambda: function_configuration_arity(src), 0)
    og = {cls: o.item("schema.materialize_origin." + cls, (lambda cls=cls: materialize_origin(src.func("materialize", cls))), "fresh")
          for _, cls in ORIGINS}
    sg = {cls: o.item("schema.stored_origin." + cls, (lambda cls=cls: materialize_origin(src.func("__init__", cls), stored_attrs=True)), "fresh")
          for _, cls in STORED_ORIGINS}
    dd = o.item("schema.lean.sparseResultDType", lambda: dtype_decision(src.func("materialize", "SparseColumn")),
                PINNED["sparseResultDType"])
    text = assemble(translated, dd)
    pinned_text = assemble({k: PINNED.get(k, "") for k in translated}, PINNED["sparseResultDType"])
    if text != pinned_text:
        ok, why = type_checks(text)
        if not ok and type_checks(pinned_text)[0]:
            o.degraded.append("schema.lean.* (the translation of the changed source does not elaborate in Lean: %s)" % why[:120])
            text = pinned_text
    o.files["Encodings.lean"] = text

    tables = o.item("numpy.dtype_tables", numpy_tables, PINNED["numpy_tables"])
    o.files["NpDtypes.lean"] = dtypes_text(tables)
