"""Value <-> token codec shared with lean/OrsoVerif/Model/Wire.lean.

Tokens: N T F I<dec> D<16 hex> S<hex utf-8> B<hex> L<n> ... M<n> k v ...
Floats travel as their IEEE-754 bit pattern so NaN payloads and signed zeros
survive; tuples and Rows travel as lists.
"""
import struct


class WireError(Exception):
    pass


def fbits(x: float) -> int:
    return struct.unpack(">Q", struct.pack(">d", x))[0]


def bits_f(n: int) -> float:
    return struct.unpack(">d", struct.pack(">Q", n))[0]


def stok(s: str) -> str:
    return "S" + s.encode("utf-8").hex()


def enc(v, out=None):
    """Append the tokens of canonical value v to out (a list of str)."""
    if out is None:
        out = []
    if v is None:
        out.append("N")
    elif v is True:
        out.append("T")
    elif v is False:
        out.append("F")
    elif isinstance(v, int):
        out.append("I%d" % v)
    elif isinstance(v, float):
        out.append("D%016x" % fbits(v))
    elif isinstance(v, str):
        out.append(stok(v))
    elif isinstance(v, (bytes, bytearray)):
        out.append("B" + bytes(v).hex())
    elif isinstance(v, (list, tuple)):
        out.append("L%d" % len(v))
        for x in v:
            enc(x, out)
    elif isinstance(v, dict):
        out.append("M%d" % len(v))
        for k, x in v.items():
            if not isinstance(k, str):
                raise WireError("non-text map key %r" % (k,))
            out.append(stok(k))
            enc(x, out)
    else:
        raise WireError("value outside the wire universe: %r" % (type(v),))
    return out


def line(*vals) -> str:
    out = []
    for v in vals:
        enc(v, out)
    return " ".join(out)


def _dec(toks, i):
    if i >= len(toks):
        raise WireError("truncated")
    t = toks[i]
    c, body = t[:1], t[1:]
    i += 1
    if c == "N":
        return None, i
    if c == "T":
        return True, i
    if c == "F":
        return False, i
    if c == "I":
        return int(body), i
    if c == "D":
        return bits_f(int(body, 16)), i
    if c == "S":
        return bytes.fromhex(body).decode("utf-8"), i
    if c == "B":
        return bytes.fromhex(body), i
    if c == "L":
        n = int(body)
        xs = []
        for _ in range(n):
            x, i = _dec(toks, i)
            xs.append(x)
        return xs, i
    if c == "M":
        n = int(body)
        d = {}
        pairs = []
        for _ in range(n):
            k, i = _dec(toks, i)
            x, i = _dec(toks, i)
            pairs.append((k, x))
            d[k] = x
        if len(d) != len(pairs):
            return ("__dupmap__", pairs), i
        return d, i
    raise WireError("bad token %r" % t)


def dec_all(text: str):
    toks = text.split()
    i = 0
    out = []
    while i < len(toks):
        v, i = _dec(toks, i)
        out.append(v)
    return out


def same(a, b) -> bool:
    """Structural equality in the wire universe (floats by bit pattern, bool != int)."""
    if type(a) is not type(b):
        if isinstance(a, (list, tuple)) and isinstance(b, (list, tuple)):
            pass
        else:
            return False
    if isinstance(a, float):
        return fbits(a) == fbits(b)
    if isinstance(a, (list, tuple)):
        return len(a) == len(b) and all(same(x, y) for x, y in zip(a, b))
    if isinstance(a, dict):
        return list(a.keys()) == list(b.keys()) and all(same(a[k], b[k]) for k in a)
    return a == b
