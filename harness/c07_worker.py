"""Fresh-interpreter worker for C07 sequences: runs a sequence of casts in order in a new process
(no state left over from earlier casts of the check) and prints the first step that is judged
wrong, so that a reported sequence is known to reproduce from the replay alone.

stdin: JSON {"seq": [step, ...], "ms": [model result or null, ...]}   (core._jsonable form)
stdout: JSON {"wrong": [[index, "fail" | "disagree", clause, [status, repr]], ...]}   (every step judged wrong)
"""
import json
import os
import sys


def main():
    repo = sys.argv[1]
    verif = os.path.dirname(os.path.dirname(os.path.abspath(__file__)))
    os.environ["ORSO_REPO"] = repo
    for p in (verif, repo):
        if p in sys.path:
            sys.path.remove(p)
    sys.path.insert(0, verif)
    sys.path.insert(0, repo)
    from harness import core
    from harness.props import c07

    payload = core.unjson(json.load(sys.stdin))
    seq, ms = payload["seq"], payload.get("ms") or [None] * len(payload["seq"])
    wrong = []
    for i, (step, m) in enumerate(zip(seq, ms)):
        out = c07.run_step(step)
        v = c07.judge(step, out, m)
        if v is not None and (len(wrong) < 500 or i == len(seq) - 1):
            wrong.append([i, v[0], v[1], [out[0], repr(out[1])[:200]]])
        c07.after_step(step, out)
    res = {"wrong": wrong}
    sys.stdout.write(json.dumps(res))


if __name__ == "__main__":
    main()
