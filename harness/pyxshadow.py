"""Source-level shadow execution of the anchored kernels of orso/compute/compiled.pyx (DESIGN.md §3.3).

Cython is not installed here, so an edit to the `.pyx` cannot be compiled by the checks.  This
module de-cythonises exactly the idioms the anchored functions use and yields plain Python in
which **every unchecked access is explicit**: indexing a `cdef tuple`/`list`, a `char*`, a typed
memoryview or an `ndarray[object, ndim=2]` under `boundscheck=False, wraparound=False` becomes a
call that raises `MemoryUnsafe` when the index is outside the object or the object is not of the
declared C type.  "Reads outside a row" thereby becomes a deterministic outcome, and edits to the
`.pyx` are exercised even though nobody can compile them.  If an edited function uses an idiom this
translator does not know, `load()` reports it and the checks fall back to the binary alone.
"""
import os
import re

FUNCS = ("from_bytes_cython", "extract_dict_columns", "collect_cython", "calculate_data_width")
CTYPES_INT = ("int", "int32_t", "int64_t", "Py_ssize_t", "long", "uint8_t", "uint64_t")


class MemoryUnsafe(Exception):
    """A read or write outside the object, or through a wrong unchecked cast."""


class ShadowUnavailable(Exception):
    pass


class _Null:
    def __repr__(self):
        return "NULL"


_NULL = _Null()


class _CharPtr:
    def __init__(self, b):
        if type(b) is not bytes:
            raise MemoryUnsafe("PyBytes_AsString on a non-bytes object")
        self.b = b

    def __getitem__(self, i):
        if not isinstance(i, int) or i < 0 or i > len(self.b):
            raise MemoryUnsafe("char* read at %r outside a %d-byte buffer" % (i, len(self.b)))
        v = 0 if i == len(self.b) else self.b[i]
        return v - 256 if v > 127 else v  # plain char is signed on this platform


def _uchar(x):
    return x & 0xFF


_PYTYPES = {"list": list, "tuple": tuple, "dict": dict, "bytes": bytes, "str": str, "set": set}


def _cdef_cast(v, ctype):
    """`cdef list x = <expr>`: Cython accepts None or an exact instance, anything else is a TypeError."""
    if v is None or type(v) is _PYTYPES[ctype]:
        return v
    raise TypeError("Expected %s, got %s" % (ctype, type(v).__name__))


def _ob_size(o):
    if isinstance(o, (bytes, str, tuple, list)):
        return len(o)  # ob_size / the length field that sits at the same offset in a str object
    raise MemoryUnsafe("PyBytes_GET_SIZE on %s" % type(o).__name__)


def _dict_getitem(d, k):
    if not isinstance(d, dict):
        return _NULL  # PyDict_GetItem returns NULL for a non-dict and swallows errors
    try:
        return d[k] if k in d else _NULL
    except Exception:
        return _NULL


def _uget(obj, idx, kind):
    import numpy

    if kind in ("tuple", "list"):
        want = tuple if kind == "tuple" else list
        if not isinstance(obj, want):
            raise MemoryUnsafe("unchecked %s item read from a %s" % (kind, type(obj).__name__))
        if isinstance(idx, numpy.generic):
            idx = int(idx)
        if not isinstance(idx, int) or idx < 0 or idx >= len(obj):
            raise MemoryUnsafe("unchecked %s item read at %r, length %d" % (kind, idx, len(obj)))
        return obj[idx]
    if kind == "memview":
        if obj is None:
            raise MemoryUnsafe("read through a None memoryview")
        if isinstance(idx, numpy.generic):
            idx = int(idx)
        if not isinstance(idx, int) or idx < 0 or idx >= obj.shape[0]:
            raise MemoryUnsafe("unchecked memoryview read at %r, length %d" % (idx, obj.shape[0]))
        return int(obj[idx])
    if kind == "charptr":
        return obj[idx]
    raise ShadowUnavailable("unknown unchecked kind " + kind)


def _uset(obj, idx, val, kind):
    if kind == "list":
        if not isinstance(obj, list) or not isinstance(idx, int) or idx < 0 or idx >= len(obj):
            raise MemoryUnsafe("unchecked list item write at %r" % (idx,))
        obj[idx] = val
        return
    if kind == "ndarray2":
        j, i = idx
        if j < 0 or i < 0 or j >= obj.shape[0] or i >= obj.shape[1]:
            raise MemoryUnsafe("unchecked buffer write at %r, shape %r" % (idx, obj.shape))
        obj[j, i] = val
        return
    raise ShadowUnavailable("unknown unchecked kind " + kind)


class _NoneView:
    shape = (0,)


def _arg(name, val, ctype):
    import numpy

    if ctype in ("bytes", "dict", "tuple", "list"):
        want = {"bytes": bytes, "dict": dict, "tuple": tuple, "list": list}[ctype]
        if val is not None and not isinstance(val, want):
            raise TypeError("Argument '%s' has incorrect type (expected %s, got %s)" % (name, ctype, type(val).__name__))
        return val
    if ctype in CTYPES_INT:
        if isinstance(val, bool) or not isinstance(val, (int, numpy.integer)):
            if hasattr(val, "__index__"):
                val = val.__index__()
            else:
                raise TypeError("an integer is required")
        val = int(val)
        bits = 32 if ctype in ("int", "int32_t") else 64
        if not -(2 ** (bits - 1)) <= val < 2 ** (bits - 1):
            raise OverflowError("value too large to convert to %s" % ctype)
        return val
    if ctype.endswith("[:]"):
        if val is None:
            return None
        arr = numpy.asarray(val) if isinstance(val, numpy.ndarray) else None
        if arr is None:
            try:
                arr = numpy.asarray(memoryview(val))
            except TypeError:
                raise TypeError("a bytes-like object is required, not '%s'" % type(val).__name__)
        if arr.dtype != numpy.dtype(ctype[:-3].replace("_t", "")) or arr.ndim != 1:
            raise ValueError("Buffer dtype mismatch")
        return arr
    if "ndarray" in ctype:
        if val is not None and not isinstance(val, numpy.ndarray):
            raise TypeError("Argument '%s' has incorrect type (expected numpy.ndarray, got %s)" % (name, type(val).__name__))
        return val
    raise ShadowUnavailable("unknown argument type %r" % ctype)


def _split_top(s, sep=","):
    out, depth, cur = [], 0, ""
    for ch in s:
        if ch in "([{":
            depth += 1
        elif ch in ")]}":
            depth -= 1
        if ch == sep and depth == 0:
            out.append(cur)
            cur = ""
        else:
            cur += ch
    if cur.strip():
        out.append(cur)
    return [x.strip() for x in out]


def _match_bracket(s, i):
    depth = 0
    for j in range(i, len(s)):
        if s[j] == "[":
            depth += 1
        elif s[j] == "]":
            depth -= 1
            if depth == 0:
                return j
    raise ShadowUnavailable("unbalanced brackets in %r" % s)


def _rewrite_index(line, name, kind):
    """Rewrite reads `name[expr]` into `_uget(name, expr, kind)` (and single writes into `_uset`)."""
    m = re.match(r"^(\s*)%s\[(.*)\]\s*=\s*(?!=)(.*)$" % re.escape(name), line)
    if m and _match_bracket(line, line.index(name + "[") + len(name)) == line.index("]" , line.index(name + "[")) or False:
        pass
    out, i = "", 0
    pat = re.compile(r"(?<![\w\.])%s\[" % re.escape(name))
    stripped = line.strip()
    # assignment target?
    mt = re.match(r"^(\s*)%s\[" % re.escape(name), line)
    if mt:
        start = mt.end() - 1
        end = _match_bracket(line, start)
        rest = line[end + 1 :]
        ma = re.match(r"^\s*=(?!=)\s*(.*)$", rest)
        if ma:
            idx = line[start + 1 : end]
            wkind = {"list": "list", "ndarray2": "ndarray2"}.get(kind)
            if wkind is None:
                raise ShadowUnavailable("write through %s %s" % (kind, name))
            if wkind == "ndarray2":
                idx = "(" + idx + ")"
            return "%s_uset(%s, %s, %s, %r)" % (mt.group(1), name, idx, ma.group(1), wkind)
    while True:
        m = pat.search(line, i)
        if not m:
            out += line[i:]
            break
        start = m.end() - 1
        end = _match_bracket(line, start)
        inner = line[start + 1 : end]
        if ":" in inner and kind != "ndarray2":
            out += line[i : end + 1]  # a slice is an ordinary (checked) Python operation
        else:
            if kind == "ndarray2":
                raise ShadowUnavailable("read through ndarray buffer " + name)
            out += line[i : m.start()] + "_uget(%s, %s, %r)" % (name, inner, kind)
        i = end + 1
    return out


def translate(src_lines):
    """src_lines: the lines of one function of the .pyx. Returns Python source."""
    header = src_lines[0]
    m = re.match(r"^(?:cpdef|def)\s+(?:[\w\.\[\], =]+?\s+)??(\w+)\s*\((.*)\)\s*(?:->\s*[\w\.\[\]]+\s*)?:\s*$", header)
    if not m:
        raise ShadowUnavailable("cannot parse header %r" % header)
    fname, argtext = m.group(1), m.group(2)
    typed = {}  # variable -> unchecked kind
    pyargs, checks = [], []
    for a in _split_top(argtext):
        default = None
        if "=" in a:
            a, default = [x.strip() for x in a.split("=", 1)]
        parts = a.rsplit(" ", 1)
        if len(parts) == 2:
            ctype, name = parts[0].strip(), parts[1].strip()
            checks.append("    %s = _arg(%r, %s, %r)" % (name, name, name, ctype))
            if ctype in ("tuple", "list"):
                typed[name] = ctype
            elif ctype.endswith("[:]"):
                typed[name] = "memview"
        else:
            name = parts[0]
        pyargs.append(name + ("=" + default if default is not None else ""))
    out = ["def %s(%s):" % (fname, ", ".join(pyargs))] + checks
    in_doc = False
    for raw in src_lines[1:]:
        line = raw.rstrip("\n")
        s = line.strip()
        if s.startswith('"""'):
            if not (s.count('"""') == 2 and len(s) > 3):
                in_doc = not in_doc
            continue
        if in_doc or not s or s.startswith("#"):
            continue
        indent = line[: len(line) - len(line.lstrip())]
        if s.startswith("cdef "):
            decl = s[5:]
            mm = re.match(r"^((?:const\s+)?[\w\.]+(?:\[[^\]]*\])?\s*\*?)\s*(.*)$", decl)
            if not mm:
                raise ShadowUnavailable("cannot parse declaration %r" % s)
            ctype, rest = mm.group(1).strip(), mm.group(2)
            keep = []
            for item in _split_top(rest):
                if "=" in item:
                    n, e = [x.strip() for x in item.split("=", 1)]
                else:
                    n, e = item.strip(), None
                n = n.lstrip("*")
                if ctype in ("tuple", "list"):
                    typed[n] = ctype
                elif "char*" in ctype.replace(" ", "") or ctype.endswith("*"):
                    typed[n] = "charptr"
                elif "ndarray[" in ctype:
                    typed[n] = "ndarray2"
                if e is not None:
                    if ctype in _PYTYPES and e.count("(") == e.count(")") and e.count("[") == e.count("]"):
                        e = "_cdef_cast(%s, %r)" % (e, ctype)
                    keep.append("%s = %s" % (n, e))
            if not keep:
                continue
            line = indent + "; ".join(keep)
            # multi-line initialiser (parenthesised) continues on the following lines unchanged
        # casts and C-API calls
        line = re.sub(r"<\s*unsigned char\s*>\s*([\w\.]+\[[^\]]*\])", r"_uchar(\1)", line)
        line = re.sub(r"<\s*tuple\s*>\s*", "", line)
        line = re.sub(r"<\s*object\s*>\s*", "", line)
        if re.search(r"<\s*(?:unsigned\s+\w+|const\s+[\w ]+\*?|\w+_t\s*\*?|char\s*\*?|void\s*\*|int|long|double|float|bytes|list|dict|str|set)\s*>\s*[\w(]", line):
            raise ShadowUnavailable("unknown cast in %r" % s)
        line = line.replace("PyBytes_AsString(", "_CharPtr(").replace("PyBytes_GET_SIZE(", "_ob_size(")
        line = line.replace("PyObject_Str(", "str(").replace("PyDict_GetItem(", "_dict_getitem(")
        line = re.sub(r"!=\s*NULL\b", "is not _NULL", line)
        line = re.sub(r"==\s*NULL\b", "is _NULL", line)
        line = re.sub(r"\bNULL\b", "_NULL", line)
        line = re.sub(r"(\w+)\.shape\[0\]", r"(_NoneView if \1 is None else \1).shape[0]", line)
        for name, kind in list(typed.items()):
            if re.search(r"(?<![\w\.])%s\[" % re.escape(name), line):
                line = _rewrite_index(line, name, kind)
        out.append(line)
    return fname, "\n".join(out) + "\n"


def load(repo):
    """Returns ({name: callable}, {name: reason}) for the anchored functions of the working tree's .pyx."""
    path = os.path.join(repo, "orso", "compute", "compiled.pyx")
    text = open(path, encoding="utf-8").read().split("\n")
    # split into top-level functions
    starts = [i for i, l in enumerate(text) if re.match(r"^(cpdef|def)\s", l)]
    funcs, failed = {}, {}
    import datetime

    import numpy
    from ormsgpack import unpackb

    from orso.exceptions import DataError

    ns = {"_arg": _arg, "_uget": _uget, "_uset": _uset, "_uchar": _uchar, "_CharPtr": _CharPtr, "_ob_size": _ob_size, "_cdef_cast": _cdef_cast,
          "_dict_getitem": _dict_getitem, "_NULL": _NULL, "_NoneView": _NoneView, "np": numpy, "numpy": numpy,
          "unpackb": unpackb, "DataError": DataError, "datetime": datetime.datetime,
          "HEADER_PREFIX": b"\x10\x00", "MAXIMUM_RECORD_SIZE": 8 * 1024 * 1024}
    for k, st in enumerate(starts):
        m = re.match(r"^(?:cpdef|def)\s+(?:[\w\.\[\], =]+?\s+)??(\w+)\s*\(", text[st])
        if not m or m.group(1) not in FUNCS:
            continue
        end = starts[k + 1] if k + 1 < len(starts) else len(text)
        body = []
        for l in text[st:end]:
            if body and l and not l.startswith((" ", "\t")) and not l.startswith("#"):
                break  # next top-level statement
            body.append(l)
        try:
            fname, py = translate(body)
            code = compile(py, "<shadow:%s>" % fname, "exec")
            exec(code, ns)
            funcs[fname] = ns[fname]
            funcs[fname].__shadow_source__ = py
        except ShadowUnavailable as e:
            failed[m.group(1)] = str(e)
        except SyntaxError as e:
            failed[m.group(1)] = "translated source does not parse: %s" % e
    for f in FUNCS:
        if f not in funcs and f not in failed:
            failed[f] = "function not found in compiled.pyx"
    return funcs, failed


if __name__ == "__main__":
    import sys

    sys.path.insert(0, sys.argv[1] if len(sys.argv) > 1 else "/repo")
    fs, bad = load(sys.argv[1] if len(sys.argv) > 1 else "/repo")
    for n, f in fs.items():
        print("=" * 20, n)
        print(f.__shadow_source__)
    print("FAILED:", bad)
