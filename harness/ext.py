"""The compiled extension (DESIGN.md §3.3).

Cython is not available in this sandbox, so `orso/compute/compiled.pyx` cannot be compiled by the
checks.  What can be done, and is done on every run:

1. if Cython is importable (another environment), the extension is built from the working tree's
   `.pyx` into a scratch directory and preloaded;
2. else, if `compiled.c` is newer than the `.so` next to it (or the `.so` is missing), the `.so` is rebuilt
   from `compiled.c` with gcc into a scratch directory and preloaded;
3. the `.pyx` is compared with the source lines Cython embedded in `compiled.c`; when a code line of an
   anchored function differs, the binary does not reflect the source and the evidence says so.
"""
import hashlib
import importlib.util
import os
import re
import subprocess
import sys
import sysconfig

SCRATCH = os.path.join(os.path.dirname(os.path.dirname(os.path.abspath(__file__))), ".build", "ext")
ANCHORED = ("from_bytes_cython", "extract_dict_columns", "collect_cython", "calculate_data_width", "process_table")


def _so_name():
    return "compiled" + sysconfig.get_config_var("EXT_SUFFIX")


def _gcc(c_path, out_dir):
    import numpy

    os.makedirs(out_dir, exist_ok=True)
    out = os.path.join(out_dir, _so_name())
    if os.path.exists(out):
        return out
    cmd = ["gcc", "-shared", "-fPIC", "-O1", "-DNDEBUG", "-w", "-I" + sysconfig.get_paths()["include"], "-I" + numpy.get_include(),
           "-o", out + ".tmp", c_path]
    p = subprocess.run(cmd, capture_output=True, text=True, timeout=600)
    if p.returncode != 0:
        raise RuntimeError("gcc failed: " + p.stderr[-500:])
    os.replace(out + ".tmp", out)
    return out


def staleness(repo):
    """Lines of anchored functions in the .pyx that differ from the source embedded in compiled.c."""
    pyx = os.path.join(repo, "orso", "compute", "compiled.pyx")
    cfile = os.path.join(repo, "orso", "compute", "compiled.c")
    if not (os.path.exists(pyx) and os.path.exists(cfile)):
        return None
    src = open(pyx, encoding="utf-8").read().split("\n")
    embedded = {}
    ctext = open(cfile, encoding="utf-8", errors="replace").read()
    for m in re.finditer(r'/\* "orso/compute/compiled\.pyx":(\d+)\n((?: \*[^\n]*\n)+?)\*/', ctext):
        n = int(m.group(1))
        for l in m.group(2).split("\n"):
            if "# <<<<<<<<<<<<<<" in l:
                embedded[n] = l[3:].split("# <<<<<<<<<<<<<<")[0].rstrip()
    # function extents in the .pyx
    spans, cur = [], None
    for i, l in enumerate(src, 1):
        m = re.match(r"(?:cpdef|def|cdef)\s+(?:[\w\.\[\]]+\s+)*?(\w+)\s*\(", l)
        if m and not l.startswith(" "):
            if cur:
                spans.append((cur[0], cur[1], i - 1))
            cur = (m.group(1), i)
    if cur:
        spans.append((cur[0], cur[1], len(src)))
    diffs = []
    for name, lo, hi in spans:
        if name not in ANCHORED:
            continue
        for n in range(lo, hi + 1):
            if n in embedded and embedded[n].strip() != src[n - 1].strip():
                diffs.append("%s line %d: source %r, binary built from %r" % (name, n, src[n - 1].strip(), embedded[n].strip()))
    return diffs


def prepare(repo):
    """Decide which binary to use. Returns (path or None, description)."""
    d = os.path.join(repo, "orso", "compute")
    so = os.path.join(d, _so_name())
    c = os.path.join(d, "compiled.c")
    pyx = os.path.join(d, "compiled.pyx")
    try:
        import Cython  # noqa: F401

        h = hashlib.sha256(open(pyx, "rb").read()).hexdigest()[:16]
        out_dir = os.path.join(SCRATCH, "pyx-" + h + "-O1-ndebug")
        cgen = os.path.join(out_dir, "compiled.c")
        if not os.path.exists(os.path.join(out_dir, _so_name())):
            os.makedirs(out_dir, exist_ok=True)
            import numpy

            p = subprocess.run([sys.executable, "-m", "cython", "-3", "-I", numpy.get_include(), pyx, "-o", cgen],
                               capture_output=True, text=True, timeout=900, cwd=repo)
            if p.returncode != 0:
                raise RuntimeError("cython failed: " + p.stderr[-500:])
        return _gcc(cgen, out_dir), "built from compiled.pyx with Cython"
    except ImportError:
        pass
    except Exception as e:  # fall through to the binary that is there
        return None, "Cython build failed (%s); using the binary in the tree" % e
    if os.path.exists(c) and (not os.path.exists(so) or os.path.getmtime(c) > os.path.getmtime(so) + 2):
        h = hashlib.sha256(open(c, "rb").read()).hexdigest()[:16]
        try:
            # the directory name carries the build flags: a cached build made with other flags (e.g. without
            # -DNDEBUG, whose CPython assertions abort the interpreter) must not be picked up
            return _gcc(c, os.path.join(SCRATCH, "c-" + h + "-O1-ndebug")), "rebuilt with gcc from compiled.c (newer than the .so in the tree)"
        except Exception as e:
            return None, "gcc rebuild failed (%s); using the binary in the tree" % e
    return None, "binary in the tree (no Cython here; compiled.c is not newer than it)"


class _CompiledFinder:
    """Meta-path finder answering `orso.compute.compiled` with the chosen binary.

    `orso/__init__.py` imports `orso.row`, which binds `from_bytes_cython` / `extract_dict_columns` with a
    module-level `from orso.compute.compiled import …` (so do `orso.display` and `orso.converters`): replacing
    the `sys.modules` entry *after* `import orso.compute` leaves those names bound to the binary in the tree.
    Answering the import itself makes every importer see the same (rebuilt) binary."""

    def __init__(self, path):
        self.path = path

    def find_spec(self, fullname, path=None, target=None):
        if fullname != "orso.compute.compiled":
            return None
        return importlib.util.spec_from_file_location(fullname, self.path)


def preload(repo):
    """Make `orso.compute.compiled` resolve to the chosen binary. Returns a description for the evidence."""
    path, how = prepare(repo)
    if path:
        already = [m for m in sys.modules if m == "orso" or m.startswith("orso.")]
        sys.meta_path[:] = [f for f in sys.meta_path if not isinstance(f, _CompiledFinder)]
        sys.meta_path.insert(0, _CompiledFinder(path))
        if already:
            # orso was imported before the binary was chosen: drop it so that every module-level
            # `from orso.compute.compiled import …` is executed again against the chosen binary
            for m in already:
                del sys.modules[m]
        import orso.compute.compiled as mod  # noqa: F401

        if os.path.realpath(getattr(mod, "__file__", "")) != os.path.realpath(path):
            how += " (WARNING: preload ineffective, %s is loaded)" % getattr(mod, "__file__", "?")
    return how
