"""Python expression -> Lean term translator (the 'translator' tie of DESIGN.md §3.1, for arithmetic).

The control-flow skeleton of a model is written by hand; the *expressions* the property depends on —
window arithmetic, interpolation formulas, guards — are lifted out of the source's AST on every run and
translated into Lean definitions under `Gen.*`.  The hand model is built from those definitions, so the
theorems are re-checked against the arithmetic the code contains now.  When the expected statement shape
is not found (a refactor) the extractor degrades to the pinned text and correspondence carries the item.

Supported: numbers, names/attributes/subscripts mapped through `env` (keys are `ast.unparse` texts),
+ - * / // %, unary -, comparisons (chains become conjunctions), and/or/not, `a if c else b`,
calls to min/max/len/abs/int/float through `funcs`.
"""
import ast


class Untranslatable(Exception):
    pass


BINOPS_INT = {ast.Add: "+", ast.Sub: "-", ast.Mult: "*", ast.FloorDiv: "/", ast.Mod: "%"}
BINOPS_FIELD = {ast.Add: "+", ast.Sub: "-", ast.Mult: "*", ast.Div: "/"}
CMPOPS = {ast.Lt: "<", ast.LtE: "≤", ast.Gt: ">", ast.GtE: "≥", ast.Eq: "=", ast.NotEq: "≠"}


def to_lean(node, env, mode="int", funcs=None):
    """mode 'int' (Lean Int, // is floor division for non-negative divisors via Int.fdiv) or 'field'."""
    funcs = funcs or {}
    if isinstance(node, str):
        node = ast.parse(node, mode="eval").body

    def go(n):
        key = ast.unparse(n)
        if key in env:
            return env[key]
        if isinstance(n, ast.Constant):
            if isinstance(n.value, bool) or n.value is None:
                raise Untranslatable("constant %r" % (n.value,))
            if isinstance(n.value, int):
                return "%d" % n.value if n.value >= 0 else "(%d)" % n.value
            if isinstance(n.value, float) and mode == "field":
                if n.value == int(n.value):
                    return "%d" % int(n.value)
                num, den = n.value.as_integer_ratio()
                return "(%d / %d)" % (num, den)
            raise Untranslatable("constant %r" % (n.value,))
        if isinstance(n, ast.BinOp):
            ops = BINOPS_INT if mode == "int" else BINOPS_FIELD
            if type(n.op) not in ops:
                raise Untranslatable("operator %s" % type(n.op).__name__)
            if mode == "int" and isinstance(n.op, ast.FloorDiv):
                return "(Int.fdiv %s %s)" % (go(n.left), go(n.right))
            if mode == "int" and isinstance(n.op, ast.Mod):
                return "(Int.fmod %s %s)" % (go(n.left), go(n.right))
            return "(%s %s %s)" % (go(n.left), ops[type(n.op)], go(n.right))
        if isinstance(n, ast.UnaryOp):
            if isinstance(n.op, ast.USub):
                return "(-%s)" % go(n.operand)
            if isinstance(n.op, ast.Not):
                return "(¬ %s)" % go(n.operand)
            raise Untranslatable("unary %s" % type(n.op).__name__)
        if isinstance(n, ast.Compare):
            parts, left = [], n.left
            for op, right in zip(n.ops, n.comparators):
                if type(op) not in CMPOPS:
                    raise Untranslatable("comparison %s" % type(op).__name__)
                parts.append("(%s %s %s)" % (go(left), CMPOPS[type(op)], go(right)))
                left = right
            return parts[0] if len(parts) == 1 else "(" + " ∧ ".join(parts) + ")"
        if isinstance(n, ast.BoolOp):
            j = " ∧ " if isinstance(n.op, ast.And) else " ∨ "
            return "(" + j.join(go(v) for v in n.values) + ")"
        if isinstance(n, ast.IfExp):
            return "(if %s then %s else %s)" % (go(n.test), go(n.body), go(n.orelse))
        if isinstance(n, ast.Call) and isinstance(n.func, ast.Name) and not n.keywords:
            f = n.func.id
            if f in funcs:
                return "(%s %s)" % (funcs[f], " ".join(go(a) for a in n.args))
            if f in ("min", "max") and len(n.args) == 2:
                return "(%s %s %s)" % (f, go(n.args[0]), go(n.args[1]))
            if f in ("float", "int") and len(n.args) == 1 and mode == "field":
                return go(n.args[0])  # exact arithmetic: conversions are the identity (int() floor is handled by callers)
            raise Untranslatable("call to %s" % f)
        raise Untranslatable("%s: %s" % (type(n).__name__, key))

    return go(node)


def find_function(tree, name, cls=None):
    scope = tree
    if cls:
        for n in tree.body:
            if isinstance(n, ast.ClassDef) and n.name == cls:
                scope = n
                break
        else:
            raise KeyError(cls)
    for n in (scope.body if cls else ast.walk(scope)):
        if isinstance(n, ast.FunctionDef) and n.name == name:
            return n
    raise KeyError(name)


def assignments(fn, target):
    """All `target = expr` / `target op= expr` statements in a function, in source order (as (stmt, expr))."""
    out = []
    for n in ast.walk(fn):
        if isinstance(n, ast.Assign) and len(n.targets) == 1 and ast.unparse(n.targets[0]) == target:
            out.append((n, n.value))
        elif isinstance(n, ast.AugAssign) and ast.unparse(n.target) == target:
            out.append((n, ast.BinOp(left=n.target, op=n.op, right=n.value)))
    out.sort(key=lambda p: (p[0].lineno, p[0].col_offset))
    return out


def if_tests(fn):
    """All `if` tests of a function in source order."""
    out = [n for n in ast.walk(fn) if isinstance(n, ast.If)]
    out.sort(key=lambda n: (n.lineno, n.col_offset))
    return out
