"""./check Cxx quick|thorough   |   ./check --replay <file>   (see DESIGN.md §4)."""
import importlib
import json
import os
import sys
import time
import traceback

from . import core, extract
from .core import Ctx, InfraError


def setup_impl_path():
    # The test suite's interpreter has orso installed editable at /repo; make sure
    # the working tree is what gets imported.
    if core.REPO not in sys.path:
        sys.path.insert(0, core.REPO)
    from . import ext

    try:
        how = ext.preload(core.REPO)
        stale = ext.staleness(core.REPO)
    except Exception as e:  # never let the extension logic stop a check
        how, stale = "extension preload failed: %s" % e, None
    return {"extension_build": how, "extension_source_differs_from_binary": stale}


def build_for(prop_id, log):
    degraded = extract.run()
    t = time.time()
    rc_d, out_d = core.lake_build(["orso_model"])
    if rc_d != 0:
        raise InfraError("model driver does not build:\n" + out_d[-3000:])
    rc, out = core.lake_build(["OrsoVerif.Props." + prop_id])
    log["build_s"] = round(time.time() - t, 2)
    return degraded, rc, out


def finish(ctx, audit, mod, t0):
    """Decide, print the VIOLATION / KNOWN-FINDING lines, write evidence, return exit code."""
    proof_broken = [f for f in audit.get("failed", [])]
    if (proof_broken or ctx.disagreements) and not ctx.violations:
        # A proof obligation or the correspondence broke but the oracle has not
        # failed yet: search harder for a concrete failing input.
        ctx.disagreements_checked = len(ctx.disagreements)
        ctx.budget_s += 60 if ctx.tier == "quick" else 600
        if hasattr(mod, "intensify"):
            try:
                mod.intensify(ctx)
            except InfraError:
                raise
            except Exception:
                ctx.note("intensify_error", traceback.format_exc()[-1500:])
        if not ctx.violations:
            payload = {
                "property": ctx.prop_id,
                "seed": ctx.seed,
                "tier": ctx.tier,
                "kind": "no-failing-input-found",
                "theorems_that_no_longer_check": [list(x) for x in proof_broken],
                "correspondence_disagreements": ctx.disagreements[:10],
                "note": "the model's proof or its correspondence with the implementation broke; "
                "the search found no input on which the property itself fails",
            }
            path = ctx._write_replay(payload)
            ctx.violations.append({"sig": "unproven", "path": path, "suffix": " no-failing-input-found"})
    for kid, title in sorted(ctx.known_hits.items()):
        print("KNOWN-FINDING: property=%s %s [%s]" % (ctx.prop_id, title, kid))
    for v in ctx.violations:
        print("VIOLATION property=%s replay=%s%s" % (ctx.prop_id, v["path"], v["suffix"]))
    core.write_evidence(ctx, audit, time.time() - t0)
    sys.stdout.flush()
    return 1 if ctx.violations else 0


def run_known_witnesses(ctx, mod):
    for k in ctx.known:
        if "witness" not in k:
            continue
        if k.get("status") != "open":
            # a repaired defect suppresses nothing: its witness runs as an ordinary corpus case
            try:
                mod.replay(ctx, core.unjson(k["witness"]))
                ctx.hit("corpus:fixed-witness")
            except InfraError:
                raise
            except Exception:
                ctx.note("fixed_witness_error:" + k["id"], traceback.format_exc()[-800:])
            continue
        before = k["id"] in ctx.known_hits
        try:
            mod.replay(ctx, core.unjson(k["witness"]))
        except InfraError:
            raise
        except Exception:
            ctx.note("known_witness_error:" + k["id"], traceback.format_exc()[-800:])
        if k["id"] not in ctx.known_hits and not before:
            ctx.note("known_finding_not_reproduced:" + k["id"], "witness no longer fails on this tree")


def main(argv):
    t0 = time.time()
    ext_info = setup_impl_path()
    if len(argv) >= 2 and argv[0] == "--replay":
        payload = json.load(open(argv[1] if os.path.isabs(argv[1]) else os.path.join(core.VERIF, argv[1])))
        prop_id = payload["property"]
        tier = payload.get("tier", "quick")
        seed = payload.get("seed", 0)
        replay_payload = payload
    elif len(argv) >= 1:
        prop_id = argv[0]
        tier = argv[1] if len(argv) > 1 else os.environ.get("VERIF_TIER", "quick")
        seed = int(os.environ.get("VERIF_SEED", "0") or 0)
        replay_payload = None
    else:
        print("usage: ./check Cxx quick|thorough | --replay <file>")
        return 2
    if tier not in ("quick", "thorough"):
        tier = "quick"
    try:
        mod = importlib.import_module("harness.props." + prop_id.lower())
    except ModuleNotFoundError:
        print("no such property check: " + prop_id)
        return 2
    ctx = Ctx(prop_id, tier, seed)
    log = {}
    try:
        degraded, rc, out = build_for(prop_id, log)
        audit = core.proof_audit(prop_id, rc, out, thorough=(tier == "thorough" and replay_payload is None))
        ctx.note("extraction_degraded", degraded)
        for k_, v_ in (ext_info or {}).items():
            ctx.note(k_, v_)
        ctx.note("build_s", log.get("build_s"))
        n = core.wire_selftest(ctx.model, ctx.rng)
        ctx.note("wire_selftest_values", n)
        if replay_payload is not None:
            ctx.replaying = True
            if replay_payload.get("kind") == "failing-input":
                mod.replay(ctx, core.unjson(replay_payload["case"]))
            else:
                for d in replay_payload.get("correspondence_disagreements", []):
                    mod.replay(ctx, core.unjson(d["case"]))
            return finish(ctx, audit, mod, t0)
        # the exploration budget starts now: how long the Lean build and the axiom audit took (minutes on a cold
        # machine, a second on a warm one) must not decide how much of the input space a run covers
        ctx.note("setup_s", round(time.time() - ctx.t0, 2))
        ctx.t0 = time.time()
        mod.run(ctx)
        run_known_witnesses(ctx, mod)
        return finish(ctx, audit, mod, t0)
    except InfraError as e:
        print("INFRASTRUCTURE ERROR (exit 2): %s" % e)
        return 2
    except Exception:
        print("INFRASTRUCTURE ERROR (exit 2): unexpected exception in the harness")
        traceback.print_exc()
        return 2


if __name__ == "__main__":
    sys.exit(main(sys.argv[1:]))
