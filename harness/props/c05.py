"""C05 — Validation accepts exactly conforming records; append is atomic.

Values travel to the model as their class name (or None); the oracle is the statement's four
clauses evaluated directly with isinstance against the natural class of each column type.

Case kinds
  validate   one record against one freshly built schema
  appends    a history of appends to one schema-bound frame (created from a list of rows, with rows=None,
             or from a generator of rows)
  session    ONE RelationSchema object used many times: validate, change the column list (columns.append /
             insert / del / pop_column / assignment / in-place change of a column / reverse), touch state
             the property does not depend on, copy the object, validate again, append through frames bound
             to it — every verdict is judged against the columns as they are at that moment
  dictframe  appends to a frame built from dictionaries (no schema object: atomicity and column order only)
  family     several frames of one schema: a root frame and frames derived from it (head / tail / slice / query /
             distinct / filter / take / to_batches / +); appends go to any of them, each frame is a register of
             its own append history: it holds exactly its original rows plus the records accepted by appends to IT

The record *object* is a dimension of its own (`container` / `containers`): every kind of mapping (dict and its
subclasses, Counter, ChainMap, UserDict, a custom MutableMapping), read-only mappings (MappingProxyType, a custom
Mapping), a duck-typed look-alike, and objects that are no mapping at all (a list of pairs, the values as a tuple,
a Row, a namedtuple, None).  A MutableMapping is judged by the statement; any other object may be refused with an
error, but whatever is accepted must be judged by the statement too and must be stored as its values in column order.
"""
import collections
import collections.abc
import copy
import datetime
import decimal
import itertools
import types
import warnings

import numpy

from .. import wire
from ..core import InfraError, shrink
from ..extractors.c05 import CLASSES, MyDateTime, MyDict, MyInt, MyStr

# the Python class each column type stands for (the statement: "an instance of its column type's Python class")
EXPECTED_CLASS = {
    "BOOLEAN": bool, "INTEGER": int, "DOUBLE": float, "DECIMAL": decimal.Decimal, "VARCHAR": str, "BLOB": bytes,
    "DATE": datetime.date, "TIMESTAMP": datetime.datetime, "TIME": datetime.time, "INTERVAL": datetime.timedelta,
    "ARRAY": list, "STRUCT": dict, "JSONB": bytes,
}
TYPES = sorted(EXPECTED_CLASS)
CLASS_NAME = {c: n for n, c in CLASSES.items()}

# value pool: tag -> value. Tags keep cases JSON-serialisable.
POOL = {
    "none": None, "true": True, "false": False, "int0": 0, "int": -5, "bigint": 2**40, "float": 1.5, "nan": float("nan"),
    "str": "text", "empty": "", "bytes": b"\x00\xff", "date": datetime.date(2024, 2, 29),
    "datetime": datetime.datetime(2024, 2, 29, 12, 30, 1), "time": datetime.time(1, 2, 3),
    "timedelta": datetime.timedelta(days=1, seconds=5), "dict": {"k": 1}, "decimal": decimal.Decimal("1.50"),
    "list": [1, 2], "tuple": (1, 2), "set": {1},
    # unusual but legal (round 2): signed zero, infinities, subclasses, numpy scalars, unhashable and nested values,
    # the 64-bit boundaries of the row serialiser
    "negzero": -0.0, "inf": float("inf"), "decnan": decimal.Decimal("NaN"), "nonascii": "héllo ✓ \U0001f600",
    "emptybytes": b"", "bytearray": bytearray(b"ab"), "frozenset": frozenset([1]),
    "myint": MyInt(7), "mystr": MyStr("sub"), "mydt": MyDateTime(2020, 1, 2, 3, 4, 5), "mydict": MyDict(a=1),
    "ordereddict": collections.OrderedDict(a=1), "defaultdict": collections.defaultdict(list, a=[1]),
    "np_int64": numpy.int64(3), "np_float64": numpy.float64(2.5), "np_bool": numpy.bool_(True), "np_str": numpy.str_("n"),
    "np_arr": numpy.array([1, 2]), "nested": [[1], {"a": [2, {"b": None}]}], "emptylist": [], "emptydict": {},
    "i64max": 2**63 - 1, "i64min": -(2**63), "u64max": 2**64 - 1,
    # accepted by validation, rejected when the row is sized (atomicity of append)
    "int70": 2**70, "u64over": 2**64, "i64under": -(2**63) - 1, "list70": [1, [2**70]], "dict70": {"k": {"j": 2**70}},
}
UNSIZABLE = ("int70", "u64over", "i64under", "list70", "dict70")
ORDINARY = [t for t in POOL if t not in UNSIZABLE]
RIGHT = {
    "BOOLEAN": ["true", "false"], "INTEGER": ["int", "int0", "bigint", "true", "myint", "i64max", "i64min", "u64max"],
    "DOUBLE": ["float", "nan", "negzero", "inf", "np_float64"], "DECIMAL": ["decimal", "decnan"],
    "VARCHAR": ["str", "empty", "nonascii", "mystr", "np_str"], "BLOB": ["bytes", "emptybytes"],
    "DATE": ["date", "datetime", "mydt"], "TIMESTAMP": ["datetime", "mydt"], "TIME": ["time"], "INTERVAL": ["timedelta"],
    "ARRAY": ["list", "nested", "emptylist"], "STRUCT": ["dict", "mydict", "ordereddict", "defaultdict", "emptydict"],
    "JSONB": ["bytes", "emptybytes"],
}
UNSIZABLE_FOR = {"INTEGER": ["int70", "u64over", "i64under"], "ARRAY": ["list70"], "STRUCT": ["dict70"], None: list(UNSIZABLE)}

# record keys that are not strings travel as "\x01<tag>"
KEYPOOL = {"int1": 1, "intm1": -1, "intm2": -2, "none": None, "tuple": ("c0",), "bytes": b"c0"}
KEY_OF = {(type(v), v): "\x01" + t for t, v in KEYPOOL.items()}
NFC, NFD = "\u00e9", "e\u0301"  # the same letter in two normal forms: two different keys
ODD_NAMES = ["", "C0", " c0", "c0 ", NFC, NFD, "\u5217", "c" * 70, "0", "name", "type"]

class MyMutableMapping(collections.abc.MutableMapping):
    """a mutable mapping that is not a dict"""

    def __init__(self, d):
        self._d = dict(d)

    def __getitem__(self, k):
        return self._d[k]

    def __setitem__(self, k, v):
        self._d[k] = v

    def __delitem__(self, k):
        del self._d[k]

    def __iter__(self):
        return iter(self._d)

    def __len__(self):
        return len(self._d)


class FrozenMap(collections.abc.Mapping):
    """a read-only mapping (a Mapping, not a MutableMapping)"""

    def __init__(self, d):
        self._d = dict(d)

    def __getitem__(self, k):
        return self._d[k]

    def __iter__(self):
        return iter(self._d)

    def __len__(self):
        return len(self._d)


class DuckMap:
    """looks like a mapping (keys, items, get, [], in, len, iteration) but is registered with no ABC"""

    def __init__(self, d):
        self._d = dict(d)

    def __getitem__(self, k):
        return self._d[k]

    def __iter__(self):
        return iter(self._d)

    def __len__(self):
        return len(self._d)

    def __contains__(self, k):
        return k in self._d

    def keys(self):
        return self._d.keys()

    def items(self):
        return self._d.items()

    def values(self):
        return self._d.values()

    def get(self, k, default=None):
        return self._d.get(k, default)


# record objects that ARE mutable mappings: the statement applies to them as it stands
CONTAINERS = {
    "dict": dict, "OrderedDict": collections.OrderedDict, "defaultdict": lambda d: collections.defaultdict(list, d),
    "UserDict": collections.UserDict, "MyDict": MyDict,
    "Counter": collections.Counter, "ChainMap": lambda d: collections.ChainMap(dict(d)),
    "ChainMap2": lambda d: collections.ChainMap({}, dict(d)), "MyMutableMapping": MyMutableMapping,
}
# every other kind of object handed over as a record; (builder(dict, column names), has a mapping view)
OTHER_KINDS = {
    "mappingproxy": (lambda d, names: types.MappingProxyType(dict(d)), True),
    "FrozenMap": (lambda d, names: FrozenMap(d), True),
    "DuckMap": (lambda d, names: DuckMap(d), True),
    "pairs": (lambda d, names: list(d.items()), True),
    "items": (lambda d, names: dict(d).items(), True),
    "values": (lambda d, names: tuple(d.get(n) for n in names), False),
    "Row": (lambda d, names: _row_of(d, names), False),
    "namedtuple": (lambda d, names: collections.namedtuple("R", ["f%d" % i for i in range(len(names))])(*[d.get(n) for n in names]), False),
    "none": (lambda d, names: None, False),
}
RECORD_KINDS = list(CONTAINERS) + list(OTHER_KINDS)


def _row_of(d, names):
    from orso.row import Row

    return Row.create_class(list(names))(tuple(d.get(n) for n in names))


def kind_flags(obj):
    """[isinstance dict, exact dict, MutableMapping, Mapping] of a record object, measured"""
    return [isinstance(obj, dict), type(obj) is dict, isinstance(obj, collections.abc.MutableMapping),
            isinstance(obj, collections.abc.Mapping)]


def cls_name(v):
    if v is None:
        return None
    try:
        return CLASS_NAME[type(v)]
    except KeyError:
        raise InfraError("value class %r is not in the measured subclass table" % type(v))


def real_key(k):
    return KEYPOOL[k[1:]] if k.startswith("\x01") else k


def key_name(k):
    if isinstance(k, str):
        return k
    return KEY_OF.get((type(k), k), "\x01?" + repr(k))


def norm_col(c):
    """[name, type, nullable] (round 1 cases: the two standard aliases) or [name, type, nullable, aliases]."""
    if len(c) == 3:
        return [c[0], c[1], bool(c[2]), ["alias_" + c[0], c[0].upper() + "_aka"]]
    return [c[0], c[1], bool(c[2]), list(c[3])]


def make_col(c):
    from orso.schema import FlatColumn
    from orso.types import OrsoTypes

    name, ty, nullable, aliases = norm_col(c)
    with warnings.catch_warnings():
        warnings.simplefilter("ignore")
        # a record key equal to an alias is NOT the column's name
        if ty is None:
            return FlatColumn(name=name, nullable=nullable, aliases=list(aliases))
        return FlatColumn(name=name, type=OrsoTypes[ty], nullable=nullable, aliases=list(aliases))


def make_schema(cols):
    from orso.schema import RelationSchema

    return RelationSchema(name="t", columns=[make_col(c) for c in cols])


def plain_record(tags):
    return {real_key(k): POOL[t] for k, t in tags.items()}


def record_of(tags, container="dict", names=()):
    """The record object of kind `container` for the tagged record."""
    d = plain_record(tags)
    if container in CONTAINERS:
        return CONTAINERS[container](d)
    return OTHER_KINDS[container][0](d, list(names))


def record_view(tags, container="dict"):
    """What the record says, as a plain dict; None for an object that has no keys at all."""
    if container in CONTAINERS or OTHER_KINDS[container][1]:
        return plain_record(tags)
    return None


def sizable(tags):
    return not any(t in UNSIZABLE for t in tags.values())


def expected(cols, rec):
    """The statement, evaluated directly."""
    names = [c[0] for c in cols]
    excess = sorted(key_name(k) for k in rec if k not in names)
    if excess:
        return ["excess", excess]
    missing = [c[0] for c in cols if c[0] not in rec]
    nulls = [c[0] for c in cols if c[0] in rec and rec[c[0]] is None and not c[2]]
    wrong = [c[0] for c in cols if c[0] in rec and rec[c[0]] is not None and c[1] is not None
             and not isinstance(rec[c[0]], EXPECTED_CLASS[c[1]])]
    if missing or nulls or wrong:
        return ["invalid", missing, nulls, wrong]
    return ["ok"]


def outcome_of_exception(e):
    from orso.exceptions import DataValidationError, ExcessColumnsInDataError

    if isinstance(e, ExcessColumnsInDataError):
        try:
            return ["excess", sorted(key_name(k) for k in e.columns)]
        except Exception as e2:
            return ["raised", "ExcessColumnsInDataError without usable columns (%s)" % type(e2).__name__]
    if isinstance(e, DataValidationError):
        err = e.errors
        known = {"Column in Schema Not Found in Record", "Column not Nullable", "Incorrect Type"}
        try:
            if set(err) - known:
                return ["raised", "DataValidationError with unknown keys %r" % sorted(set(err) - known)]
            return ["invalid", list(err.get("Column in Schema Not Found in Record", [])),
                    list(err.get("Column not Nullable", [])), [t[0] for t in err.get("Incorrect Type", [])]]
        except Exception as e2:
            return ["raised", "DataValidationError without usable errors (%s)" % type(e2).__name__]
    return ["raised", type(e).__name__]


def impl_validate(schema, rec):
    try:
        r = schema.validate(rec)
        return ["ok"] if r is True else ["returned", repr(r)]
    except Exception as e:
        return outcome_of_exception(e)


def canon(o):
    """The statement says which columns an error names, not in which order: compare as sorted lists."""
    if o and o[0] in ("excess", "invalid"):
        return [o[0]] + [sorted(x) for x in o[1:]]
    return o


def judge_validate(got, want):
    if canon(got) == canon(want):
        return None
    if want[0] == "ok":
        return "a conforming record was rejected"
    if got[0] == "ok":
        return "a non-conforming record was accepted"
    if got[0] != want[0]:
        return "wrong kind of validation error (%s instead of %s)" % (got[0], want[0])
    return "the error does not name precisely the offending columns"


NOT_A_MAPPING = "an object that is not a mapping was accepted as a record"


def judge_validate_kind(got, want, obj):
    """`want` = the statement on the record's mapping view, None when the object has no keys at all.
    A MutableMapping is judged by the statement.  Any other object may be refused with an error; when it is not
    refused it is judged by the statement as well."""
    if isinstance(obj, collections.abc.MutableMapping):
        return judge_validate(got, want)
    if got[0] == "raised":
        return None
    if want is None:
        return NOT_A_MAPPING if got[0] in ("ok", "returned") else None
    c = judge_validate(got, want)
    return c and c + " (the record is not a mutable mapping, it was not refused as such either)"


def run_validate(case):
    cols = [norm_col(c) for c in case["cols"]]
    schema = make_schema(cols)
    kind = case.get("container", "dict")
    rec = record_of(case["record"], kind, [c[0] for c in cols])
    view = record_view(case["record"], kind)
    got = impl_validate(schema, rec)
    return judge_validate_kind(got, None if view is None else expected(cols, view), rec), got


# ----------------------------------------------------------------------------- frames


def wire_eq(a, b):
    if len(a) != len(b):
        return False
    for x, y in zip(a, b):
        if x is y:
            continue
        if type(x) is not type(y) or repr(x) != repr(y):
            return False
    return True


def same_rows(after, before):
    return len(after) == len(before) and all(a is b for a, b in zip(after, before))


def append_step(df, schema, cols, tags, kind, before, rows_now, lazy_first=False):
    """One append of the tagged record (as an object of `kind`) to `df`, judged against `cols`.
    Returns (clause, result, stored row or None, rows after)."""
    from orso.exceptions import DataError

    names = [c[0] for c in cols]
    rec = record_of(tags, kind, names)
    view = record_view(tags, kind)
    mutable = isinstance(rec, collections.abc.MutableMapping)
    want = expected(cols, view) if view is not None else None
    verdict = None
    if not mutable:
        # what validate itself says about this object: append must agree with it
        verdict = impl_validate(schema, rec)
    clause = None
    try:
        df.append(rec)
        raised = None
    except Exception as e:
        raised = e
    after = rows_now()
    stored = None
    if raised is not None:
        got = outcome_of_exception(raised)
        result = ["rejected", got] if got[0] in ("excess", "invalid") else ["raised", type(raised).__name__]
        if not same_rows(after, before):
            if lazy_first and len(after) == len(before) and all(wire_eq(tuple(a), tuple(b)) for a, b in zip(after, before)):
                pass  # a lazy frame materialised: same rows, new list
            else:
                clause = clause or "append raised but changed the frame's rows"
        if not mutable:
            if verdict == ["ok"] and sizable(tags):
                clause = clause or "append of a record that validate accepts raised %s" % type(raised).__name__
        elif want[0] == "ok":
            # accepted by validation but the row could not be stored (it cannot be sized): allowed only if atomic
            if sizable(tags):
                clause = clause or "append of a conforming record raised %s" % type(raised).__name__
        elif not isinstance(raised, DataError):
            clause = clause or "append of a non-conforming record raised %s, not a validation error" % type(raised).__name__
        elif canon(got) != canon(want):
            clause = clause or (judge_validate(got, want) + " (raised by append)")
    else:
        result = ["ok"]
        if not mutable and verdict != ["ok"]:
            clause = clause or "append accepted a record that validate refuses (%s)" % (verdict[1] if verdict[0] == "raised" else verdict[0])
        if want is None:
            clause = clause or NOT_A_MAPPING
        elif want[0] != "ok":
            clause = clause or "append accepted a non-conforming record"
        row = tuple(view.get(c[0]) for c in cols) if view is not None else None
        if len(after) != len(before) + 1 or any(a is not b and not lazy_first for a, b in zip(after, before)):
            clause = clause or "append did not add exactly one row"
        elif row is None or not wire_eq(tuple(after[-1]), row):
            clause = clause or "appended row does not hold the values in column order"
        stored = after[-1] if len(after) == len(before) + 1 else row
    return clause, result, stored, after


def rows_conform(cols, rows):
    for r in rows:
        if len(r) != len(cols):
            return "a stored row is not as wide as the schema"
        for c, v in zip(cols, r):
            if v is None and not c[2]:
                return "a stored row has a null in a non-nullable column"
            if v is not None and c[1] is not None and not isinstance(v, EXPECTED_CLASS[c[1]]):
                return "a stored row has a wrongly typed value"
    return None


def abstract_rows(rows):
    out = []
    for r in rows:
        try:
            out.append([cls_name(v) for v in r])
        except InfraError:
            out.append(["?" + type(v).__name__ for v in r])
    return out


def make_frame(schema, init, how):
    from orso import DataFrame

    if how == "none" and not init:
        return DataFrame(schema=schema)
    if how == "gen":
        return DataFrame(rows=(r for r in list(init)), schema=schema)
    return DataFrame(rows=list(init), schema=schema)


def run_frame(schema, cols, init_tags, records, how="list", containers=None):
    """Appends `records` to a frame bound to `schema`; every verdict is judged against `cols`."""
    init = [tuple(POOL[t] for t in row) for row in init_tags]
    df = make_frame(schema, init, how)
    held = list(init)
    clause = None
    results = []

    def rows_now():
        df.materialize()
        return list(df._rows)

    before = list(init) if how == "gen" else rows_now()
    for i, tags in enumerate(records):
        kind = (containers or {}).get(str(i), "dict") if isinstance(containers, dict) else "dict"
        c, result, stored, after = append_step(df, schema, cols, tags, kind, before, rows_now, lazy_first=(how == "gen" and i == 0))
        clause = clause or c
        results.append(result)
        if result == ["ok"]:
            held.append(stored)
        before = after
    final = [tuple(r) for r in rows_now()]
    if clause is None and (len(final) != len(held) or not all(wire_eq(a, tuple(b)) for a, b in zip(final, held))):
        clause = "the frame does not hold exactly the accepted records, in order"
    if clause is None:
        clause = rows_conform(cols, final)
    return clause, {"results": results, "rows": abstract_rows(final)}


def run_appends(case):
    cols = [norm_col(c) for c in case["cols"]]
    return run_frame(make_schema(cols), cols, case["rows"], case["records"], case.get("how", "list"), case.get("containers"))


def run_dictframe(case):
    """A frame built from dictionaries has no schema object: each append adds one row in column order or raises atomically."""
    from orso import DataFrame

    first = [record_of(t) for t in case["first"]]
    df = DataFrame(dictionaries=first)
    keys = list(first[0].keys())
    held = [tuple(d.get(k) for k in keys) for d in first]
    clause = None
    if not all(wire_eq(tuple(a), b) for a, b in zip(df._rows, held)) or len(df._rows) != len(held):
        return None, {"skipped": "construction differs"}  # construction is C03's business
    for i, tags in enumerate(case["records"]):
        rec = record_of(tags, (case.get("containers") or {}).get(str(i), "dict"))
        before = list(df._rows)
        try:
            df.append(rec)
            raised = None
        except Exception as e:
            raised = e
        after = list(df._rows)
        if raised is not None:
            if len(after) != len(before) or any(a is not b for a, b in zip(after, before)):
                clause = clause or "append raised but changed the frame's rows"
            if sizable(tags):
                clause = clause or "append to a dictionary-built frame raised %s" % type(raised).__name__
        else:
            row = tuple(rec.get(k) for k in keys)
            if len(after) != len(before) + 1 or any(a is not b for a, b in zip(after, before)):
                clause = clause or "append did not add exactly one row"
            elif not wire_eq(tuple(after[-1]), row):
                clause = clause or "appended row does not hold the values in column order"
    return clause, {"rows": len(df._rows)}


# ----------------------------------------------------------------------------- families of frames


PREDICATES = {"all": lambda r: True, "nothing": lambda r: False, "first-set": lambda r: len(r) > 0 and r[0] is not None}
LAZY_METHODS = ("filter", "take")
NOT_ITS_OWN = ("a frame holds a record that was appended to another frame (or lost one to it): frames derived from one "
               "another must each hold exactly their own original rows plus the records accepted by appends to them")
FAMILY_ROWS = "a frame of the family does not hold exactly its original rows plus the records it accepted, in order"


def mirror_derive(method, args, held, held_other=None):
    """The rows a derived frame starts with, from the rows its parent holds now (plain list semantics)."""
    n = len(held)
    if method == "head":
        return [held[: args[0]]]
    if method == "tail":
        return [held[max(n - args[0], 0):] if args[0] > 0 else []]
    if method == "slice":
        offset = args[0] if len(args) > 0 else 0
        length = args[1] if len(args) > 1 else None
        if offset < 0:
            offset = max(n + offset, 0)
        return [held[offset:] if length is None else held[offset: offset + length]]
    if method == "query":
        return [[r for r in held if PREDICATES[args[0]](r)]]
    if method == "distinct":
        out = []
        for r in held:
            if not any(r is x or wire_eq(tuple(r), tuple(x)) for x in out):
                out.append(r)
        return [out]
    if method == "filter":
        return [[r for r, m in zip(held, args[0]) if m]]
    if method == "take":
        return [[r for i, r in enumerate(held) if i in args[0]]]
    if method == "batches":
        chunks = [held[i: i + args[0]] for i in range(0, n, args[0])]
        return [chunks[args[1] % len(chunks)] if chunks else []]
    if method == "add":
        return [list(held) + list(held_other)]
    raise BadCase("derive %r" % (method,))


def real_derive(method, args, df, other=None):
    if method == "head":
        return [df.head(args[0])]
    if method == "tail":
        return [df.tail(args[0])]
    if method == "slice":
        return [df.slice(*args)]
    if method == "query":
        return [df.query(PREDICATES[args[0]])]
    if method == "distinct":
        return [df.distinct()]
    if method == "filter":
        return [df.filter(list(args[0]))]
    if method == "take":
        return [df.take(list(args[0]))]
    if method == "batches":
        # the batch number args[1] (modulo how many there are); a frame without rows has no batches: an empty slice stands in
        chunks = list(df.to_batches(args[0]))
        return [chunks[args[1] % len(chunks)] if chunks else df.slice(0, 0)]
    if method == "add":
        return [df + other]
    raise BadCase("derive %r" % (method,))


def derive_args_ok(method, args, n_frames):
    ints = lambda xs: all(isinstance(x, int) and not isinstance(x, bool) for x in xs)
    if method in ("head", "tail"):
        return len(args) == 1 and ints(args) and 0 <= args[0] <= 50
    if method == "slice":
        return len(args) <= 2 and ints(args[:1]) and -50 <= (args[0] if args else 0) <= 50 and \
            (len(args) < 2 or args[1] is None or (ints(args[1:]) and 0 <= args[1] <= 50))
    if method == "query":
        return len(args) == 1 and args[0] in PREDICATES
    if method == "distinct":
        return len(args) == 0
    if method == "filter":
        return len(args) == 1 and isinstance(args[0], list) and all(isinstance(m, bool) for m in args[0])
    if method == "take":
        return len(args) == 1 and isinstance(args[0], list) and ints(args[0]) and all(0 <= i <= 60 for i in args[0])
    if method == "batches":
        return len(args) == 2 and ints(args) and 1 <= args[0] <= 1000 and 0 <= args[1] <= 50
    if method == "add":
        return len(args) == 1 and ints(args) and 0 <= args[0] < n_frames
    return False


FRAME_TOUCHES = ("nbytes", "hash", "str", "description", "shape", "row0", "fetch", "iter-once", "column_names")


def touch_frame(df, what):
    """Use a frame in a way that must not change its rows; what it returns (or raises) is other properties' business.
    A lazily backed frame is materialised first: what reading one does to its generator is C04's business."""
    df.materialize()
    try:
        if what == "nbytes":
            df.nbytes()
        elif what == "hash":
            hash(df)
        elif what == "str":
            str(df)
        elif what == "description":
            df.description
        elif what == "shape":
            df.shape, df.rowcount, df.columncount
        elif what == "row0":
            df.row(0)
        elif what == "fetch":
            df.fetchone(), df.fetchmany(1)
        elif what == "iter-once":
            next(iter(df), None)
        elif what == "column_names":
            df.column_names, df.schema
        else:
            raise BadCase("touch %r" % (what,))
    except BadCase:
        raise
    except Exception:
        pass


def run_family(case):
    """A root frame and frames derived from it; every frame is a register of its own append history."""
    cols = [norm_col(c) for c in case["cols"]]
    schema = make_schema(cols)
    init = [tuple(POOL[t] for t in row) for row in case["rows"]]
    how = case.get("how", "list")
    frames = [{"df": make_frame(schema, init, how), "held": list(init), "lazy": how == "gen"}]
    clause = None
    results = []
    mismatch = 0
    derive_raised = None
    script = []       # the same program, as the model reads it
    modelled = True   # False when a derived frame starts with rows that are not rows of its parent

    def positions(rows, parent_rows):
        """where the rows of a derived frame sit in its parent (by identity, in order); None if they do not"""
        out, at = [], 0
        for r in rows:
            while at < len(parent_rows) and parent_rows[at] is not r:
                at += 1
            if at == len(parent_rows):
                return None
            out.append(at)
            at += 1
        return out

    def eager_rows(f):
        return list(f["df"]._rows) if isinstance(f["df"]._rows, list) else None

    def holds(f, rows):
        return len(rows) == len(f["held"]) and all(a is b or wire_eq(tuple(a), tuple(b)) for a, b in zip(rows, f["held"]))

    def check_all(final=False):
        for k, f in enumerate(frames):
            if final:
                f["df"].materialize()
            rows = eager_rows(f)
            if rows is not None and not holds(f, rows):
                foreign = any(any(r is x for x in g["held"]) and not any(r is x for x in f["held"]) for r in rows for g in frames if g is not f)
                return NOT_ITS_OWN if foreign or len(rows) != len(f["held"]) else FAMILY_ROWS
        return None

    for op in case["ops"]:
        k = op[0]
        if k == "append":
            f = frames[op[1]]
            kind = op[3] if len(op) > 3 else "dict"

            def rows_now(f=f):
                f["df"].materialize()
                return list(f["df"]._rows)

            script.append(["append", op[1], m_rec(op[2]), sizable(op[2]), kind_flags(record_of(op[2], kind, [c_[0] for c_ in cols]))])
            lazy_first = not isinstance(f["df"]._rows, list)
            before = list(f["held"]) if lazy_first else rows_now()
            c, result, stored, after = append_step(f["df"], schema, cols, op[2], kind, before, rows_now, lazy_first=lazy_first)
            results.append(result)
            if result == ["ok"]:
                f["held"] = f["held"] + [stored]
            if c is not None and clause is None:
                # a lazily backed frame that picked up foreign rows shows it here first: name the cause
                clause = NOT_ITS_OWN if c in ("append raised but changed the frame's rows", "append did not add exactly one row") \
                    and check_all() == NOT_ITS_OWN else c
        elif k == "derive":
            parent = frames[op[1]]
            method, args = op[2], op[3]
            if method in ("query", "distinct", "filter", "take"):
                parent["df"].materialize()  # these read `_rows` as it is: a generator would be consumed (that is C04's business)
            other = frames[args[0]] if method == "add" else None
            expect = mirror_derive(method, args, parent["held"], other["held"] if other else None)
            try:
                got = real_derive(method, args, parent["df"], other["df"] if other else None)
            except Exception as e:
                # taking the frame failed (distinct on rows holding arrays, …): not this property's business; the program ends here
                derive_raised = "%s:%s" % (method, type(e).__name__)
                break
            for df2, rows2 in zip(got, expect):
                f2 = {"df": df2, "held": list(rows2)}
                snap = eager_rows(f2)
                if snap is not None and not holds(f2, snap):
                    # WHICH rows a derived frame selects is not this property's business: take them as they are
                    mismatch += 1
                    f2["held"] = snap
                frames.append(f2)
            if method in ("head", "tail"):
                script.append([method, op[1], args[0]])
            elif method == "slice":
                script.append(["slice", op[1], args[0] if args else 0, args[1] if len(args) > 1 else None])
            elif method == "add":
                script.append(["concat", op[1], args[0]])
            else:
                at = positions(frames[-1]["held"], parent["held"])
                if at is None:
                    modelled = False
                script.append(["pick", op[1], {"batches": "to_batches"}.get(method, method), at or []])
        elif k == "read":
            f = frames[op[1]]
            len(f["df"])
            for _ in f["df"]:
                pass
        elif k == "touch":
            touch_frame(frames[op[1]]["df"], op[2])
        else:
            raise BadCase("family op %r" % (k,))
        if clause is None:
            clause = check_all()
    if clause is None:
        clause = check_all(final=True)
    finals = []
    for f in frames:
        f["df"].materialize()
        finals.append([tuple(r) for r in f["df"]._rows])
    if clause is None:
        for rows in finals:
            clause = clause or rows_conform(cols, rows)
    return clause, {"results": results, "frames": [abstract_rows(r) for r in finals], "derived-content-differs": mismatch,
                    "script": script if modelled else None, "derive-raised": derive_raised}


def check_family(case):
    cols = [norm_col(c) for c in case["cols"]]
    if case.get("how", "list") not in ("list", "none", "gen") or (case.get("how") == "none" and case["rows"]):
        return False
    if not rows_ok(cols, case["rows"]):
        return False
    n = 1
    for op in case["ops"]:
        if op[0] == "append":
            if not (len(op) in (3, 4) and isinstance(op[1], int) and 0 <= op[1] < n and isinstance(op[2], dict) and all(t in POOL for t in op[2].values())):
                return False
            if len(op) == 4 and op[3] not in RECORD_KINDS:
                return False
        elif op[0] == "derive":
            if not (len(op) == 4 and isinstance(op[1], int) and 0 <= op[1] < n and isinstance(op[3], list) and derive_args_ok(op[2], op[3], n)):
                return False
            n += 1
        elif op[0] == "read":
            if not (len(op) == 2 and isinstance(op[1], int) and 0 <= op[1] < n):
                return False
        elif op[0] == "touch":
            if not (len(op) == 3 and isinstance(op[1], int) and 0 <= op[1] < n and op[2] in FRAME_TOUCHES):
                return False
        else:
            return False
    return True


# ----------------------------------------------------------------------------- sessions on one schema object


class BadCase(Exception):
    pass


def apply_to_mirror(cur, op):
    """The column list (as the harness tracks it, independently of orso) after `op`."""
    k = op[0]
    if k in ("validate", "frame", "touch"):
        return cur
    if k == "add":
        return cur + [norm_col(op[1])]
    if k == "insert":
        if not 0 <= op[1] <= len(cur):
            raise BadCase("insert index")
        return cur[: op[1]] + [norm_col(op[2])] + cur[op[1]:]
    if k == "del":
        if not 0 <= op[1] < len(cur):
            raise BadCase("del index")
        return cur[: op[1]] + cur[op[1] + 1:]
    if k == "pop":
        for i, c in enumerate(cur):
            if c[0] == op[1]:
                return cur[:i] + cur[i + 1:]
        return cur
    if k == "replace":
        return [norm_col(c) for c in op[1]]
    if k == "set":
        if not 0 <= op[1] < len(cur):
            raise BadCase("set index")
        return cur[: op[1]] + [norm_col(op[2])] + cur[op[1] + 1:]
    if k == "reverse":
        return list(reversed(cur))
    raise BadCase("op %r" % (k,))


def apply_to_schema(schema, op):
    """The same operation on the real object; returns the schema object to go on with."""
    from orso.types import OrsoTypes

    k = op[0]
    if k == "add":
        schema.columns.append(make_col(op[1]))
    elif k == "insert":
        schema.columns.insert(op[1], make_col(op[2]))
    elif k == "del":
        del schema.columns[op[1]]
    elif k == "pop":
        schema.pop_column(op[1])
    elif k == "replace":
        schema.columns = [make_col(c) for c in op[1]]
    elif k == "set":
        name, ty, nullable, aliases = norm_col(op[2])
        col = schema.columns[op[1]]
        col.name = name
        col.type = OrsoTypes._MISSING_TYPE if ty is None else OrsoTypes[ty]
        col.nullable = nullable
        col.aliases = list(aliases)
    elif k == "reverse":
        schema.columns.reverse()
    elif k == "touch":
        what = op[1]
        with warnings.catch_warnings():
            warnings.simplefilter("ignore")
            if what == "names":
                schema.column_names, schema.all_column_names(), list(schema), schema.num_columns
            elif what == "find":
                schema.find_column("c0"), schema.find_column("C0", case_insensitive=True), schema.column("zz")
            elif what == "rename-schema":
                schema.name = schema.name + "x"
                schema.aliases = list(schema.aliases) + ["a"]
            elif what == "metadata":
                schema.primary_key = "c0"
                schema.row_count_estimate = 5
                for c in schema.columns:
                    c.description = "d"
                    c.origin = ["o"]
            elif what == "relist":
                schema.columns = list(schema.columns)
            elif what == "deepcopy":
                return copy.deepcopy(schema)
            elif what == "copy":
                return copy.copy(schema)
            elif what == "add-empty":
                from orso.schema import RelationSchema

                return schema + RelationSchema(name="o", columns=[])
            elif what == "to_dict":
                schema.to_dict()
            else:
                raise BadCase("touch %r" % (what,))
    else:
        raise BadCase("op %r" % (k,))
    return schema


MUTATIONS = ("add", "insert", "del", "pop", "replace", "set", "reverse")
TOUCHES = ("names", "find", "rename-schema", "metadata", "relist", "deepcopy", "copy", "add-empty", "to_dict")


def run_session(case):
    cur = [norm_col(c) for c in case["cols"]]
    schema = make_schema(cur)
    clause = None
    outs = []
    for op in case["ops"]:
        k = op[0]
        c = None
        if k == "validate":
            rec = record_of(op[1], op[2] if len(op) > 2 else "dict")
            got = impl_validate(schema, rec)
            c = judge_validate(got, expected(cur, rec))
            outs.append(["outcome", got])
        elif k == "frame":
            c, got = run_frame(schema, cur, op[1], op[2], op[3] if len(op) > 3 else "list")
            outs.append(["frame", got["rows"], got["results"]])
        else:
            schema = apply_to_schema(schema, op)
            cur = apply_to_mirror(cur, op)
            if [c_.name for c_ in schema.columns] != [c_[0] for c_ in cur]:
                raise InfraError("the harness's mirror of the column list and the schema object disagree after %r" % (op,))
        if c is not None and clause is None:
            clause = c
            run_session.failed_at = (list(cur), op)
    return clause, outs


HISTORY = ("the verdict depends on the history of the schema object, not only on its columns now: a schema that was used and then "
           "changed judges a record differently from a freshly built schema with the same columns")


def reduce_session(case, clause):
    """A session that fails: the same record / appends on a freshly built schema with the columns of that moment.
    Returns the plain case when it fails too (the history is not needed), else None."""
    cur, op = run_session.failed_at
    if op[0] == "validate":
        plain = {"kind": "validate", "cols": cur, "record": op[1]}
        if len(op) > 2:
            plain["container"] = op[2]
    else:
        plain = {"kind": "appends", "cols": cur, "rows": op[1], "records": op[2]}
        if len(op) > 3:
            plain["how"] = op[3]
    try:
        if valid_case(plain):
            pc = RUNNERS[plain["kind"]](plain)[0]
            if pc is not None:
                return plain, pc
    except InfraError:
        raise
    except Exception:
        pass
    return None


def check_session(case):
    cur = [norm_col(c) for c in case["cols"]]
    if not names_ok(cur):
        return False
    for op in case["ops"]:
        if op[0] == "validate":
            if not all(t in POOL for t in op[1].values()) or (len(op) > 2 and op[2] not in CONTAINERS):
                return False
        elif op[0] == "frame":
            if not rows_ok(cur, op[1]) or not all(all(t in POOL for t in r.values()) for r in op[2]):
                return False
            if len(op) > 3 and (op[3] not in ("list", "none", "gen") or (op[3] == "none" and op[1])):
                return False
        elif op[0] == "touch":
            if op[1] not in TOUCHES:
                return False
        else:
            raw = [op[1]] if op[0] == "add" else [op[2]] if op[0] in ("insert", "set") else op[1] if op[0] == "replace" else []
            if not raw_cols_ok(raw):
                return False
            cur = apply_to_mirror(cur, op)
            if not names_ok(cur):
                return False
    return True


def raw_cols_ok(cols):
    """the case's own column entries: [name, type, nullable] or [name, type, nullable, aliases] (the shrinker must not reshape them)"""
    return all(isinstance(c, list) and len(c) in (3, 4) and isinstance(c[0], str) and isinstance(c[2], bool)
               and (len(c) == 3 or isinstance(c[3], list)) for c in cols)


def names_ok(cols):
    names = [c[0] for c in cols]
    if len(set(names)) != len(names):
        return False
    for c in cols:
        if not isinstance(c[0], str) or not (c[1] is None or c[1] in EXPECTED_CLASS) or not isinstance(c[2], bool):
            return False
        if not all(isinstance(a, str) for a in c[3]):
            return False
    return True


def rows_ok(cols, rows):
    for r in rows:  # initial rows must conform
        if len(r) != len(cols):
            return False
        for c, t in zip(cols, r):
            if t not in POOL or t in UNSIZABLE:
                return False
            v = POOL[t]
            if (v is None and not c[2]) or (v is not None and c[1] is not None and not isinstance(v, EXPECTED_CLASS[c[1]])):
                return False
    return True


# ----------------------------------------------------------------------------- model lines


def m_rec(tags):
    return {k: cls_name(POOL[t]) for k, t in tags.items()}


def m_rows(rows):
    return [[cls_name(POOL[t]) for t in row] for row in rows]


def m_appends(records, containers=None, names=()):
    out = []
    for i, r in enumerate(records):
        kind = (containers or {}).get(str(i), "dict")
        out.append([m_rec(r), sizable(r)] if kind == "dict" else [m_rec(r), sizable(r), kind_flags(record_of(r, kind, names))])
    return out


def model_line(case):
    cols = [norm_col(c) for c in case["cols"]]
    if case["kind"] == "validate":
        kind = case.get("container", "dict")
        return "C05 validatek " + wire.line(cols, m_rec(case["record"]), kind_flags(record_of(case["record"], kind, [c[0] for c in cols])))
    if case["kind"] == "session":
        ops = []
        cur = cols
        for op in case["ops"]:
            k = op[0]
            if k == "validate":
                ops.append(["validate", m_rec(op[1])])
            elif k == "frame":
                ops.append(["frame", m_rows(op[1]), m_appends(op[2])])
            elif k == "touch":
                continue
            elif k == "reverse":
                ops.append(["replace", list(reversed(cur))])
            elif k in ("add",):
                ops.append(["add", norm_col(op[1])])
            elif k in ("insert", "set"):
                ops.append([k, op[1], norm_col(op[2])])
            elif k == "replace":
                ops.append(["replace", [norm_col(c) for c in op[1]]])
            else:
                ops.append(list(op))
            cur = apply_to_mirror(cur, op)
        return "C05 session " + wire.line(cols, ops)
    return "C05 appends " + wire.line(cols, m_rows(case["rows"]), m_appends(case["records"], case.get("containers"), [c[0] for c in cols]))


def family_line(case, script):
    return "C05 family " + wire.line([norm_col(c) for c in case["cols"]], m_rows(case["rows"]), script)


def valid_case(c):
    try:
        kind = c["kind"]
        if kind == "multi":
            return bool(c["cases"]) and all(x.get("kind") != "multi" and valid_case(x) for x in c["cases"])
        if kind == "dictframe":
            return all(v in CONTAINERS for v in (c.get("containers") or {}).values()) and bool(c["first"]) and all(all(t in POOL and t not in UNSIZABLE for t in r.values()) for r in c["first"]) \
                and all(all(t in POOL for t in r.values()) for r in c["records"]) and bool(c["first"][0])
        if not raw_cols_ok(c["cols"]):
            return False
        cols = [norm_col(x) for x in c["cols"]]
        if not names_ok(cols):
            return False
        if kind == "validate":
            return all(t in POOL for t in c["record"].values()) and c.get("container", "dict") in RECORD_KINDS
        if kind == "session":
            return check_session(c)
        if kind == "family":
            return check_family(c)
        if kind != "appends":
            return False
        if c.get("how", "list") not in ("list", "none", "gen") or (c.get("how") == "none" and c["rows"]):
            return False
        if not all(v in RECORD_KINDS for v in (c.get("containers") or {}).values()):
            return False
        return rows_ok(cols, c["rows"]) and all(all(t in POOL for t in r.values()) for r in c["records"])
    except Exception:
        return False


def tidy(c):
    """Drop what a shrunk case no longer uses: record objects named for appends that are gone, defaults spelled out."""
    c = copy.deepcopy(c)
    if c.get("kind") in ("appends", "dictframe") and isinstance(c.get("containers"), dict):
        c["containers"] = {k: v for k, v in c["containers"].items() if k.isdigit() and int(k) < len(c["records"]) and v != "dict"}
        if not c["containers"]:
            del c["containers"]
    if c.get("container") == "dict":
        del c["container"]
    if c.get("how") == "list":
        del c["how"]
    if c.get("kind") == "family":
        c["ops"] = [op[:3] if op[0] == "append" and len(op) > 3 and op[3] == "dict" else op for op in c["ops"]]
    return c


def norm_excess(o):
    return canon(o)


def norm_result(r):
    """model AppendResult -> what the harness records for the implementation"""
    if r[0] == "rejected":
        return ["rejected", norm_excess(r[1])]
    return r


def results_agree(model_results, impl_results):
    if len(model_results) != len(impl_results):
        return False
    for m, i in zip(model_results, impl_results):
        m = norm_result(m)
        if m[0] == "unsizable" or m == ["rejected", ["other"]]:
            if i[0] != "raised":
                return False
        elif m != (["rejected", canon(i[1])] if i[0] == "rejected" else i):
            return False
    return True


def run_multi(case):
    """Several cases in one process, in order; the verdict is the last one's (state shared between schema objects)."""
    clause, got = None, None
    for sub in case["cases"]:
        clause, got = RUNNERS[sub["kind"]](sub)
    return clause, got


RUNNERS = {"validate": run_validate, "appends": run_appends, "session": run_session, "dictframe": run_dictframe, "multi": run_multi,
           "family": run_family}

SHARED = ("the verdict depends on other schema objects used earlier in the same process (state shared between objects): "
          "alone, the last case of this sequence is judged correctly")


class History:
    """The cases evaluated so far in this process: the first and the most recent ones (a replay must be self-contained)."""

    def __init__(self, head=150, tail=150):
        import collections as _c

        self.head, self.n_head, self.tail = [], head, _c.deque(maxlen=tail)

    def add(self, c):
        if c.get("kind") == "multi":
            return
        if len(self.head) < self.n_head:
            self.head.append(c)
        else:
            self.tail.append(c)

    def cases(self):
        return self.head + list(self.tail)


HISTORY_BUF = History()


def run_isolated(cases):
    """Clauses of `cases`, run in order in a fresh interpreter; None when that could not be done."""
    import json
    import os
    import subprocess
    import sys

    from ..core import VERIF, _jsonable

    try:
        p = subprocess.run([sys.executable, "-m", "harness.props.c05"], input=json.dumps(_jsonable(cases)), capture_output=True,
                           text=True, timeout=300, cwd=VERIF, env=dict(os.environ, PYTHONPATH=VERIF))
        if p.returncode != 0:
            return None
        return json.loads(p.stdout.strip().split("\n")[-1])
    except Exception:
        return None


ISOLATION_BUDGET = {"s": 60.0}


def isolate(c_min, c, clause, shown, history):
    """Make sure the replay reproduces in a fresh process; if the failure needs earlier cases, put the fewest needed in front."""
    import time

    t0 = time.time()
    try:
        return _isolate(c_min, c, clause, shown, history, t0)
    finally:
        ISOLATION_BUDGET["s"] -= time.time() - t0


def _isolate(c_min, c, clause, shown, history, t0):
    import time

    def left():
        return ISOLATION_BUDGET["s"] - (time.time() - t0)

    if left() <= 0:
        return c_min, shown
    got = run_isolated([c_min])
    if got is None or got[-1] == clause:
        return c_min, shown
    if c is not c_min:
        got = run_isolated([c])
        if got is not None and got[-1] == clause:
            return c, shown
    pre = [x for x in history.cases()]
    got = run_isolated(pre + [c_min])
    if got is None or got[-1] != clause:
        return c_min, shown + " (seen in this run only: it did not reproduce in a fresh process, alone or after the recorded earlier cases)"
    budget, chunk = 30, max(1, len(pre) // 2)
    while budget > 0 and pre and left() > 0:
        i, progress = 0, False
        while i < len(pre) and budget > 0 and left() > 0:
            trial = pre[:i] + pre[i + chunk:]
            budget -= 1
            got = run_isolated(trial + [c_min])
            if got is not None and got[-1] == clause:
                pre, progress = trial, True
            else:
                i += chunk
        if chunk == 1 and not progress:
            break
        chunk = max(1, chunk // 2)
    return {"kind": "multi", "cases": pre + [c_min]}, SHARED


def evaluate(ctx, cases):
    # a family is run first: where the rows of a query / distinct / batch sit in the parent is read off the frames
    ran = {id(c): run_family(c) for c in cases if c["kind"] == "family"}
    modelled = [c for c in cases if c["kind"] not in ("dictframe", "multi") and (c["kind"] != "family" or ran[id(c)][1]["script"] is not None)]
    lines = [family_line(c, ran[id(c)][1]["script"]) if c["kind"] == "family" else model_line(c) for c in modelled]
    mouts = dict(zip([id(c) for c in modelled], ctx.model.batch(lines)))
    for c in cases:
        kind = c["kind"]
        m = None
        if id(c) in mouts:
            mo = mouts[id(c)]
            if not mo.startswith("ok "):
                raise InfraError("model rejected %r: %r" % (c, mo))
            m = wire.dec_all(mo[3:])
        fn = RUNNERS[kind]
        clause, got = ran[id(c)] if kind == "family" else fn(c)
        ctx.case(c, nontrivial=kind in ("dictframe", "multi", "session", "family") or len(c["cols"]) >= 1)
        record_distribution(ctx, c, got)
        if clause is not None:
            shown = clause
            if kind == "session":
                red = reduce_session(c, clause)
                if red is not None:
                    c, clause = red
                    fn, shown, m = RUNNERS[c["kind"]], clause, None
                else:
                    shown = HISTORY

            def still(c2, fn=fn, clause=clause, kind=c["kind"]):
                if not valid_case(c2):
                    return False
                try:
                    if fn(c2)[0] != clause:
                        return False
                    return kind != "session" or reduce_session(c2, clause) is None
                except Exception:
                    return False

            c_min = c
            if not ctx.replaying and not any(v.get("sig") == shown for v in ctx.violations):
                c_min = shrink(c, still, budget=400)
                t_ = tidy(c_min)
                if t_ != c_min and still(t_):
                    c_min = t_
                c_min, shown = isolate(c_min, c, clause, shown, HISTORY_BUF)
            ctx.fail(c_min, shown, impl=RUNNERS[c_min["kind"]](c_min)[1], model=m, detail=None if shown == clause else clause)
            HISTORY_BUF.add(c)
            continue
        HISTORY_BUF.add(c)
        if kind == "validate":
            if norm_excess(m[0]) != (["other"] if got[0] == "raised" else canon(got)):
                ctx.disagree(c, got, m[0])
        elif kind == "family":
            if m is None:
                ctx.hit("family:not-modelled")
            else:
                if m[0] != m[2]:
                    ctx.hit("family:model-says-frames-share-rows")
                if m[0] != got["frames"] or not results_agree(m[1], got["results"]):
                    ctx.disagree(c, {k_: got[k_] for k_ in ("frames", "results")}, m[:2])
        elif kind == "appends":
            if m[0] != got["rows"] or not results_agree(m[2], got["results"]):
                ctx.disagree(c, got, m)
        elif kind == "session":
            mo_, ok = m[0], len(m[0]) == len(got)
            for a, b in zip(mo_, got):
                if not ok:
                    break
                if a[0] != b[0]:
                    ok = False
                elif a[0] == "outcome":
                    ok = norm_excess(a[1]) == canon(b[1])
                else:
                    ok = a[1] == b[1] and results_agree(a[2], b[2])
            if not ok:
                ctx.disagree(c, got, m)


def record_distribution(ctx, c, got):
    kind = c["kind"]
    ctx.hit("kind:" + kind)
    if kind == "multi":
        return
    if kind == "validate":
        ctx.hit("outcome:" + got[0])
        if got[0] == "invalid":
            ctx.hit("rules-fired:%d" % sum(1 for x in got[1:] if x))
        if c.get("container", "dict") != "dict":
            ctx.hit("record-object:" + c["container"])
        if any(k.startswith("\x01") for k in c["record"]):
            ctx.hit("record-key:not-a-string")
        for t in c["record"].values():
            if POOL[t] is not None and cls_name(POOL[t]) not in ("bool", "int", "float", "str", "bytes", "date", "datetime", "time",
                                                                  "timedelta", "dict", "Decimal", "list", "tuple", "set"):
                ctx.hit("value-class:" + cls_name(POOL[t]))
    elif kind == "appends":
        ctx.hit("frame-created:" + c.get("how", "list"))
        for r in got["results"]:
            ctx.hit("append:" + r[0])
        for k_ in (c.get("containers") or {}).values():
            if k_ != "dict":
                ctx.hit("append-record-object:" + k_)
    elif kind == "family":
        ctx.hit("family-root-created:" + c.get("how", "list"))
        sizes = [len(c["rows"])]
        for op in c["ops"]:
            if op[0] == "derive":
                ctx.hit("family-derive:" + op[2])
                n = len(got["frames"][op[1]]) if op[1] < len(got["frames"]) else 0
                if op[2] in ("head", "tail") or (op[2] == "slice" and len(op[3]) == 2 and op[3][1] is not None):
                    want = op[3][-1]
                    ctx.hit("family-derive-size:" + ("whole-or-more" if want >= n else "part"))
            elif op[0] == "append":
                ctx.hit("family-append-to:" + ("root" if op[1] == 0 else "derived"))
                if len(op) > 3 and op[3] != "dict":
                    ctx.hit("append-record-object:" + op[3])
            elif op[0] == "touch":
                ctx.hit("family-touch:" + op[2])
            else:
                ctx.hit("family-read")
        for r in got["results"]:
            ctx.hit("family-append:" + r[0])
        if got["derive-raised"]:
            ctx.hit("family:derive-raised:" + got["derive-raised"])
        if got["derived-content-differs"]:
            ctx.hit("family:derived-content-differs-from-plain-list-semantics", got["derived-content-differs"])
        ctx.hit("family-frames", len(got["frames"]))
    elif kind == "session":
        changed = False
        for op in c["ops"]:
            ctx.hit("session-op:" + op[0] + (":" + op[1] if op[0] == "touch" else ""))
            if op[0] in MUTATIONS:
                changed = True
            elif op[0] == "validate" and changed:
                ctx.hit("session:validate-after-change")
            elif op[0] == "frame" and changed:
                ctx.hit("session:frame-after-change")
        for o in got:
            if o[0] == "outcome":
                ctx.hit("session-outcome:" + o[1][0])


# ----------------------------------------------------------------------------- generators


def gen_name(rng, used, i):
    if rng.random() < 0.12:
        cand = [n for n in ODD_NAMES if n not in used]
        if cand:
            return rng.choice(cand)
    n = "c%d" % i
    while n in used:
        i += 1
        n = "c%d" % i
    return n


def gen_col(rng, used, i):
    name = gen_name(rng, used, i)
    ty = None if rng.random() < 0.2 else rng.choice(TYPES)
    r = rng.random()
    if r < 0.5:
        aliases = ["alias_" + name, name.upper() + "_aka"]
    elif r < 0.7:
        aliases = []
    else:
        aliases = [rng.choice(["zz", "extra", "c0", "c1", "id", name + "_"])]
    return [name, ty, rng.random() < 0.5, aliases]


def gen_cols(rng, n=None):
    n = rng.randint(0, 4) if n is None else n
    cols = []
    for i in range(n):
        cols.append(gen_col(rng, {c[0] for c in cols}, i))
    return cols


def gen_record_tags(rng, cols, p_valid=0.5, also=()):
    """A record for `cols`; `also` = names that were or will be columns of the same schema object."""
    tags = {}
    valid = rng.random() < p_valid
    for c in cols:
        n, ty, nl = c[0], c[1], c[2]
        r = rng.random()
        if not valid and r < 0.18:
            continue  # missing
        if (valid and nl and r < 0.3) or (not valid and r < 0.36):
            tags[n] = "none"
        elif valid or r < 0.7:
            tags[n] = rng.choice(RIGHT[ty]) if ty else rng.choice(ORDINARY)
        else:
            tags[n] = rng.choice(ORDINARY)
    if not valid and rng.random() < 0.3:
        pool = ["zz", "extra", "C0", "\x01" + rng.choice(list(KEYPOOL))] + [a for a in also if a not in tags]
        if cols:
            c = rng.choice(cols)
            pool += list(c[3])[:2] + [c[0].upper(), c[0] + " ", NFD if c[0] == NFC else NFC]
        extra = rng.choice([p for p in pool if p not in tags] or ["zz"])
        if extra not in [c[0] for c in cols]:
            tags[extra] = rng.choice(ORDINARY)
            if rng.random() < 0.2:  # two excess keys; -1 and -2 have equal hashes
                tags["\x01intm1"] = "int"
                tags["\x01intm2"] = "int"
    items = list(tags.items())
    rng.shuffle(items)
    return dict(items)


def gen_validate(rng):
    cols = gen_cols(rng)
    c = {"kind": "validate", "cols": cols, "record": gen_record_tags(rng, cols)}
    if rng.random() < 0.25:
        c["container"] = rng.choice(RECORD_KINDS)
    return c


def gen_init_rows(rng, cols, n):
    rows = []
    for _ in range(n):
        rows.append([("none" if (c[2] and rng.random() < 0.3) else (rng.choice(RIGHT[c[1]]) if c[1] else rng.choice(["int", "str", "list"])))
                     for c in cols])
    return rows


def gen_append_records(rng, cols, also=()):
    recs = [gen_record_tags(rng, cols, 0.6, also) for _ in range(rng.randint(1, 6))]
    if rng.random() < 0.2:
        cand = [c for c in cols if c[1] in UNSIZABLE_FOR]
        if cand:
            c = rng.choice(cand)
            r = gen_record_tags(rng, cols, 1.0)
            r[c[0]] = rng.choice(UNSIZABLE_FOR[c[1]])
            recs.insert(rng.randint(0, len(recs)), r)
    return recs


def gen_appends(rng):
    cols = gen_cols(rng, rng.randint(1, 4))
    rows = gen_init_rows(rng, cols, rng.choice([0, 0, 1, 2]))
    recs = gen_append_records(rng, cols)
    c = {"kind": "appends", "cols": cols, "rows": rows, "records": recs}
    r = rng.random()
    if r < 0.2:
        c["how"] = "gen"
    elif r < 0.4 and not rows:
        c["how"] = "none"
    if rng.random() < 0.3:
        c["containers"] = {str(i): rng.choice(RECORD_KINDS) for i in range(len(recs)) if rng.random() < 0.5}
    return c


def gen_mutation(rng, cur, retired, fresh_i):
    """One change of the column list; names of removed columns come back, removed names stay in later records."""
    used = {c[0] for c in cur}
    kinds = ["add", "add", "insert", "replace", "touch"]
    if cur:
        kinds += ["del", "pop", "set", "set", "reverse"]
    k = rng.choice(kinds)
    if k == "touch":
        return ["touch", rng.choice(TOUCHES)]

    def new_col():
        back = [n for n in retired if n not in used]
        c = gen_col(rng, used, fresh_i)
        if back and rng.random() < 0.4:
            c[0] = rng.choice(back)
        return c

    if k == "add":
        return ["add", new_col()]
    if k == "insert":
        return ["insert", rng.randint(0, len(cur)), new_col()]
    if k == "del":
        return ["del", rng.randrange(len(cur))]
    if k == "pop":
        return ["pop", rng.choice([c[0] for c in cur] + ["zz"])]
    if k == "reverse":
        return ["reverse"]
    if k == "replace":
        keep = [list(c) for c in cur if rng.random() < 0.6]
        if rng.random() < 0.6:
            used = {c[0] for c in keep}
            back = [n for n in retired if n not in used]
            c = gen_col(rng, used, fresh_i)
            if back and rng.random() < 0.4:
                c[0] = rng.choice(back)
            keep.insert(rng.randint(0, len(keep)), c)
        return ["replace", keep]
    i = rng.randrange(len(cur))
    c = list(cur[i])
    what = rng.choice(["name", "type", "nullable", "aliases"])
    if what == "name":
        others = used - {c[0]}
        c[0] = gen_name(rng, others | {c[0]}, fresh_i)
    elif what == "type":
        c[1] = rng.choice([t for t in TYPES + [None] if t != c[1]])
    elif what == "nullable":
        c[2] = not c[2]
    else:
        c[3] = [rng.choice(["zz", "extra", "c0", "c1", "c2", c[0] + "_x"])]
    return ["set", i, c]


def gen_session(rng):
    cols = gen_cols(rng, rng.randint(0, 3))
    ops = []
    cur = [list(c) for c in cols]
    snapshots = [cur]
    retired = []
    fresh = 10
    for step in range(rng.randint(3, 9)):
        r = rng.random()
        if step == 0 or r < 0.5:
            # half of the records are written for the columns as they were (or will be again): stale state shows there
            basis = cur if rng.random() < 0.55 else rng.choice(snapshots)
            also = [n for n in retired] + [c[0] for s in snapshots for c in s if c[0] not in [x[0] for x in cur]]
            op = ["validate", gen_record_tags(rng, basis, 0.7, also)]
            if rng.random() < 0.1:
                op.append(rng.choice(list(CONTAINERS)))
            ops.append(op)
        elif r < 0.85:
            op = gen_mutation(rng, cur, retired, fresh)
            fresh += 1
            new = apply_to_mirror(cur, op)
            if not names_ok(new):
                continue
            for c in cur:
                if c[0] not in [x[0] for x in new] and c[0] not in retired:
                    retired.append(c[0])
            ops.append(op)
            cur = new
            snapshots.append(cur)
        else:
            basis = cur if rng.random() < 0.6 else rng.choice(snapshots)
            recs = [gen_record_tags(rng, basis if rng.random() < 0.7 else cur, 0.7, retired) for _ in range(rng.randint(1, 4))]
            if rng.random() < 0.15:
                cand = [c for c in cur if c[1] in UNSIZABLE_FOR]
                if cand:
                    c = rng.choice(cand)
                    rr = gen_record_tags(rng, cur, 1.0)
                    rr[c[0]] = rng.choice(UNSIZABLE_FOR[c[1]])
                    recs.append(rr)
            rows = gen_init_rows(rng, cur, rng.choice([0, 0, 1]))
            op = ["frame", rows, recs]
            if not rows and rng.random() < 0.3:
                op.append("none")
            elif rng.random() < 0.2:
                op.append("gen")
            ops.append(op)
    return {"kind": "session", "cols": cols, "ops": ops}


def gen_derive(rng, n_frames, sizes):
    """One derivation from an existing frame; `sizes` = how many rows each frame holds now (as the generator tracks it)."""
    i = rng.randrange(n_frames)
    n = sizes[i]
    near = [0, 1, max(n - 1, 0), n, n + 1, n + 5, 5]
    m = rng.choice(["head", "head", "tail", "tail", "slice", "slice", "query", "distinct", "filter", "take", "batches", "add"])
    if m in ("head", "tail"):
        args = [rng.choice(near)]
    elif m == "slice":
        r = rng.random()
        if r < 0.25:
            args = []
        elif r < 0.5:
            args = [rng.choice([0, 0, -n, -n - 1, 1, -1]), None]
        else:
            args = [rng.choice([0, 0, 0, -n, -n - 2, 1, -1, n]), rng.choice(near)]
    elif m == "query":
        args = [rng.choice(list(PREDICATES))]
    elif m == "distinct":
        args = []
    elif m == "filter":
        args = [[rng.random() < 0.8 for _ in range(n + rng.choice([0, 0, 1, 3]))]]
    elif m == "take":
        args = [sorted(rng.sample(range(n + 3), rng.randint(0, n + 3)))]
    elif m == "batches":
        args = [rng.choice([1, 2, max(n, 1), n + 1, 1000]), rng.randint(0, 3)]
    else:
        args = [rng.randrange(n_frames)]
    return ["derive", i, m, args]


def family_size_after(op, sizes):
    """upper estimate of the rows the new frame starts with (only used to aim the generator at the boundaries)"""
    n = sizes[op[1]]
    m, a = op[2], op[3]
    if m in ("head", "tail"):
        return min(n, a[0])
    if m == "add":
        return n + sizes[a[0]]
    if m == "batches":
        return min(n, a[0])
    return n


def gen_family(rng):
    cols = gen_cols(rng, rng.randint(1, 3))
    rows = gen_init_rows(rng, cols, rng.choice([0, 1, 2, 2, 3]))
    how = "gen" if rng.random() < 0.15 else ("none" if not rows and rng.random() < 0.5 else "list")
    sizes = [len(rows)]
    ops = []
    for _ in range(rng.randint(3, 10)):
        r = rng.random()
        if r < 0.5 or (not ops and not rows):
            i = rng.randrange(len(sizes))
            tags = gen_record_tags(rng, cols, 0.8)
            op = ["append", i, tags]
            if rng.random() < 0.15:
                op.append(rng.choice(RECORD_KINDS))
            ops.append(op)
            if expected(cols, plain_record(tags))[0] == "ok" and (len(op) == 3 or op[3] in CONTAINERS):
                sizes[i] += 1
        elif r < 0.9:
            op = gen_derive(rng, len(sizes), sizes)
            ops.append(op)
            sizes.append(family_size_after(op, sizes))
        elif r < 0.95:
            ops.append(["read", rng.randrange(len(sizes))])
        else:
            ops.append(["touch", rng.randrange(len(sizes)), rng.choice(FRAME_TOUCHES)])
    c = {"kind": "family", "cols": cols, "rows": rows, "ops": ops}
    if how != "list":
        c["how"] = how
    return c


def gen_dictframe(rng):
    keys = ["k%d" % i for i in range(rng.randint(1, 3))]
    first = [{k: rng.choice(ORDINARY) for k in keys} for _ in range(rng.randint(1, 2))]
    recs = []
    for _ in range(rng.randint(1, 4)):
        r = {k: rng.choice(ORDINARY) for k in keys if rng.random() < 0.85}
        if rng.random() < 0.2:
            r["zz"] = "int"
        if rng.random() < 0.1:
            r[rng.choice(keys)] = rng.choice(UNSIZABLE)
        items = list(r.items())
        rng.shuffle(items)
        recs.append(dict(items))
    c = {"kind": "dictframe", "first": first, "records": recs}
    if rng.random() < 0.3:
        c["containers"] = {str(i): rng.choice(list(CONTAINERS)) for i in range(len(recs)) if rng.random() < 0.5}
    return c


def decision_table():
    """Every column type x nullable x every value of the pool; and all subsets of {missing,null,wrong,excess}."""
    for ty in TYPES + [None]:
        for nl in (False, True):
            for tag in POOL:
                yield {"kind": "validate", "cols": [["c0", ty, nl]], "record": {"c0": tag}}
            yield {"kind": "validate", "cols": [["c0", ty, nl]], "record": {}}
    cols = [["m", "INTEGER", True], ["n", "VARCHAR", False], ["w", "DOUBLE", True], ["u", None, True]]
    for missing, null, wrong, excess in itertools.product([0, 1], repeat=4):
        rec = {"u": "list"}
        if not missing:
            rec["m"] = "int"
        rec["n"] = "none" if null else "str"
        rec["w"] = "int" if wrong else "float"
        if excess:
            rec["zz" if (missing + null) % 2 == 0 else "alias_m"] = "int"
        for order in (list(rec.items()), list(reversed(list(rec.items())))):
            for container in ("dict", "UserDict", "OrderedDict"):
                c = {"kind": "validate", "cols": cols, "record": dict(order)}
                if container != "dict":
                    c["container"] = container
                yield c
    # every kind of two offences in two different columns of the same kind, and unhashable wrongly typed values
    cols2 = [["a", "INTEGER", False], ["b", "INTEGER", False], ["c", "VARCHAR", False]]
    for ta, tb in itertools.product(["int", "none", "list", None], repeat=2):
        rec = {"c": "dict"}
        if ta:
            rec["a"] = ta
        if tb:
            rec["b"] = tb
        yield {"kind": "validate", "cols": cols2, "record": rec}
    # keys that are not strings, keys that differ from a name only in case / normal form / trailing space
    base = [["c0", "INTEGER", True, ["k"]], [NFC, None, True, []]]
    for extra in ["\x01" + t for t in KEYPOOL] + ["C0", "c0 ", NFD, "k", ""]:
        yield {"kind": "validate", "cols": base, "record": {"c0": "int", NFC: "str", extra: "int"}}
    yield {"kind": "validate", "cols": base, "record": {"c0": "int", NFC: "str", "\x01intm1": "int", "\x01intm2": "int"}}
    # the row serialiser's limits, one append each, for every way a frame is created
    for how in ("list", "none", "gen"):
        for tag in ("i64max", "i64min", "u64max") + UNSIZABLE:
            col = "ARRAY" if tag == "list70" else ("STRUCT" if tag == "dict70" else "INTEGER")
            yield {"kind": "appends", "cols": [["c0", col, True]], "rows": [], "how": how,
                   "records": [{"c0": RIGHT[col][0]}, {"c0": tag}, {"c0": "none"}]}
    for container in CONTAINERS:
        yield {"kind": "appends", "cols": [["a", "INTEGER", False], ["b", "VARCHAR", True]], "rows": [["int", "str"]],
               "records": [{"b": "str", "a": "int"}, {"a": "str", "b": "str"}, {"a": "int"}], "containers": {"0": container, "1": container, "2": container}}
        yield {"kind": "dictframe", "first": [{"a": "int", "b": "str"}], "records": [{"b": "str", "a": "int"}, {"a": "int70"}, {"zz": "int"}],
               "containers": {"0": container, "1": container}}


def kinds_table():
    """Every kind of record object through validate and through append: conforming, with each single offence, and with
    the keys in the other order."""
    cols = [["a", "INTEGER", False], ["b", "VARCHAR", True]]
    recs = [{"a": "int", "b": "str"}, {"b": "str", "a": "int"}, {"a": "int", "b": "none"}, {"a": "str", "b": "str"}, {"a": "none", "b": "str"},
            {"a": "int"}, {"a": "int", "b": "str", "zz": "int"}, {}, {"b": "bytes", "a": "true"}]
    for kind in RECORD_KINDS:
        for rec in recs:
            yield {"kind": "validate", "cols": cols, "record": rec, "container": kind}
        yield {"kind": "validate", "cols": [], "record": {}, "container": kind}
        yield {"kind": "validate", "cols": [["a", None, True]], "record": {"a": "list"}, "container": kind}
        for how, rows in (("list", [["int", "str"]]), ("none", []), ("gen", [["int", "none"]])):
            yield {"kind": "appends", "cols": cols, "rows": rows, "how": how, "records": recs[:3] + recs[3:7] + [recs[0]],
                   "containers": {str(i): kind for i in range(8)}}
        # the same object kind between two plain records: what it leaves behind must not disturb the next append
        yield {"kind": "appends", "cols": cols, "rows": [], "records": [recs[0], recs[1], recs[0]], "containers": {"1": kind}}
        yield {"kind": "appends", "cols": [["a", None, True]], "rows": [], "records": [{"a": "int70"}, {"a": "list"}], "containers": {"0": kind, "1": kind}}


def family_table():
    """Derived frames as further registers of one append history: for every way of taking a frame from another one, at
    and around the size of the parent, append to the parent, to the child, to both, before and after the child was read."""
    cols = [["a", "INTEGER", False], ["b", "VARCHAR", True]]
    good, good2, bad = {"a": "int", "b": "str"}, {"b": "none", "a": "bigint"}, {"a": "str", "b": "str"}
    for n in (0, 1, 2, 3):
        rows = [["int", "str"], ["int0", "none"], ["bigint", "empty"]][:n]
        derivations = [["head", [k]] for k in sorted({0, 1, max(n - 1, 0), n, n + 1, 5})]
        derivations += [["tail", [k]] for k in sorted({0, 1, max(n - 1, 0), n, n + 1, 5})]
        derivations += [["slice", []], ["slice", [0]], ["slice", [0, None]], ["slice", [0, n]], ["slice", [0, n + 1]], ["slice", [0, max(n - 1, 0)]],
                        ["slice", [-n, None]], ["slice", [-n - 1, None]], ["slice", [-n, n]], ["slice", [-n - 1, n + 1]], ["slice", [1, None]],
                        ["slice", [1, n]], ["slice", [-1, 1]], ["slice", [n, None]], ["slice", [0, 0]]]
        derivations += [["query", ["all"]], ["query", ["nothing"]], ["distinct", []], ["filter", [[True] * n]], ["filter", [[True] * (n + 2)]],
                        ["take", [list(range(n))]], ["take", [list(range(n + 3))]], ["batches", [max(n, 1), 0]], ["batches", [n + 1, 0]],
                        ["batches", [1, 0]], ["batches", [1000, 0]], ["add", [0]]]
        for how in ("list", "gen") if n else ("list", "none"):
            for m, args in derivations:
                for script in (
                    [["derive", 0, m, args], ["append", 0, good], ["append", 0, bad], ["append", 1, good2], ["append", 0, good2]],
                    [["derive", 0, m, args], ["append", 1, good], ["append", 1, bad], ["append", 0, good2]],
                    [["derive", 0, m, args], ["read", 1], ["append", 0, good], ["read", 1], ["append", 1, good2]],
                    [["append", 0, good], ["derive", 0, m, args], ["append", 0, good2], ["derive", 1, m, args], ["append", 2, good], ["append", 1, bad], ["append", 1, good]],
                ):
                    if m == "add" and script[0][0] != "derive":
                        continue
                    c = {"kind": "family", "cols": cols, "rows": rows, "ops": script}
                    if how != "list":
                        c["how"] = how
                    yield c
    # the frames are used in between: sized, hashed, printed, fetched from, iterated
    for what in FRAME_TOUCHES:
        for m, args in (["head", [5]], ["slice", []], ["tail", [2]], ["filter", [[True, True, True]]]):
            yield {"kind": "family", "cols": cols, "rows": [["int", "str"], ["int0", "none"]],
                   "ops": [["touch", 0, what], ["derive", 0, m, args], ["touch", 0, what], ["touch", 1, what], ["append", 0, good], ["touch", 1, what],
                           ["append", 1, good2], ["touch", 0, what], ["append", 0, bad], ["append", 1, good]]}
    # odd record objects into a derived frame and into its parent
    rows = [["int", "str"]]
    for kind in ("mappingproxy", "FrozenMap", "UserDict", "ChainMap", "pairs", "Row"):
        yield {"kind": "family", "cols": cols, "rows": rows, "ops": [["derive", 0, "head", [5]], ["append", 1, good, kind], ["append", 0, good2, kind], ["append", 1, good]]}


def session_table():
    """Use -> change -> use again, once for every way the column list of one schema object can change."""
    a, b, d = ["a", "INTEGER", False, ["id"]], ["b", "VARCHAR", True, []], ["d", "DOUBLE", True, []]
    full = {"a": "int", "b": "str"}
    with_d = {"a": "int", "b": "str", "d": "float"}
    only_a = {"a": "int"}
    changes = [
        (["add", d], with_d), (["insert", 0, d], with_d), (["insert", 1, d], with_d),
        (["del", 1], only_a), (["del", 0], {"b": "str"}), (["pop", "b"], only_a), (["pop", "zz"], full),
        (["replace", [a, b, d]], with_d), (["replace", [a]], only_a), (["replace", [b, a]], full), (["replace", []], {}),
        (["set", 1, ["d", "VARCHAR", True, []]], {"a": "int", "d": "str"}),            # rename
        (["set", 1, ["b", "INTEGER", True, []]], {"a": "int", "b": "int"}),             # retype
        (["set", 1, ["b", None, True, []]], {"a": "int", "b": "list"}),                 # untype
        (["set", 0, ["a", "INTEGER", True, ["id"]]], {"a": "none", "b": "str"}),        # nullable on
        (["set", 1, ["b", "VARCHAR", False, []]], full),                                # nullable off
        (["set", 0, ["a", "INTEGER", False, ["d", "zz"]]], full),                       # new aliases
        (["reverse"], full),
    ]
    probes = [full, with_d, only_a, {"a": "int", "b": "none"}, {"a": "none", "b": "str"}, {"a": "int", "b": "int"}, {"a": "int", "id": "int", "b": "str"}]
    for change, conforming in changes:
        for first in (full, with_d):
            for touch in (None, "deepcopy", "names"):
                ops = [["validate", first]]
                if touch:
                    ops.append(["touch", touch])
                ops.append(change)
                ops += [["validate", p] for p in probes + [conforming]]
                ops.append(["frame", [], [conforming, full, with_d, only_a], "none"])
                yield {"kind": "session", "cols": [a, b], "ops": ops}
        # the first use is an append through a frame
        yield {"kind": "session", "cols": [a, b], "ops": [["frame", [], [full, with_d]], change, ["frame", [], [conforming, full, with_d, only_a]],
                                                        ["validate", conforming], ["validate", full], ["validate", with_d]]}
    # two changes that undo each other, and state the verdict must not depend on
    for touch in TOUCHES:
        yield {"kind": "session", "cols": [a, b], "ops": [["validate", full], ["touch", touch], ["validate", full], ["validate", with_d],
                                                        ["add", d], ["touch", touch], ["validate", with_d], ["validate", full], ["del", 2], ["validate", full],
                                                        ["validate", with_d], ["frame", [["int", "str"]], [full, with_d]]]}


def run(ctx):
    ctx.note("rule", "validate(record object), append histories on schema-bound and dictionary-built frames, sessions on one schema object (use, change, use again) and families of frames derived from one another (appends to any of them); non-trivial = schema with at least one column, a session or a family; distinct by canonical JSON")
    cases = list(decision_table()) + list(kinds_table())
    n_dec = len(cases)
    sess = list(session_table())
    fam = list(family_table())
    cases += sess + fam
    evaluate(ctx, cases)
    ctx.note("family_scope", "family table: a root frame of 0..3 rows created from a list / None / a generator x every way of taking a frame from it (head, tail, slice at, one below and one past the size of the parent, with and without a length, negative offsets; query, distinct, filter and take with masks / indexes longer than the frame, to_batches, +) x four scripts (append to the parent, to the child, read the child in between, a chain of three frames) (%d cases); every record object (dict, OrderedDict, defaultdict, UserDict, a dict subclass, Counter, ChainMap, a custom MutableMapping; MappingProxyType, a custom read-only Mapping, a duck-typed look-alike; a list of pairs, dict_items, the values as a tuple, a Row, a namedtuple, None) through validate and through append on frames created each way" % len(fam))
    ctx.note("exhaustive_scope", "decision table: every column type (and untyped) x nullable x every value of the pool (subclasses, numpy scalars, unhashable and nested values, 64-bit limits), every subset of {missing, null, wrong type, excess} in two key orders and three record containers, record keys that are not strings or differ from a name in case / normal form / a trailing space, the row serialiser's limits for each way a frame is created (%d cases); session table: use -> change -> use again for every way the column list of one schema object can change x first use x state touched in between (%d cases); then random schemas, records, append histories and sessions" % (n_dec, len(sess)))
    n = ctx.scale(40000, 500000)
    done = 0
    while done < n and ctx.time_left() > 5:
        batch = []
        for _ in range(1500):
            r = ctx.rng.random()
            batch.append(gen_validate(ctx.rng) if r < 0.33 else gen_appends(ctx.rng) if r < 0.5 else gen_session(ctx.rng) if r < 0.75
                         else gen_family(ctx.rng) if r < 0.96 else gen_dictframe(ctx.rng))
        evaluate(ctx, batch)
        done += len(batch)
    # appends that pass validation at the record size cap: exactly at it, one past it, far past it (slow: single cases)
    for tag, n_chars in (("at-cap", 16 * 1024 * 1024 - 6), ("past-cap", 16 * 1024 * 1024 - 5), ("huge", 17 * 1024 * 1024)):
        big = {"kind": "appends", "cols": [["c0", "VARCHAR", True]], "rows": [], "records": [{"c0": "str"}, {"c0": tag}, {"c0": "empty"}]}
        POOL[tag] = "x" * n_chars
        try:
            clause, got = run_appends_huge(big)
            ctx.case({"kind": "appends-" + tag}, True)
            ctx.hit("record-size:%s:%s" % (tag, "accepted" if got["accepted"] == 3 else "refused"))
            if clause:
                ctx.fail(big, clause, impl=got)
        finally:
            POOL.pop(tag, None)


def run_appends_huge(case):
    from orso import DataFrame

    schema = make_schema(case["cols"])
    df = DataFrame(rows=[], schema=schema)
    n_ok = 0
    clause = None
    for tags in case["records"]:
        before = len(df._rows)
        try:
            df.append(record_of(tags))
            n_ok += 1
            if len(df._rows) != before + 1:
                clause = "append did not add exactly one row"
        except Exception:
            if len(df._rows) != before:
                clause = "append raised but changed the frame's rows"
    return clause, {"rows": len(df._rows), "accepted": n_ok}


def intensify(ctx):
    for _ in range(5):
        evaluate(ctx, [gen_validate(ctx.rng) for _ in range(2000)] + [gen_appends(ctx.rng) for _ in range(1000)]
                 + [gen_session(ctx.rng) for _ in range(1500)] + [gen_dictframe(ctx.rng) for _ in range(100)]
                 + [gen_family(ctx.rng) for _ in range(1500)])
        if ctx.violations:
            return


BIG_TAGS = {"at-cap": 16 * 1024 * 1024 - 6, "past-cap": 16 * 1024 * 1024 - 5, "huge": 17 * 1024 * 1024}


def replay(ctx, case):
    big = [t for r in case.get("records", []) if isinstance(r, dict) for t in r.values() if t in BIG_TAGS]
    if big:
        for t in big:
            POOL[t] = "x" * BIG_TAGS[t]
        try:
            clause, got = run_appends_huge(case)
            if clause:
                ctx.fail(case, clause, impl=got)
        finally:
            for t in big:
                POOL.pop(t, None)
        return
    if not case.get("kind"):  # replays written by round 1 shrank the kind away
        case = dict(case, kind="appends" if "records" in case else "validate")
    evaluate(ctx, [case])


KNOWN_PREDICATES = {}


if __name__ == "__main__":
    # isolated evaluation of a list of cases (JSON on stdin) in a fresh interpreter: prints the list of their clauses
    import json
    import sys

    from harness import runner
    from harness.core import unjson

    runner.setup_impl_path()
    out = []
    for case_ in unjson(json.load(sys.stdin)):
        try:
            out.append(RUNNERS[case_["kind"]](case_)[0])
        except Exception as e_:
            out.append("error: %s" % type(e_).__name__)
    print(json.dumps(out))
