"""C05 — Validation accepts exactly conforming records; append is atomic.

Values travel to the model as their class name (or None); the oracle is the statement's four
clauses evaluated directly with isinstance against the natural class of each column type.

Case kinds
  validate   one record against one freshly built schema
  appends    a history of appends to one schema-bound frame (created from a list of rows, with rows=None,
             or from a generator of rows)
  session    ONE RelationSchema object used many times: validate, change the column list (columns.append /
             insert / del / pop_column / assignment / in-place change of a column / reverse), touch state
             the property does not depend on, copy the object, validate again, append through frames bound
             to it — every verdict is judged against the columns as they are at that moment
  dictframe  appends to a frame built from dictionaries (no schema object: atomicity and column order only)
  bound      frames that STAY bound to ONE RelationSchema object while its owner edits it (rename / retype in place, reorder, add,
             remove, replace columns) between their appends; the frames' cached helpers (column_names, columncount, description)
             are read in between — every append is judged against the columns as they are at that moment
  family     several frames of one schema: a root frame and frames derived from it (head / tail / slice / query /
             distinct / filter / take / to_batches / +); appends go to any of them, each frame is a register of
             its own append history: it holds exactly its original rows plus the records accepted by appends to IT

The record *object* is a dimension of its own (`container` / `containers`): every kind of mapping (dict and its
subclasses, Counter, ChainMap, UserDict, a custom MutableMapping), read-only mappings (MappingProxyType, a custom
Mapping), a duck-typed look-alike, and objects that are no mapping at all (a list of pairs, the values as a tuple,
a Row, a namedtuple, None).  A MutableMapping is judged by the statement; any other object may be refused with an
error, but whatever is accepted must be judged by the statement too and must be stored as its values in column order.
"""
import collections
import collections.abc
import copy
import datetime
import decimal
import itertools
import types
import warnings

import numpy

from .. import wire
from ..core import InfraError, shrink
from ..extractors.c05 import CLASSES, MyDateTime, MyDict, MyInt, MyStr

# the Python class each column type stands for (the statement: "an instance of its column type's Python class")
EXPECTED_CLASS = {
    "BOOLEAN": bool, "INTEGER": int, "DOUBLE": float, "DECIMAL": decimal.Decimal, "VARCHAR": str, "BLOB": bytes,
    "DATE": datetime.date, "TIMESTAMP": datetime.datetime, "TIME": datetime.time, "INTERVAL": datetime.timedelta,
    "ARRAY": list, "STRUCT": dict, "JSONB": bytes,
}
TYPES = sorted(EXPECTED_CLASS)
CLASS_NAME = {c: n for n, c in CLASSES.items()}

# value pool: tag -> value. Tags keep cases JSON-serialisable.
POOL = {
    "none": None, "true": True, "false": False, "int0": 0, "int": -5, "bigint": 2**40, "float": 1.5, "nan": float("nan"),
    "str": "text", "empty": "", "bytes": b"\x00\xff", "date": datetime.date(2024, 2, 29),
    "datetime": datetime.datetime(2024, 2, 29, 12, 30, 1), "time": datetime.time(1, 2, 3),
    "timedelta": datetime.timedelta(days=1, seconds=5), "dict": {"k": 1}, "decimal": decimal.Decimal("1.50"),
    "list": [1, 2], "tuple": (1, 2), "set": {1},
    # unusual but legal (round 2): signed zero, infinities, subclasses, numpy scalars, unhashable and nested values,
    # the 64-bit boundaries of the row serialiser
    "negzero": -0.0, "inf": float("inf"), "decnan": decimal.Decimal("NaN"), "nonascii": "héllo ✓ \U0001f600",
    "emptybytes": b"", "bytearray": bytearray(b"ab"), "frozenset": frozenset([1]),
    "myint": MyInt(7), "mystr": MyStr("sub"), "mydt": MyDateTime(2020, 1, 2, 3, 4, 5), "mydict": MyDict(a=1),
    "ordereddict": collections.OrderedDict(a=1), "defaultdict": collections.defaultdict(list, a=[1]),
    "np_int64": numpy.int64(3), "np_float64": numpy.float64(2.5), "np_bool": numpy.bool_(True), "np_str": numpy.str_("n"),
    "np_arr": numpy.array([1, 2]), "nested": [[1], {"a": [2, {"b": None}]}], "emptylist": [], "emptydict": {},
    "i64max": 2**63 - 1, "i64min": -(2**63), "u64max": 2**64 - 1,
    # accepted by validation, rejected when the row is sized (atomicity of append)
    "int70": 2**70, "u64over": 2**64, "i64under": -(2**63) - 1, "list70": [1, [2**70]], "dict70": {"k": {"j": 2**70}},
}
UNSIZABLE = ("int70", "u64over", "i64under", "list70", "dict70")
ORDINARY = [t for t in POOL if t not in UNSIZABLE]
RIGHT = {
    "BOOLEAN": ["true", "false"], "INTEGER": ["int", "int0", "bigint", "true", "myint", "i64max", "i64min", "u64max"],
    "DOUBLE": ["float", "nan", "negzero", "inf", "np_float64"], "DECIMAL": ["decimal", "decnan"],
    "VARCHAR": ["str", "empty", "nonascii", "mystr", "np_str"], "BLOB": ["bytes", "emptybytes"],
    "DATE": ["date", "datetime", "mydt"], "TIMESTAMP": ["datetime", "mydt"], "TIME": ["time"], "INTERVAL": ["timedelta"],
    "ARRAY": ["list", "nested", "emptylist"], "STRUCT": ["dict", "mydict", "ordereddict", "defaultdict", "emptydict"],
    "JSONB": ["bytes", "emptybytes"],
}
UNSIZABLE_FOR = {"INTEGER": ["int70", "u64over", "i64under"], "ARRAY": ["list70"], "STRUCT": ["dict70"], None: list(UNSIZABLE)}

# record keys that are not strings travel as "\x01<tag>"
KEYPOOL = {"int1": 1, "intm1": -1, "intm2": -2, "none": None, "tuple": ("c0",), "bytes": b"c0"}
KEY_OF = {(type(v), v): "\x01" + t for t, v in KEYPOOL.items()}
NFC, NFD = "\u00e9", "e\u0301"  # the same letter in two normal forms: two different keys
ODD_NAMES = ["", "C0", " c0", "c0 ", NFC, NFD, "\u5217", "c" * 70, "0", "name", "type"]

class MyMutableMapping(collections.abc.MutableMapping):
    """a mutable mapping that is not a dict"""

    def __init__(self, d):
        self._d = dict(d)

    def __getitem__(self, k):
        return self._d[k]

    def __setitem__(self, k, v):
        self._d[k] = v

    def __delitem__(self, k):
        del self._d[k]

    def __iter__(self):
        return iter(self._d)

    def __len__(self):
        return len(self._d)


class FrozenMap(collections.abc.Mapping):
    """a read-only mapping (a Mapping, not a MutableMapping)"""

    def __init__(self, d):
        self._d = dict(d)

    def __getitem__(self, k):
        return self._d[k]

    def __iter__(self):
        return iter(self._d)

    def __len__(self):
        return len(self._d)


class DuckMap:
    """looks like a mapping (keys, items, get, [], in, len, iteration) but is registered with no ABC"""

    def __init__(self, d):
        self._d = dict(d)

    def __getitem__(self, k):
        return self._d[k]

    def __iter__(self):
        return iter(self._d)

    def __len__(self):
        return len(self._d)

    def __contains__(self, k):
        return k in self._d

    def keys(self):
        return self._d.keys()

    def items(self):
        return self._d.items()

    def values(self):
        return self._d.values()

    def get(self, k, default=None):
        return self._d.get(k, default)


# record objects that ARE mutable mappings: the statement applies to them as it stands
CONTAINERS = {
    "dict": dict, "OrderedDict": collections.OrderedDict, "defaultdict": lambda d: collections.defaultdict(list, d),
    "UserDict": collections.UserDict, "MyDict": MyDict,
    "Counter": collections.Counter, "ChainMap": lambda d: collections.ChainMap(dict(d)),
    "ChainMap2": lambda d: collections.ChainMap({}, dict(d)), "MyMutableMapping": MyMutableMapping,
}
# every other kind of object handed over as a record; (builder(dict, column names), has a mapping view)
OTHER_KINDS = {
    "mappingproxy": (lambda d, names: types.MappingProxyType(dict(d)), True),
    "FrozenMap": (lambda d, names: FrozenMap(d), True),
    "DuckMap": (lambda d, names: DuckMap(d), True),
    "pairs": (lambda d, names: list(d.items()), True),
    "items": (lambda d, names: dict(d).items(), True),
    "values": (lambda d, names: tuple(d.get(n) for n in names), False),
    "Row": (lambda d, names: _row_of(d, names), False),
    "namedtuple": (lambda d, names: collections.namedtuple("R", ["f%d" % i for i in range(len(names))])(*[d.get(n) for n in names]), False),
    "none": (lambda d, names: None, False),
}
RECORD_KINDS = list(CONTAINERS) + list(OTHER_KINDS)


def _row_of(d, names):
    """a Row of a class made here, by hand: the record object must not ask the library for a row class (that would be one
    more use of `Row.create_class`, whose calls are a dimension of their own — see FEATURES below)"""
    from orso.row import Row

    return type("RowFactory", (Row,), {"_fields": tuple(str(n) for n in names)})(tuple(d.get(n) for n in names))


def kind_flags(obj):
    """[isinstance dict, exact dict, MutableMapping, Mapping] of a record object, measured"""
    return [isinstance(obj, dict), type(obj) is dict, isinstance(obj, collections.abc.MutableMapping),
            isinstance(obj, collections.abc.Mapping)]


def cls_name(v):
    if v is None:
        return None
    try:
        return CLASS_NAME[type(v)]
    except KeyError:
        raise InfraError("value class %r is not in the measured subclass table" % type(v))


def real_key(k):
    return KEYPOOL[k[1:]] if k.startswith("\x01") else k


def key_name(k):
    if isinstance(k, str):
        return k
    return KEY_OF.get((type(k), k), "\x01?" + repr(k))


def norm_col(c):
    """[name, type, nullable] (round 1 cases: the two standard aliases) or [name, type, nullable, aliases]."""
    if len(c) == 3:
        return [c[0], c[1], bool(c[2]), ["alias_" + c[0], c[0].upper() + "_aka"]]
    return [c[0], c[1], bool(c[2]), list(c[3])]


# "for all schemas": a column may DECLARE a default (`FlatColumn.default`).  The statement knows no defaults: every schema
# column must be present in the record, whatever the column declares.  A case says which of its columns declare one with
# `"defaults": {column name: value tag}`; while the case runs every column of that name the harness makes declares it
# (also columns added or replaced later in a session).
DEFAULTS = {}
DEFAULT_SET_AFTERWARDS = collections.Counter()


def make_col(c):
    from orso.schema import FlatColumn
    from orso.types import OrsoTypes

    name, ty, nullable, aliases = norm_col(c)
    kw = {} if ty is None else {"type": OrsoTypes[ty]}
    with warnings.catch_warnings():
        warnings.simplefilter("ignore")
        # a record key equal to an alias is NOT the column's name
        tag = DEFAULTS.get(name)
        if tag is not None:
            try:
                # the constructor parses a default to the column's type and refuses what it cannot parse
                return FlatColumn(name=name, nullable=nullable, aliases=list(aliases), default=POOL[tag], **kw)
            except Exception:
                col = FlatColumn(name=name, nullable=nullable, aliases=list(aliases), **kw)
                col.default = POOL[tag]     # ... an attribute of a dataclass can also simply be assigned
                DEFAULT_SET_AFTERWARDS[ty] += 1
                return col
        return FlatColumn(name=name, nullable=nullable, aliases=list(aliases), **kw)


# the ways a RelationSchema with given columns comes to be ("for all schemas": however they were made)
ROUTES = ("direct", "type-name", "dict-roundtrip", "json-roundtrip", "deepcopy", "copy", "pickle", "constant-columns", "function-columns",
          "sum", "arrow-schema")


def make_schema(cols, via="direct"):
    from orso.schema import ConstantColumn, FlatColumn, FunctionColumn, RelationSchema

    if via in (None, "direct"):
        return RelationSchema(name="t", columns=[make_col(c) for c in cols])
    with warnings.catch_warnings():
        warnings.simplefilter("ignore")
        if via == "type-name":
            # the column type given by its name, as in a schema read from a configuration file
            columns = []
            for c in cols:
                name, ty, nullable, aliases = norm_col(c)
                kw = {} if ty is None else {"type": ty}
                columns.append(FlatColumn(name=name, nullable=nullable, aliases=list(aliases), **kw))
            return RelationSchema(name="t", columns=columns)
        if via in ("constant-columns", "function-columns"):
            from orso.types import OrsoTypes

            cls = ConstantColumn if via == "constant-columns" else FunctionColumn
            columns = []
            for c in cols:
                name, ty, nullable, aliases = norm_col(c)
                kw = {} if ty is None else {"type": OrsoTypes[ty]}
                columns.append(cls(name=name, nullable=nullable, aliases=list(aliases), **kw))
            return RelationSchema(name="t", columns=columns)
        if via == "sum":
            k = len(cols) // 2
            return RelationSchema(name="t", columns=[make_col(c) for c in cols[:k]]) + RelationSchema(name="u", columns=[make_col(c) for c in cols[k:]])
        if via == "arrow-schema":
            import pyarrow

            from orso.schema import convert_arrow_schema_to_orso_schema

            return convert_arrow_schema_to_orso_schema(pyarrow.schema([pyarrow.field(c[0], arrow_type(c[1]), nullable=bool(c[2])) for c in cols]))
        base = RelationSchema(name="t", columns=[make_col(c) for c in cols])
        if via == "dict-roundtrip":
            return RelationSchema.from_dict(base.to_dict())
        if via == "json-roundtrip":
            return RelationSchema(name="t", columns=[FlatColumn.from_json(c.to_json()) for c in base.columns])
        if via == "deepcopy":
            return copy.deepcopy(base)
        if via == "copy":
            return copy.copy(base)
        if via == "pickle":
            import pickle

            return pickle.loads(pickle.dumps(base))
    raise BadCase("schema route %r" % (via,))


def schema_for(case):
    """(schema object, the columns records are judged against) for a case whose schema is made through `case["via"]`.
    A route may legitimately change what a column is (that is another property's business): the records are judged against
    the columns the schema object HAS — its name / type / nullable fields, read back —, never against what went in.
    (None, reason) when the route cannot make this schema."""
    cols = [norm_col(c) for c in case["cols"]]
    via = case.get("via")
    if via in (None, "direct"):
        return make_schema(cols), cols
    try:
        schema = make_schema(cols, via)
    except BadCase:
        raise
    except Exception as e:
        return None, "schema route %s raised %s" % (via, type(e).__name__)
    seen = observed_cols(schema)
    if seen is None or (len({c[0] for c in seen}) != len(seen) and len({c[0] for c in cols}) == len(cols)):
        return None, "schema route %s left the statement" % via
    return schema, seen


def plain_record(tags):
    return {real_key(k): POOL[t] for k, t in tags.items()}


def record_of(tags, container="dict", names=()):
    """The record object of kind `container` for the tagged record."""
    d = plain_record(tags)
    if container in CONTAINERS:
        return CONTAINERS[container](d)
    return OTHER_KINDS[container][0](d, list(names))


def record_view(tags, container="dict"):
    """What the record says, as a plain dict; None for an object that has no keys at all."""
    if container in CONTAINERS or OTHER_KINDS[container][1]:
        return plain_record(tags)
    return None


def sizable(tags):
    return not any(t in UNSIZABLE for t in tags.values())


def expected(cols, rec):
    """The statement, evaluated directly."""
    names = [c[0] for c in cols]
    excess = sorted(key_name(k) for k in rec if k not in names)
    if excess:
        return ["excess", excess]
    missing = [c[0] for c in cols if c[0] not in rec]
    nulls = [c[0] for c in cols if c[0] in rec and rec[c[0]] is None and not c[2]]
    wrong = [c[0] for c in cols if c[0] in rec and rec[c[0]] is not None and c[1] is not None
             and not isinstance(rec[c[0]], EXPECTED_CLASS[c[1]])]
    if missing or nulls or wrong:
        return ["invalid", missing, nulls, wrong]
    return ["ok"]


def outcome_of_exception(e):
    from orso.exceptions import DataValidationError, ExcessColumnsInDataError

    if isinstance(e, ExcessColumnsInDataError):
        try:
            return ["excess", sorted(key_name(k) for k in e.columns)]
        except Exception as e2:
            return ["raised", "ExcessColumnsInDataError without usable columns (%s)" % type(e2).__name__]
    if isinstance(e, DataValidationError):
        err = e.errors
        known = {"Column in Schema Not Found in Record", "Column not Nullable", "Incorrect Type"}
        try:
            if set(err) - known:
                return ["raised", "DataValidationError with unknown keys %r" % sorted(set(err) - known)]
            return ["invalid", list(err.get("Column in Schema Not Found in Record", [])),
                    list(err.get("Column not Nullable", [])), [t[0] for t in err.get("Incorrect Type", [])]]
        except Exception as e2:
            return ["raised", "DataValidationError without usable errors (%s)" % type(e2).__name__]
    return ["raised", type(e).__name__]


def impl_validate(schema, rec):
    try:
        r = schema.validate(rec)
        return ["ok"] if r is True else ["returned", repr(r)]
    except Exception as e:
        return outcome_of_exception(e)


def canon(o):
    """The statement says which columns an error names, not in which order: compare as sorted lists."""
    if o and o[0] in ("excess", "invalid"):
        return [o[0]] + [sorted(x) for x in o[1:]]
    return o


def judge_validate(got, want):
    if canon(got) == canon(want):
        return None
    if want[0] == "ok":
        return "a conforming record was rejected"
    if got[0] == "ok":
        return "a non-conforming record was accepted"
    if got[0] != want[0]:
        return "wrong kind of validation error (%s instead of %s)" % (got[0], want[0])
    return "the error does not name precisely the offending columns"


NOT_A_MAPPING = "an object that is not a mapping was accepted as a record"


def judge_validate_kind(got, want, obj):
    """`want` = the statement on the record's mapping view, None when the object has no keys at all.
    A MutableMapping is judged by the statement.  Any other object may be refused with an error; when it is not
    refused it is judged by the statement as well."""
    if isinstance(obj, collections.abc.MutableMapping):
        return judge_validate(got, want)
    if got[0] == "raised":
        return None
    if want is None:
        return NOT_A_MAPPING if got[0] in ("ok", "returned") else None
    c = judge_validate(got, want)
    return c and c + " (the record is not a mutable mapping, it was not refused as such either)"


def run_validate(case):
    schema, cols = schema_for(case)
    if schema is None:
        return None, {"skipped": cols}
    kind = case.get("container", "dict")
    rec = record_of(case["record"], kind, [c[0] for c in cols])
    view = record_view(case["record"], kind)
    got = impl_validate(schema, rec)
    return judge_validate_kind(got, None if view is None else expected(cols, view), rec), got


# ----------------------------------------------------------------------------- frames


def wire_eq(a, b):
    if len(a) != len(b):
        return False
    for x, y in zip(a, b):
        if x is y:
            continue
        if type(x) is not type(y) or repr(x) != repr(y):
            return False
    return True


def same_rows(after, before):
    return len(after) == len(before) and all(a is b for a, b in zip(after, before))


def append_step(df, schema, cols, tags, kind, before, rows_now, lazy_first=False, rec=None):
    """One append of the tagged record (as an object of `kind`; `rec`: the caller's own object, which says `tags` now) to
    `df`, judged against `cols`.  Returns (clause, result, stored row or None, rows after)."""
    from orso.exceptions import DataError

    names = [c[0] for c in cols]
    if rec is None:
        rec = record_of(tags, kind, names)
    view = record_view(tags, kind)
    mutable = isinstance(rec, collections.abc.MutableMapping)
    want = expected(cols, view) if view is not None else None
    verdict = None
    if not mutable:
        # what validate itself says about this object: append must agree with it
        verdict = impl_validate(schema, rec)
    clause = None
    try:
        df.append(rec)
        raised = None
    except Exception as e:
        raised = e
    after = rows_now()
    stored = None
    if raised is not None:
        got = outcome_of_exception(raised)
        result = ["rejected", got] if got[0] in ("excess", "invalid") else ["raised", type(raised).__name__]
        if not same_rows(after, before):
            if lazy_first and len(after) == len(before) and all(wire_eq(tuple(a), tuple(b)) for a, b in zip(after, before)):
                pass  # a lazy frame materialised: same rows, new list
            else:
                clause = clause or "append raised but changed the frame's rows"
        if not mutable:
            if verdict == ["ok"] and sizable(tags):
                clause = clause or "append of a record that validate accepts raised %s" % type(raised).__name__
        elif want[0] == "ok":
            # accepted by validation but the row could not be stored (it cannot be sized): allowed only if atomic
            if sizable(tags):
                clause = clause or "append of a conforming record raised %s" % type(raised).__name__
        elif not isinstance(raised, DataError):
            clause = clause or "append of a non-conforming record raised %s, not a validation error" % type(raised).__name__
        elif canon(got) != canon(want):
            clause = clause or (judge_validate(got, want) + " (raised by append)")
    else:
        result = ["ok"]
        if not mutable and verdict != ["ok"]:
            clause = clause or "append accepted a record that validate refuses (%s)" % (verdict[1] if verdict[0] == "raised" else verdict[0])
        if want is None:
            clause = clause or NOT_A_MAPPING
        elif want[0] != "ok":
            clause = clause or "append accepted a non-conforming record"
        row = tuple(view.get(c[0]) for c in cols) if view is not None else None
        if len(after) != len(before) + 1 or any(a is not b and not lazy_first for a, b in zip(after, before)):
            clause = clause or "append did not add exactly one row"
        elif row is None or not wire_eq(tuple(after[-1]), row):
            clause = clause or "appended row does not hold the values in column order"
        stored = after[-1] if len(after) == len(before) + 1 else row
    return clause, result, stored, after


def rows_conform(cols, rows):
    for r in rows:
        if len(r) != len(cols):
            return "a stored row is not as wide as the schema"
        for c, v in zip(cols, r):
            if v is None and not c[2]:
                return "a stored row has a null in a non-nullable column"
            if v is not None and c[1] is not None and not isinstance(v, EXPECTED_CLASS[c[1]]):
                return "a stored row has a wrongly typed value"
    return None


def abstract_rows(rows):
    out = []
    for r in rows:
        try:
            out.append([cls_name(v) for v in r])
        except InfraError:
            out.append(["?" + type(v).__name__ for v in r])
    return out


# ----------------------------------------------------------------------------- other features used in the same process
#
# A frame's rows are built by a row class the library makes when the frame is created (`Row.create_class`).  Other
# features ask for row classes too: reading an arrow table (a tuples-only class for its reader, then a frame), frames built
# from dictionaries or on a plain list of names, frames on other schemas that happen to have the same column names,
# `Row.create_class` itself.  None of them may change what an append to *this* frame stores.  A feature is a JSON list:
#   ["arrow", names, n, read]      DataFrame.from_arrow of a table with these columns and n rows (read: iterate it)
#   ["arrow-reader", names, n]     converters.from_arrow only (the reader and its rows, no frame)
#   ["rowclass", names, tuples_only]
#   ["dictframe", names]           DataFrame(dictionaries=[…]) with these keys, one append
#   ["listframe", names]           DataFrame(rows=[], schema=[names]), one append
#   ["schemaframe", cols, tags]    a frame on ANOTHER RelationSchema (cols), one append of the tagged record
ARROW_ROWS = {"INTEGER": ["int", "int0", "bigint", "i64max", "i64min"], "DOUBLE": ["float", "negzero", "inf"],
              "VARCHAR": ["str", "empty", "nonascii"], "BOOLEAN": ["true", "false"], "BLOB": ["bytes", "emptybytes"]}
FEATURE_KINDS = ("arrow", "arrow-reader", "rowclass", "dictframe", "listframe", "schemaframe")


def arrow_type(ty):
    import pyarrow

    return {"INTEGER": pyarrow.int64(), "DOUBLE": pyarrow.float64(), "VARCHAR": pyarrow.string(), "BOOLEAN": pyarrow.bool_(),
            "BLOB": pyarrow.binary()}[ty]


def arrow_table(cols, init):
    """an arrow table with the columns `cols` ([name, type, nullable, …]) holding the rows `init` (tuples of values)"""
    import pyarrow

    fields = [pyarrow.field(c[0], arrow_type(c[1]), nullable=bool(c[2])) for c in cols]
    arrays = [pyarrow.array([r[i] for r in init], type=arrow_type(c[1])) for i, c in enumerate(cols)]
    return pyarrow.Table.from_arrays(arrays, schema=pyarrow.schema(fields))


def arrow_ok(cols, rows):
    """can a frame with these columns and initial rows be created from an arrow table and come back value for value?"""
    return len(cols) >= 1 and all(c[1] in ARROW_ROWS for c in cols) and all(all(t in ARROW_ROWS[c[1]] for c, t in zip(cols, r)) for r in rows)


def feature_ok(f):
    strs = lambda xs: isinstance(xs, list) and all(isinstance(x, str) for x in xs) and len(set(xs)) == len(xs)
    try:
        k = f[0]
        if k == "arrow":
            return len(f) == 4 and strs(f[1]) and len(f[1]) >= 1 and f[2] in (0, 1, 2) and isinstance(f[3], bool)
        if k == "arrow-reader":
            return len(f) == 3 and strs(f[1]) and len(f[1]) >= 1 and f[2] in (0, 1, 2)
        if k == "rowclass":
            return len(f) == 3 and strs(f[1]) and isinstance(f[2], bool)
        if k in ("dictframe", "listframe"):
            return len(f) == 2 and strs(f[1]) and len(f[1]) >= 1
        if k == "schemaframe":
            return len(f) == 3 and raw_cols_ok(f[1]) and names_ok([norm_col(c) for c in f[1]]) and isinstance(f[2], dict) \
                and all(isinstance(k_, str) and t in POOL for k_, t in f[2].items())
    except Exception:
        pass
    return False


def run_feature(f):
    """Use another feature of the library.  What it returns or raises is other properties' business."""
    from orso import DataFrame
    from orso.row import Row

    k = f[0]
    try:
        if k in ("arrow", "arrow-reader"):
            names, n = f[1], f[2]
            table = arrow_table([[nm, "INTEGER", True] for nm in names], [tuple(range(i, i + len(names))) for i in range(n)])
            if k == "arrow":
                df = DataFrame.from_arrow(table)
                if f[3]:
                    for _ in df:
                        pass
            else:
                from orso.converters import from_arrow

                rows, _schema = from_arrow(table)
                for _ in rows:
                    pass
        elif k == "rowclass":
            cls = Row.create_class(list(f[1]), tuples_only=f[2])
            cls(tuple(range(len(f[1]))))
            if not f[2]:
                cls({nm: 0 for nm in f[1]})
        elif k == "dictframe":
            df = DataFrame([{nm: i for i, nm in enumerate(f[1])}])
            df.append({nm: 0 for nm in f[1]})
        elif k == "listframe":
            df = DataFrame(rows=[], schema=list(f[1]))
            df.append({nm: 0 for nm in f[1]})
        elif k == "schemaframe":
            df = DataFrame(rows=[], schema=make_schema([norm_col(c) for c in f[1]]))
            df.append(plain_record(f[2]))
        else:
            raise BadCase("feature %r" % (k,))
    except BadCase:
        raise
    except Exception:
        pass


def feature_script(f):
    """The requests for a row class a feature makes, as the model reads them: [names, who asks] with who = "reader"
    (the arrow reader), "frame" (the DataFrame constructor) or the `tuples_only` flag of a direct call."""
    k = f[0]
    if k == "arrow":
        return [["feature", list(f[1]), "reader"], ["feature", list(f[1]), "frame"]]
    if k == "arrow-reader":
        return [["feature", list(f[1]), "reader"]]
    if k == "rowclass":
        return [["feature", list(f[1]), bool(f[2])]]
    if k in ("dictframe", "listframe"):
        return [["feature", list(f[1]), "frame"]]
    return [["feature", [norm_col(c)[0] for c in f[1]], "frame"]]


def observed_cols(schema):
    """[name, type, nullable, aliases] of the columns of a schema the library made itself (from_arrow); None if a column
    has a type the statement does not speak about"""
    from orso.types import OrsoTypes

    out = []
    for c in schema.columns:
        ty = None if c.type == OrsoTypes._MISSING_TYPE else getattr(c.type, "name", None)
        if ty is not None and ty not in EXPECTED_CLASS:
            return None
        out.append([c.name, ty, bool(c.nullable), [str(a) for a in (c.aliases or [])]])
    return out


def make_frame(schema, init, how, cols=None):
    from orso import DataFrame

    if how == "none" and not init:
        return DataFrame(schema=schema)
    if how == "gen":
        return DataFrame(rows=(r for r in list(init)), schema=schema)
    if how == "arrow":
        # the library derives the schema from the table; the frame holds the table's rows lazily
        return DataFrame.from_arrow(arrow_table(cols, init))
    return DataFrame(rows=list(init), schema=schema)


def arrow_differs(cols, init):
    """does an arrow table with these rows come back differently from what went in? (how arrow values are converted is
    another property's business: such a case is not judged here)"""
    try:
        probe = make_frame(None, init, "arrow", cols)
        probe.materialize()
        return len(probe._rows) != len(init) or not all(wire_eq(tuple(a), tuple(b)) for a, b in zip(probe._rows, init))
    except Exception:
        return True


def run_frame(schema, cols, init_tags, records, how="list", containers=None):
    """Appends `records` to a frame bound to `schema`; every verdict is judged against `cols`."""
    init = [tuple(POOL[t] for t in row) for row in init_tags]
    df = make_frame(schema, init, how, cols)
    seen_cols = None
    if how == "arrow":
        # the schema is the one the library derived from the table: the records are judged against ITS columns
        schema = df.schema
        seen_cols = cols = observed_cols(schema)
        if cols is None:
            return None, {"skipped": "arrow schema outside the statement"}
    held = list(init)
    clause = None
    results = []
    lazy = how in ("gen", "arrow")

    def rows_now():
        df.materialize()
        return list(df._rows)

    before = list(init) if lazy else rows_now()
    for i, tags in enumerate(records):
        kind = (containers or {}).get(str(i), "dict") if isinstance(containers, dict) else "dict"
        c, result, stored, after = append_step(df, schema, cols, tags, kind, before, rows_now, lazy_first=(lazy and i == 0))
        clause = clause or c
        results.append(result)
        if result == ["ok"]:
            held.append(stored)
        before = after
    final = [tuple(r) for r in rows_now()]
    if clause is None and (len(final) != len(held) or not all(wire_eq(a, tuple(b)) for a, b in zip(final, held))):
        clause = "the frame does not hold exactly the accepted records, in order"
    if clause is None:
        clause = rows_conform(cols, final)
    if clause is not None and how == "arrow" and arrow_differs(cols, init):
        return None, {"skipped": "arrow construction differs"}
    got = {"results": results, "rows": abstract_rows(final)}
    if seen_cols is not None:
        got["cols"] = seen_cols
    return clause, got


def run_appends(case):
    schema, cols = schema_for(case)
    if schema is None:
        return None, {"skipped": cols}
    clause, got = run_frame(schema, cols, case["rows"], case["records"], case.get("how", "list"), case.get("containers"))
    if case.get("via") not in (None, "direct") and "cols" not in got and not got.get("skipped"):
        got["cols"] = cols
    return clause, got


def run_dictframe(case):
    """A frame built from dictionaries has no schema object: each append adds one row in column order or raises atomically."""
    from orso import DataFrame

    first = [record_of(t) for t in case["first"]]
    df = DataFrame(dictionaries=first)
    keys = list(first[0].keys())
    held = [tuple(d.get(k) for k in keys) for d in first]
    clause = None
    results = []
    if not all(wire_eq(tuple(a), b) for a, b in zip(df._rows, held)) or len(df._rows) != len(held):
        return None, {"skipped": "construction differs"}  # construction is C03's business
    for i, tags in enumerate(case["records"]):
        rec = record_of(tags, (case.get("containers") or {}).get(str(i), "dict"))
        before = list(df._rows)
        try:
            df.append(rec)
            raised = None
        except Exception as e:
            raised = e
        after = list(df._rows)
        results.append(["ok"] if raised is None else ["raised", type(raised).__name__])
        if raised is not None:
            if len(after) != len(before) or any(a is not b for a, b in zip(after, before)):
                clause = clause or "append raised but changed the frame's rows"
            if sizable(tags):
                clause = clause or "append to a dictionary-built frame raised %s" % type(raised).__name__
        else:
            row = tuple(rec.get(k) for k in keys)
            if len(after) != len(before) + 1 or any(a is not b for a, b in zip(after, before)):
                clause = clause or "append did not add exactly one row"
            elif not wire_eq(tuple(after[-1]), row):
                clause = clause or "appended row does not hold the values in column order"
    return clause, {"rows": len(df._rows), "held": abstract_rows([tuple(r) for r in df._rows]), "results": results,
                    "keys": [str(k) for k in keys], "string-keys": all(isinstance(k, str) for k in keys)}


def dictframe_line(case):
    first = case["first"]
    keys = list(first[0].keys())
    rows = [[cls_name(POOL[d[k]]) if k in d else None for k in keys] for d in first]
    return "C05 dictframe " + wire.line(keys, rows, m_appends(case["records"], case.get("containers")))


# ----------------------------------------------------------------------------- families of frames


PREDICATES = {"all": lambda r: True, "nothing": lambda r: False, "first-set": lambda r: len(r) > 0 and r[0] is not None}
LAZY_METHODS = ("filter", "take")
NOT_ITS_OWN = ("a frame holds a record that was appended to another frame (or lost one to it): frames derived from one "
               "another must each hold exactly their own original rows plus the records accepted by appends to them")
FAMILY_ROWS = "a frame of the family does not hold exactly its original rows plus the records it accepted, in order"


def mirror_derive(method, args, held, held_other=None):
    """The rows a derived frame starts with, from the rows its parent holds now (plain list semantics)."""
    n = len(held)
    if method == "head":
        return [held[: args[0]]]
    if method == "tail":
        return [held[max(n - args[0], 0):] if args[0] > 0 else []]
    if method == "slice":
        offset = args[0] if len(args) > 0 else 0
        length = args[1] if len(args) > 1 else None
        if offset < 0:
            offset = max(n + offset, 0)
        return [held[offset:] if length is None else held[offset: offset + length]]
    if method == "query":
        return [[r for r in held if PREDICATES[args[0]](r)]]
    if method == "distinct":
        out = []
        for r in held:
            if not any(r is x or wire_eq(tuple(r), tuple(x)) for x in out):
                out.append(r)
        return [out]
    if method == "filter":
        return [[r for r, m in zip(held, args[0]) if m]]
    if method == "take":
        return [[r for i, r in enumerate(held) if i in args[0]]]
    if method == "batches":
        chunks = [held[i: i + args[0]] for i in range(0, n, args[0])]
        return [chunks[args[1] % len(chunks)] if chunks else []]
    if method == "add":
        return [list(held) + list(held_other)]
    raise BadCase("derive %r" % (method,))


def real_derive(method, args, df, other=None):
    if method == "head":
        return [df.head(args[0])]
    if method == "tail":
        return [df.tail(args[0])]
    if method == "slice":
        return [df.slice(*args)]
    if method == "query":
        return [df.query(PREDICATES[args[0]])]
    if method == "distinct":
        return [df.distinct()]
    if method == "filter":
        return [df.filter(list(args[0]))]
    if method == "take":
        return [df.take(list(args[0]))]
    if method == "batches":
        # the batch number args[1] (modulo how many there are); a frame without rows has no batches: an empty slice stands in
        chunks = list(df.to_batches(args[0]))
        return [chunks[args[1] % len(chunks)] if chunks else df.slice(0, 0)]
    if method == "add":
        return [df + other]
    raise BadCase("derive %r" % (method,))


def derive_args_ok(method, args, n_frames):
    ints = lambda xs: all(isinstance(x, int) and not isinstance(x, bool) for x in xs)
    if method in ("head", "tail"):
        return len(args) == 1 and ints(args) and 0 <= args[0] <= 2000
    if method == "slice":
        return len(args) <= 2 and ints(args[:1]) and -2000 <= (args[0] if args else 0) <= 2000 and \
            (len(args) < 2 or args[1] is None or (ints(args[1:]) and 0 <= args[1] <= 2000))
    if method == "query":
        return len(args) == 1 and args[0] in PREDICATES
    if method == "distinct":
        return len(args) == 0
    if method == "filter":
        return len(args) == 1 and isinstance(args[0], list) and all(isinstance(m, bool) for m in args[0])
    if method == "take":
        return len(args) == 1 and isinstance(args[0], list) and ints(args[0]) and all(0 <= i <= 60 for i in args[0])
    if method == "batches":
        return len(args) == 2 and ints(args) and 1 <= args[0] <= 1000 and 0 <= args[1] <= 50
    if method == "add":
        return len(args) == 1 and ints(args) and 0 <= args[0] < n_frames
    return False


FRAME_TOUCHES = ("nbytes", "hash", "str", "description", "shape", "row0", "fetch", "iter-once", "column_names",
                 "select", "arrow-roundtrip", "group_by")


def touch_frame(df, what, names=()):
    """Use a frame in a way that must not change its rows; what it returns (or raises) is other properties' business.
    A lazily backed frame is materialised first: what reading one does to its generator is C04's business.
    Returns the requests for a row class the use is known to make (for the process machine; best effort)."""
    df.materialize()
    asked = []
    try:
        if what == "select":
            sub = list(names)[:1]
            list(df.select(sub))
            asked = [["feature", sub, "frame"]]
        elif what == "arrow-roundtrip":
            from orso import DataFrame

            table = df.arrow()
            back = DataFrame.from_arrow(table)
            asked = [["feature", list(names), "reader"], ["feature", list(names), "frame"]]
            list(back)
        elif what == "group_by":
            list(df.group_by(list(names)[:1]).count())
    except BadCase:
        raise
    except Exception:
        pass
    if what in ("select", "arrow-roundtrip", "group_by"):
        return asked
    try:
        if what == "nbytes":
            df.nbytes()
        elif what == "hash":
            hash(df)
        elif what == "str":
            str(df)
        elif what == "description":
            df.description
        elif what == "shape":
            df.shape, df.rowcount, df.columncount
        elif what == "row0":
            df.row(0)
        elif what == "fetch":
            df.fetchone(), df.fetchmany(1)
        elif what == "iter-once":
            next(iter(df), None)
        elif what == "column_names":
            df.column_names, df.schema
        else:
            raise BadCase("touch %r" % (what,))
    except BadCase:
        raise
    except Exception:
        pass
    return asked


def run_family(case):
    """A root frame and frames derived from it; every frame is a register of its own append history."""
    schema, cols = schema_for(case)
    if schema is None:
        return None, {"skipped": cols}
    init = [tuple(POOL[t] for t in row) for row in case["rows"]]
    how = case.get("how", "list")
    script = []       # the same program, as the model reads it
    process = []      # the same program with every request for a row class in it (the process machine)
    for f in case.get("pre") or []:
        run_feature(f)
        process += feature_script(f)
    root = make_frame(schema, init, how, cols)
    seen_cols = cols if case.get("via") not in (None, "direct") else None
    if how == "arrow":
        # the schema is the one the library derived from the table: the records are judged against ITS columns
        schema = root.schema
        seen_cols = cols = observed_cols(schema)
        if cols is None:
            return None, {"skipped": "arrow schema outside the statement"}
    process.append(["frame", how == "arrow"])
    frames = [{"df": root, "held": list(init), "lazy": how in ("gen", "arrow")}]
    clause = None
    results = []
    mismatch = 0
    derive_raised = None
    modelled = True   # False when a derived frame starts with rows that are not rows of its parent

    def positions(rows, parent_rows):
        """where the rows of a derived frame sit in its parent (by identity, in order); None if they do not"""
        out, at = [], 0
        for r in rows:
            while at < len(parent_rows) and parent_rows[at] is not r:
                at += 1
            if at == len(parent_rows):
                return None
            out.append(at)
            at += 1
        return out

    def eager_rows(f):
        return list(f["df"]._rows) if isinstance(f["df"]._rows, list) else None

    def holds(f, rows):
        return len(rows) == len(f["held"]) and all(a is b or wire_eq(tuple(a), tuple(b)) for a, b in zip(rows, f["held"]))

    def check_all(final=False):
        for k, f in enumerate(frames):
            if final:
                f["df"].materialize()
            rows = eager_rows(f)
            if rows is not None and not holds(f, rows):
                foreign = any(any(r is x for x in g["held"]) and not any(r is x for x in f["held"]) for r in rows for g in frames if g is not f)
                return NOT_ITS_OWN if foreign or len(rows) != len(f["held"]) else FAMILY_ROWS
        return None

    for op in case["ops"]:
        k = op[0]
        if k == "append":
            f = frames[op[1]]
            kind = op[3] if len(op) > 3 else "dict"

            def rows_now(f=f):
                f["df"].materialize()
                return list(f["df"]._rows)

            script.append(["append", op[1], m_rec(op[2]), sizable(op[2]), kind_flags(record_of(op[2], kind, [c_[0] for c_ in cols]))])
            process.append(script[-1])
            lazy_first = not isinstance(f["df"]._rows, list)
            before = list(f["held"]) if lazy_first else rows_now()
            c, result, stored, after = append_step(f["df"], schema, cols, op[2], kind, before, rows_now, lazy_first=lazy_first)
            results.append(result)
            if result == ["ok"]:
                f["held"] = f["held"] + [stored]
            if c is not None and clause is None:
                # a lazily backed frame that picked up foreign rows shows it here first: name the cause
                clause = NOT_ITS_OWN if c in ("append raised but changed the frame's rows", "append did not add exactly one row") \
                    and check_all() == NOT_ITS_OWN else c
        elif k == "derive":
            parent = frames[op[1]]
            method, args = op[2], op[3]
            if method in ("query", "distinct", "filter", "take"):
                parent["df"].materialize()  # these read `_rows` as it is: a generator would be consumed (that is C04's business)
            other = frames[args[0]] if method == "add" else None
            expect = mirror_derive(method, args, parent["held"], other["held"] if other else None)
            try:
                got = real_derive(method, args, parent["df"], other["df"] if other else None)
            except Exception as e:
                # taking the frame failed (distinct on rows holding arrays, …): not this property's business; the program ends here
                derive_raised = "%s:%s" % (method, type(e).__name__)
                break
            for df2, rows2 in zip(got, expect):
                f2 = {"df": df2, "held": list(rows2)}
                snap = eager_rows(f2)
                if snap is not None and not holds(f2, snap):
                    # WHICH rows a derived frame selects is not this property's business: take them as they are
                    mismatch += 1
                    f2["held"] = snap
                frames.append(f2)
            if method in ("head", "tail"):
                script.append([method, op[1], args[0]])
            elif method == "slice":
                script.append(["slice", op[1], args[0] if args else 0, args[1] if len(args) > 1 else None])
            elif method == "add":
                script.append(["concat", op[1], args[0]])
            else:
                at = positions(frames[-1]["held"], parent["held"])
                if at is None:
                    modelled = False
                script.append(["pick", op[1], {"batches": "to_batches"}.get(method, method), at or []])
            if method == "batches":
                # to_batches makes one frame per batch: as many requests for a row class as there are batches
                process += [["feature", [c_[0] for c_ in cols], "frame"]] * max(0, -(-len(parent["held"]) // args[0]) - 1)
            process.append(script[-1])
        elif k == "feature":
            run_feature(op[1])
            process += feature_script(op[1])
        elif k == "read":
            f = frames[op[1]]
            len(f["df"])
            for _ in f["df"]:
                pass
        elif k == "touch":
            process += touch_frame(frames[op[1]]["df"], op[2], [c_[0] for c_ in cols])
        else:
            raise BadCase("family op %r" % (k,))
        if clause is None:
            clause = check_all()
    if clause is None:
        clause = check_all(final=True)
    finals = []
    for f in frames:
        f["df"].materialize()
        finals.append([tuple(r) for r in f["df"]._rows])
    if clause is None:
        for rows in finals:
            clause = clause or rows_conform(cols, rows)
    if clause is not None and how == "arrow" and arrow_differs(cols, init):
        return None, {"skipped": "arrow construction differs"}
    got = {"results": results, "frames": [abstract_rows(r) for r in finals], "derived-content-differs": mismatch,
           "script": script if modelled else None, "process": process if modelled else None, "derive-raised": derive_raised}
    if seen_cols is not None:
        got["cols"] = seen_cols
    return clause, got


def check_family(case):
    cols = [norm_col(c) for c in case["cols"]]
    if case.get("how", "list") not in ("list", "none", "gen", "arrow") or (case.get("how") == "none" and case["rows"]):
        return False
    if not rows_ok(cols, case["rows"]):
        return False
    if case.get("how") == "arrow" and not arrow_ok(cols, case["rows"]):
        return False
    if "pre" in case and not (isinstance(case["pre"], list) and all(feature_ok(f) for f in case["pre"])):
        return False
    n = 1
    for op in case["ops"]:
        if op[0] == "append":
            if not (len(op) in (3, 4) and isinstance(op[1], int) and 0 <= op[1] < n and isinstance(op[2], dict) and all(t in POOL for t in op[2].values())):
                return False
            if len(op) == 4 and op[3] not in RECORD_KINDS:
                return False
        elif op[0] == "derive":
            if not (len(op) == 4 and isinstance(op[1], int) and 0 <= op[1] < n and isinstance(op[3], list) and derive_args_ok(op[2], op[3], n)):
                return False
            n += 1
        elif op[0] == "read":
            if not (len(op) == 2 and isinstance(op[1], int) and 0 <= op[1] < n):
                return False
        elif op[0] == "touch":
            if not (len(op) == 3 and isinstance(op[1], int) and 0 <= op[1] < n and op[2] in FRAME_TOUCHES):
                return False
        elif op[0] == "feature":
            if not (len(op) == 2 and feature_ok(op[1])):
                return False
        else:
            return False
    return True


# ----------------------------------------------------------------------------- sessions on one schema object


class BadCase(Exception):
    pass


def apply_to_mirror(cur, op):
    """The column list (as the harness tracks it, independently of orso) after `op`."""
    k = op[0]
    if k in ("validate", "frame", "touch"):
        return cur
    if k == "add":
        return cur + [norm_col(op[1])]
    if k == "insert":
        if not 0 <= op[1] <= len(cur):
            raise BadCase("insert index")
        return cur[: op[1]] + [norm_col(op[2])] + cur[op[1]:]
    if k == "del":
        if not 0 <= op[1] < len(cur):
            raise BadCase("del index")
        return cur[: op[1]] + cur[op[1] + 1:]
    if k == "pop":
        for i, c in enumerate(cur):
            if c[0] == op[1]:
                return cur[:i] + cur[i + 1:]
        return cur
    if k == "replace":
        return [norm_col(c) for c in op[1]]
    if k == "set":
        if not 0 <= op[1] < len(cur):
            raise BadCase("set index")
        return cur[: op[1]] + [norm_col(op[2])] + cur[op[1] + 1:]
    if k == "reverse":
        return list(reversed(cur))
    raise BadCase("op %r" % (k,))


def apply_to_schema(schema, op):
    """The same operation on the real object; returns the schema object to go on with."""
    from orso.types import OrsoTypes

    k = op[0]
    if k == "add":
        schema.columns.append(make_col(op[1]))
    elif k == "insert":
        schema.columns.insert(op[1], make_col(op[2]))
    elif k == "del":
        del schema.columns[op[1]]
    elif k == "pop":
        schema.pop_column(op[1])
    elif k == "replace":
        schema.columns = [make_col(c) for c in op[1]]
    elif k == "set":
        name, ty, nullable, aliases = norm_col(op[2])
        col = schema.columns[op[1]]
        col.name = name
        col.type = OrsoTypes._MISSING_TYPE if ty is None else OrsoTypes[ty]
        col.nullable = nullable
        col.aliases = list(aliases)
    elif k == "reverse":
        schema.columns.reverse()
    elif k == "touch":
        try:
            return touch_schema(schema, op[1])
        except BadCase:
            raise
        except Exception as e:
            # what a helper of the schema answers (or that it raises) is not this property's business: the session goes on
            # with the object as it is; counted in the evidence
            TOUCH_RAISED["%s:%s" % (op[1], type(e).__name__)] += 1
            return schema
    else:
        raise BadCase("op %r" % (k,))
    return schema


TOUCH_RAISED = collections.Counter()


def touch_schema(schema, what):
    if True:
        with warnings.catch_warnings():
            warnings.simplefilter("ignore")
            if what == "names":
                schema.column_names, schema.all_column_names(), list(schema), schema.num_columns
            elif what == "find":
                schema.find_column("c0"), schema.find_column("C0", case_insensitive=True), schema.column("zz")
            elif what == "rename-schema":
                schema.name = schema.name + "x"
                schema.aliases = list(schema.aliases) + ["a"]
            elif what == "metadata":
                schema.primary_key = "c0"
                schema.row_count_estimate = 5
                for c in schema.columns:
                    c.description = "d"
                    c.origin = ["o"]
            elif what == "relist":
                schema.columns = list(schema.columns)
            elif what == "deepcopy":
                return copy.deepcopy(schema)
            elif what == "copy":
                return copy.copy(schema)
            elif what == "add-empty":
                from orso.schema import RelationSchema

                return schema + RelationSchema(name="o", columns=[])
            elif what == "to_dict":
                schema.to_dict()
            else:
                raise BadCase("touch %r" % (what,))
    return schema


MUTATIONS = ("add", "insert", "del", "pop", "replace", "set", "reverse")
TOUCHES = ("names", "find", "rename-schema", "metadata", "relist", "deepcopy", "copy", "add-empty", "to_dict")


def run_session(case):
    cur = [norm_col(c) for c in case["cols"]]
    schema, seen = schema_for(case)
    if schema is None or [c[:3] for c in seen] != [c[:3] for c in cur]:
        return None, {"skipped": "schema route %s does not keep the columns" % case.get("via")}
    clause = None
    outs = []
    for op in case["ops"]:
        k = op[0]
        c = None
        if k == "validate":
            rec = record_of(op[1], op[2] if len(op) > 2 else "dict")
            got = impl_validate(schema, rec)
            c = judge_validate(got, expected(cur, rec))
            outs.append(["outcome", got])
        elif k == "frame":
            c, got = run_frame(schema, cur, op[1], op[2], op[3] if len(op) > 3 else "list")
            outs.append(["frame", got["rows"], got["results"]])
        else:
            schema = apply_to_schema(schema, op)
            cur = apply_to_mirror(cur, op)
            if [c_.name for c_ in schema.columns] != [c_[0] for c_ in cur]:
                raise InfraError("the harness's mirror of the column list and the schema object disagree after %r" % (op,))
        if c is not None and clause is None:
            clause = c
            run_session.failed_at = (list(cur), op)
    return clause, outs


HISTORY = ("the verdict depends on the history of the schema object, not only on its columns now: a schema that was used and then "
           "changed judges a record differently from a freshly built schema with the same columns")


def reduce_session(case, clause, fresh=False):
    """A session that fails: the same record / appends on a freshly built schema with the columns of that moment.
    Returns the plain case when it fails too (the history is not needed), else None.  `fresh`: the plain case is tried in
    a process of its own (what this process has been through must not decide)."""
    cur, op = run_session.failed_at
    if op[0] == "validate":
        plain = {"kind": "validate", "cols": cur, "record": op[1]}
        if len(op) > 2:
            plain["container"] = op[2]
    else:
        plain = {"kind": "appends", "cols": cur, "rows": op[1], "records": op[2]}
        if len(op) > 3:
            plain["how"] = op[3]
    if case.get("via") not in (None, "direct") and not (case["via"] == "arrow-schema" and not all(c[1] in ARROW_ROWS for c in cur)):
        plain["via"] = case["via"]   # a freshly built schema with the columns of that moment, made the same way
    if case.get("defaults"):
        plain["defaults"] = case["defaults"]   # ... whose columns declare the same defaults
    try:
        if valid_case(plain):
            out = fresh_run(plain) if fresh else UNAVAILABLE
            pc = (RUNNERS[plain["kind"]](plain) if out is UNAVAILABLE else out)[0]
            if pc is not None:
                return plain, pc
    except InfraError:
        raise
    except Exception:
        pass
    return None


def check_session(case):
    cur = [norm_col(c) for c in case["cols"]]
    if not names_ok(cur):
        return False
    for op in case["ops"]:
        if op[0] == "validate":
            if not all(t in POOL for t in op[1].values()) or (len(op) > 2 and op[2] not in CONTAINERS):
                return False
        elif op[0] == "frame":
            if not rows_ok(cur, op[1]) or not all(all(t in POOL for t in r.values()) for r in op[2]):
                return False
            if len(op) > 3 and (op[3] not in ("list", "none", "gen") or (op[3] == "none" and op[1])):
                return False
        elif op[0] == "touch":
            if op[1] not in TOUCHES:
                return False
        else:
            raw = [op[1]] if op[0] == "add" else [op[2]] if op[0] in ("insert", "set") else op[1] if op[0] == "replace" else []
            if not raw_cols_ok(raw):
                return False
            cur = apply_to_mirror(cur, op)
            if not names_ok(cur):
                return False
    return True


def raw_cols_ok(cols):
    """the case's own column entries: [name, type, nullable] or [name, type, nullable, aliases] (the shrinker must not reshape them)"""
    return all(isinstance(c, list) and len(c) in (3, 4) and isinstance(c[0], str) and isinstance(c[2], bool)
               and (len(c) == 3 or isinstance(c[3], list)) for c in cols)


def names_ok(cols, dup=False):
    """`dup`: two columns may bear one name (what `RelationSchema.__add__` makes of two relations that share a column name):
    the statement speaks per column — every column present, one value per column in column order"""
    names = [c[0] for c in cols]
    if not dup and len(set(names)) != len(names):
        return False
    for c in cols:
        if not isinstance(c[0], str) or not (c[1] is None or c[1] in EXPECTED_CLASS) or not isinstance(c[2], bool):
            return False
        if not all(isinstance(a, str) for a in c[3]):
            return False
    return True


def rows_ok(cols, rows):
    for r in rows:  # initial rows must conform
        if len(r) != len(cols):
            return False
        for c, t in zip(cols, r):
            if t not in POOL or t in UNSIZABLE:
                return False
            v = POOL[t]
            if (v is None and not c[2]) or (v is not None and c[1] is not None and not isinstance(v, EXPECTED_CLASS[c[1]])):
                return False
    return True


# ----------------------------------------------------------------------------- frames bound to a schema that is edited
#
# The schema a frame is bound to is an ordinary shared object.  Its owner renames, reorders, adds, removes or replaces
# columns BETWEEN two appends to the same frame.  Every append is judged against the columns as they are at that moment:
# the record validates against them or not, and what is stored is its values in THEIR order.  A case:
#   {"kind": "bound", "cols": [...], "ops": [...]}      ops:
#   ["bind", rows, how]          a frame on the schema as it is now (from a list / None / a generator)
#   ["append", i, tags, kind]    a record object to frame i
#   ["read", i, what]            something read off frame i that the statement does not depend on (cached helpers)
#   a change of the column list (as in a session) or ["touch", what] on the schema object

BOUND_READS = ("column_names", "columncount", "description", "shape", "rowcount", "nbytes", "len", "schema-names")
BOUND_TOUCHES = ("names", "find", "rename-schema", "metadata", "relist", "to_dict")
STALE_LAYOUT = ("a frame bound to a schema that was edited since an earlier append (or since the frame's names were read) "
                "does not store the record's values in the order of the columns as they are now")


def read_frame(df, what):
    try:
        if what == "column_names":
            df.column_names
        elif what == "columncount":
            df.columncount
        elif what == "description":
            df.description
        elif what == "shape":
            df.shape
        elif what == "rowcount":
            df.rowcount
        elif what == "nbytes":
            df.nbytes()
        elif what == "len":
            len(df)
        elif what == "schema-names":
            df.schema.column_names, list(df.schema)
        else:
            raise BadCase("read %r" % (what,))
    except BadCase:
        raise
    except Exception:
        pass   # what a read answers is other properties' business


def run_bound(case):
    cur = [norm_col(c) for c in case["cols"]]
    schema = make_schema(cur)
    frames = []   # [df, held rows, lazy and not yet appended to]
    clause = None
    results, edited_since = [], []
    for op in case["ops"]:
        k = op[0]
        if k == "bind":
            init = [tuple(POOL[t] for t in row) for row in op[1]]
            how = op[2] if len(op) > 2 else "list"
            frames.append([make_frame(schema, init, how), list(init), how == "gen"])
            edited_since.append(False)
        elif k == "read":
            read_frame(frames[op[1]][0], op[2])
        elif k == "append":
            df, held, lazy = frames[op[1]]

            def rows_now(df=df):
                df.materialize()
                return list(df._rows)

            before = list(held) if lazy else rows_now()
            if not lazy and (len(before) != len(held) or not all(wire_eq(tuple(a), tuple(b)) for a, b in zip(before, held))):
                clause = clause or "the frame does not hold exactly the accepted records, in order"
            c, result, stored, after = append_step(df, schema, cur, op[2], op[3] if len(op) > 3 else "dict", before, rows_now, lazy_first=lazy)
            if c == "appended row does not hold the values in column order" and edited_since[op[1]]:
                c = STALE_LAYOUT
            clause = clause or c
            results.append(result)
            if result == ["ok"]:
                held.append(stored)
            frames[op[1]][2] = False
        else:
            schema = apply_to_schema(schema, op)
            cur = apply_to_mirror(cur, op)
            if [c_.name for c_ in schema.columns] != [c_[0] for c_ in cur]:
                raise InfraError("the harness's mirror of the column list and the schema object disagree after %r" % (op,))
            if k != "touch":
                edited_since = [True] * len(edited_since)
    shown = []
    for df, held, lazy in frames:
        df.materialize()
        final = [tuple(r) for r in df._rows]
        if clause is None and (len(final) != len(held) or not all(wire_eq(a, tuple(b)) for a, b in zip(final, held))):
            clause = "the frame does not hold exactly the accepted records, in order"
        shown.append(abstract_rows(final))
    return clause, {"frames": shown, "results": results, "names": [c[0] for c in cur]}


def check_bound(case):
    cur = [norm_col(c) for c in case["cols"]]
    if not names_ok(cur, dup=True) or case.get("via") not in (None, "direct"):
        return False
    n = 0
    for op in case["ops"]:
        k = op[0]
        if k == "bind":
            if not rows_ok(cur, op[1]) or (len(op) > 2 and (op[2] not in ("list", "none", "gen") or (op[2] == "none" and op[1]))) or len(op) > 3:
                return False
            n += 1
        elif k == "read":
            if len(op) != 3 or not isinstance(op[1], int) or not 0 <= op[1] < n or op[2] not in BOUND_READS:
                return False
        elif k == "append":
            if len(op) not in (3, 4) or not isinstance(op[1], int) or not 0 <= op[1] < n or not isinstance(op[2], dict) \
                    or not all(t in POOL for t in op[2].values()) or (len(op) > 3 and op[3] not in RECORD_KINDS):
                return False
        elif k == "touch":
            if len(op) != 2 or op[1] not in BOUND_TOUCHES:
                return False
        elif k in MUTATIONS:
            raw = [op[1]] if k == "add" else [op[2]] if k in ("insert", "set") else op[1] if k == "replace" else []
            if not raw_cols_ok(raw):
                return False
            cur = apply_to_mirror(cur, op)
            if not names_ok(cur, dup=True):
                return False
        else:
            return False
    return n > 0


def bound_line(case):
    cols = [norm_col(c) for c in case["cols"]]
    cur, ops = cols, []
    for op in case["ops"]:
        k = op[0]
        if k == "bind":
            ops.append(["bind", m_rows(op[1])])
        elif k == "read":
            if op[2] in ("column_names", "description"):
                ops.append(["read", op[1]])
        elif k == "append":
            kind = op[3] if len(op) > 3 else "dict"
            ops.append(["append", op[1], m_rec(op[2]), sizable(op[2]), kind_flags(record_of(op[2], kind, [c[0] for c in cur]))])
        elif k == "touch":
            continue
        else:
            if k == "reverse":
                ops.append(["edit", ["replace", list(reversed(cur))]])
            elif k == "add":
                ops.append(["edit", ["add", norm_col(op[1])]])
            elif k in ("insert", "set"):
                ops.append(["edit", [k, op[1], norm_col(op[2])]])
            elif k == "replace":
                ops.append(["edit", ["replace", [norm_col(c) for c in op[1]]]])
            else:
                ops.append(["edit", list(op)])
            cur = apply_to_mirror(cur, op)
    return "C05 bound " + wire.line(cols, ops)


# ----------------------------------------------------------------------------- model lines


def m_rec(tags):
    return {k: cls_name(POOL[t]) for k, t in tags.items()}


def m_rows(rows):
    return [[cls_name(POOL[t]) for t in row] for row in rows]


def m_appends(records, containers=None, names=()):
    out = []
    for i, r in enumerate(records):
        kind = (containers or {}).get(str(i), "dict")
        out.append([m_rec(r), sizable(r)] if kind == "dict" else [m_rec(r), sizable(r), kind_flags(record_of(r, kind, names))])
    return out


def model_line(case, seen_cols=None):
    cols = seen_cols or [norm_col(c) for c in case["cols"]]
    if seen_cols is None and case.get("via") not in (None, "direct") and case["kind"] == "validate":
        cols = schema_for(case)[1]
    if case["kind"] == "validate":
        kind = case.get("container", "dict")
        return "C05 validatek " + wire.line(cols, m_rec(case["record"]), kind_flags(record_of(case["record"], kind, [c[0] for c in cols])))
    if case["kind"] == "session":
        ops = []
        cur = cols
        for op in case["ops"]:
            k = op[0]
            if k == "validate":
                ops.append(["validate", m_rec(op[1])])
            elif k == "frame":
                ops.append(["frame", m_rows(op[1]), m_appends(op[2])])
            elif k == "touch":
                continue
            elif k == "reverse":
                ops.append(["replace", list(reversed(cur))])
            elif k in ("add",):
                ops.append(["add", norm_col(op[1])])
            elif k in ("insert", "set"):
                ops.append([k, op[1], norm_col(op[2])])
            elif k == "replace":
                ops.append(["replace", [norm_col(c) for c in op[1]]])
            else:
                ops.append(list(op))
            cur = apply_to_mirror(cur, op)
        return "C05 session " + wire.line(cols, ops)
    return "C05 appends " + wire.line(cols, m_rows(case["rows"]), m_appends(case["records"], case.get("containers"), [c[0] for c in cols]))


def family_line(case, script, seen_cols=None):
    return "C05 family " + wire.line(seen_cols or [norm_col(c) for c in case["cols"]], m_rows(case["rows"]), script)


def process_line(case, process, seen_cols=None):
    return "C05 process " + wire.line(seen_cols or [norm_col(c) for c in case["cols"]], m_rows(case["rows"]), process)


def valid_case(c):
    try:
        kind = c["kind"]
        if kind == "multi":
            return bool(c["cases"]) and all(x.get("kind") != "multi" and valid_case(x) for x in c["cases"])
        if kind == "dictframe":
            return all(v in CONTAINERS for v in (c.get("containers") or {}).values()) and bool(c["first"]) and all(all(t in POOL and t not in UNSIZABLE for t in r.values()) for r in c["first"]) \
                and all(all(t in POOL for t in r.values()) for r in c["records"]) and bool(c["first"][0])
        if not raw_cols_ok(c["cols"]):
            return False
        cols = [norm_col(x) for x in c["cols"]]
        if "defaults" in c and not (isinstance(c["defaults"], dict) and all(isinstance(k_, str) and t_ in POOL and t_ != "none" and t_ not in UNSIZABLE
                                                                          for k_, t_ in c["defaults"].items())):
            return False
        if not names_ok(cols, dup=kind in ("validate", "appends", "bound") and c.get("how") != "arrow" and c.get("via") != "arrow-schema"):
            return False
        if c.get("via", "direct") not in ROUTES or (c.get("via") == "arrow-schema" and not all(x[1] in ARROW_ROWS for x in cols)):
            return False
        if kind == "validate":
            return all(t in POOL for t in c["record"].values()) and c.get("container", "dict") in RECORD_KINDS
        if kind == "session":
            return check_session(c)
        if kind == "family":
            return check_family(c)
        if kind == "bound":
            return check_bound(c)
        if kind == "reuse":
            return check_reuse(c)
        if kind != "appends":
            return False
        if c.get("how", "list") not in ("list", "none", "gen", "arrow") or (c.get("how") == "none" and c["rows"]):
            return False
        if c.get("how") == "arrow" and not arrow_ok(cols, c["rows"]):
            return False
        if not all(v in RECORD_KINDS for v in (c.get("containers") or {}).values()):
            return False
        return rows_ok(cols, c["rows"]) and all(all(t in POOL for t in r.values()) for r in c["records"])
    except Exception:
        return False


def drop_record_keys(case, still, budget=60):
    """The shared shrinker never removes a key of a dict: try every record (a dict of value tags) of the case with one key
    less, as long as the case still fails the same way."""
    def records(x, path=()):
        if isinstance(x, dict):
            if path and x and all(isinstance(v, str) and v in POOL for v in x.values()):
                yield path
            else:
                for k, v in x.items():
                    yield from records(v, path + (k,))
        elif isinstance(x, list):
            for i, v in enumerate(x):
                yield from records(v, path + (i,))

    def without(x, path, key):
        if not path:
            return {k: v for k, v in x.items() if k != key}
        y = dict(x) if isinstance(x, dict) else list(x)
        y[path[0]] = without(x[path[0]], path[1:], key)
        return y

    def at(x, path):
        for p_ in path:
            x = x[p_]
        return x

    cur, progress = case, True
    while progress and budget > 0:
        progress = False
        for path in list(records(cur)):
            for key in list(at(cur, path)):
                if budget <= 0:
                    break
                budget -= 1
                cand = without(cur, path, key)
                try:
                    if still(cand):
                        cur, progress = cand, True
                except Exception:
                    pass
    return cur


def tidy(c):
    """Drop what a shrunk case no longer uses: record objects named for appends that are gone, defaults spelled out."""
    c = copy.deepcopy(c)
    if c.get("kind") in ("appends", "dictframe") and isinstance(c.get("containers"), dict):
        c["containers"] = {k: v for k, v in c["containers"].items() if k.isdigit() and int(k) < len(c["records"]) and v != "dict"}
        if not c["containers"]:
            del c["containers"]
    if c.get("container") == "dict":
        del c["container"]
    if c.get("how") == "list":
        del c["how"]
    if c.get("via") == "direct":
        del c["via"]
    if c.get("kind") == "family":
        c["ops"] = [op[:3] if op[0] == "append" and len(op) > 3 and op[3] == "dict" else op for op in c["ops"]]
    return c


def norm_excess(o):
    return canon(o)


def norm_result(r):
    """model AppendResult -> what the harness records for the implementation"""
    if r[0] == "rejected":
        return ["rejected", norm_excess(r[1])]
    return r


def results_agree(model_results, impl_results):
    if len(model_results) != len(impl_results):
        return False
    for m, i in zip(model_results, impl_results):
        m = norm_result(m)
        if m[0] == "unsizable" or m == ["rejected", ["other"]]:
            if i[0] != "raised":
                return False
        elif m != (["rejected", canon(i[1])] if i[0] == "rejected" else i):
            return False
    return True


def run_multi(case):
    """Several cases in one process, in order; the verdict is the last one's (state shared between schema objects)."""
    clause, got = None, None
    for sub in case["cases"]:
        clause, got = RUNNERS[sub["kind"]](sub)
    return clause, got


# ----------------------------------------------------------------------------- one record object, edited in place and used again
#
# The caller keeps ONE record object, fills it, validates or appends it, edits it in place (adds a key that is no column,
# removes a key, changes a value to None or to another class) and uses it again.  Every use is judged from scratch against
# what the object says at that moment; a stored row is what the object said when it was appended (later edits of the object
# do not reach into the frame).  A case:
#   {"kind": "reuse", "cols": [...], "rows": [...], "how": "list", "objs": [[container, tags], ...], "ops": [...]}   ops:
#   ["validate", k] / ["append", k]        record object k through schema.validate / through append on the one frame
#   ["put", k, key, value tag]             obj[key] = value (a new key goes last)
#   ["drop", k, key]                       del obj[key]
#   ["fresh", k]                           the caller starts over with a NEW object that says the same (the control)

REUSE_KINDS = ("dict", "OrderedDict", "defaultdict", "UserDict", "MyDict", "MyMutableMapping", "ChainMap")
EDITED_OBJECT = ("the verdict on a record depends on what the same record object said when it was used before (the caller edited it in "
                 "place in between): a new object that says the same is judged differently")


def run_reuse(case):
    schema, cols = schema_for(case)
    if schema is None:
        return None, {"skipped": cols}
    how = case.get("how", "list")
    init = [tuple(POOL[t] for t in row) for row in case["rows"]]
    df = make_frame(schema, init, how, cols)
    objs = [record_of(tags, kind) for kind, tags in case["objs"]]
    says = [dict(tags) for kind, tags in case["objs"]]
    used = [False] * len(objs)
    held, clause, results, outcomes, snaps = list(init), None, [], [], []
    lazy = how == "gen"

    def rows_now():
        df.materialize()
        return list(df._rows)

    before = list(init) if lazy else rows_now()
    first = True
    for op in case["ops"]:
        k, i = op[0], op[1]
        c = None
        if k == "put":
            objs[i][real_key(op[2])] = POOL[op[3]]
            says[i][op[2]] = op[3]
        elif k == "drop":
            if op[2] in says[i]:
                del objs[i][real_key(op[2])]
                del says[i][op[2]]
        elif k == "fresh":
            objs[i] = record_of(says[i], case["objs"][i][0])
            used[i] = False
        elif k == "validate":
            view = plain_record(says[i])
            got = impl_validate(schema, objs[i])
            c = judge_validate(got, expected(cols, view))
            outcomes.append(got)
            if c is not None and used[i] and judge_validate(impl_validate(schema, record_of(says[i], case["objs"][i][0])), expected(cols, view)) is None:
                c = EDITED_OBJECT
            used[i] = True
        elif k == "append":
            c, result, stored, after = append_step(df, schema, cols, dict(says[i]), case["objs"][i][0], before, rows_now,
                                                   lazy_first=(lazy and first), rec=objs[i])
            first = False
            snaps.append([dict(says[i]), case["objs"][i][0]])
            results.append(result)
            if result == ["ok"]:
                held.append(stored)
            before = after
            used[i] = True
        else:
            raise BadCase("op %r" % (k,))
        clause = clause or c
    final = [tuple(r) for r in rows_now()]
    if clause is None and (len(final) != len(held) or not all(wire_eq(a, tuple(b)) for a, b in zip(final, held))):
        clause = "the frame does not hold exactly the accepted records, in order"
    if clause is None:
        clause = rows_conform(cols, final)
    got = {"results": results, "rows": abstract_rows(final), "outcomes": outcomes, "appended": snaps}
    if case.get("via") not in (None, "direct"):
        got["cols"] = cols
    return clause, got


def check_reuse(c):
    cols = [norm_col(x) for x in c["cols"]]
    if c.get("how", "list") not in ("list", "none", "gen") or (c.get("how") == "none" and c["rows"]) or not rows_ok(cols, c["rows"]):
        return False
    if not c["objs"] or not all(isinstance(o, list) and len(o) == 2 and o[0] in REUSE_KINDS and isinstance(o[1], dict)
                                and all(t in POOL for t in o[1].values()) for o in c["objs"]):
        return False
    for op in c["ops"]:
        if not isinstance(op, list) or len(op) < 2 or not isinstance(op[1], int) or not 0 <= op[1] < len(c["objs"]):
            return False
        if op[0] in ("validate", "append", "fresh"):
            if len(op) != 2:
                return False
        elif op[0] == "put":
            if len(op) != 4 or not isinstance(op[2], str) or op[3] not in POOL or (op[2].startswith("\x01") and op[2][1:] not in KEYPOOL):
                return False
        elif op[0] == "drop":
            if len(op) != 3 or not isinstance(op[2], str):
                return False
        else:
            return False
    return any(op[0] in ("validate", "append") for op in c["ops"])


def reuse_line(case, got):
    """what the model is asked: the appends of the session, each with what the object said at that moment"""
    cols = got.get("cols") or [norm_col(c) for c in case["cols"]]
    records = [r for r, _ in got["appended"]]
    containers = {str(i): k for i, (_, k) in enumerate(got["appended"])}
    return "C05 appends " + wire.line(cols, m_rows(case["rows"]), m_appends(records, containers, [c[0] for c in cols]))


NOT_JUDGED = "the case could not be carried through: the library raised %s outside the calls of validate / append that are judged (%s)"


def _total(fn):
    """A runner that never crashes on a changed tree: the defaults the case's columns declare are in force while it runs; an
    exception of the library in the glue around the judged calls (making the schema or the frame, reading the rows back) is
    a verdict — on the unchanged tree there is none —, not an infrastructure error."""
    import functools
    import traceback

    @functools.wraps(fn)
    def run(case):
        global DEFAULTS
        saved = DEFAULTS
        if case.get("kind") != "multi":
            DEFAULTS = dict(case.get("defaults") or {})
        try:
            return fn(case)
        except (InfraError, BadCase):
            raise
        except Exception as e:
            frames = traceback.extract_tb(e.__traceback__)
            mine = [f.name for f in frames if f.filename.endswith("c05.py")]
            theirs = [f.name for f in frames if "/orso/" in f.filename]
            where = "in %s" % mine[-1] if mine else "?"
            if theirs:
                where += ", from %s" % theirs[-1]
            return NOT_JUDGED % (type(e).__name__, where), {"skipped": "not judged: %s %s" % (type(e).__name__, where)}
        finally:
            DEFAULTS = saved
    return run


RUNNERS = {"validate": run_validate, "appends": run_appends, "session": run_session, "dictframe": run_dictframe, "multi": run_multi,
           "family": run_family, "bound": run_bound, "reuse": run_reuse}
RUNNERS = {k_: _total(f_) for k_, f_ in RUNNERS.items()}

SHARED = ("the verdict depends on other schema objects used earlier in the same process (state shared between objects): "
          "alone, the last case of this sequence is judged correctly")


SHARED_CLAUSES = {}   # clause -> how many later cases with it were checked alone


class History:
    """The cases evaluated so far in this process: the first and the most recent ones (a replay must be self-contained)."""

    def __init__(self, head=150, tail=150):
        import collections as _c

        self.head, self.n_head, self.tail = [], head, _c.deque(maxlen=tail)

    def add(self, c):
        if c.get("kind") == "multi":
            return
        if len(self.head) < self.n_head:
            self.head.append(c)
        else:
            self.tail.append(c)

    def cases(self):
        return self.head + list(self.tail)


HISTORY_BUF = History()


def run_isolated(cases):
    """Clauses of `cases`, run in order in a fresh interpreter; None when that could not be done."""
    import json
    import os
    import subprocess
    import sys

    from ..core import VERIF, _jsonable

    try:
        p = subprocess.run([sys.executable, "-m", "harness.props.c05"], input=json.dumps(_jsonable(cases)), capture_output=True,
                           text=True, timeout=300, cwd=VERIF, env=dict(os.environ, PYTHONPATH=VERIF))
        if p.returncode != 0:
            return None
        return json.loads(p.stdout.strip().split("\n")[-1])
    except Exception:
        return None


class Pristine:
    """A process that has imported the library (and pyarrow) but used nothing of it, and that forks a child for every case
    it is sent: each case runs in a process whose module-level state is as it is right after import — whatever the cases
    before it did.  This is what makes "state shared between features" visible however the state is keyed."""

    def __init__(self):
        self.proc = None
        self.broken = False
        self.runs = 0
        self.last_failed_at = None

    def start(self):
        import os
        import subprocess
        import sys

        from ..core import VERIF

        if os.environ.get("VERIF_C05_NO_FORK"):
            self.broken = True      # (for testing the fallback: every case in this process)
            return
        self.proc = subprocess.Popen([sys.executable, "-m", "harness.props.c05", "--forkserver"], stdin=subprocess.PIPE,
                                     stdout=subprocess.PIPE, cwd=VERIF,
                                     env=dict(os.environ, PYTHONPATH=VERIF, OMP_NUM_THREADS="1", OPENBLAS_NUM_THREADS="1", MKL_NUM_THREADS="1"))
        line = self._readline(60)
        if line is None or line.strip() != b"ready":
            self.stop()
            self.broken = True

    def _readline(self, timeout):
        import select

        r, _, _ = select.select([self.proc.stdout], [], [], timeout)
        if not r:
            return None
        return self.proc.stdout.readline()

    def stop(self):
        if self.proc is not None:
            try:
                self.proc.kill()
                self.proc.wait(5)
            except Exception:
                pass
            self.proc = None

    def run(self, case):
        """(clause, observed) of `case` run in a fresh child, or None when that could not be done."""
        import json

        from ..core import _jsonable, unjson

        if self.broken:
            return None
        if self.proc is None or self.proc.poll() is not None:
            self.start()
            if self.broken:
                return None
        try:
            plain = {k: v for k, v in case.items() if k != "pristine"}
            self.proc.stdin.write((json.dumps(_jsonable(plain)) + "\n").encode())
            self.proc.stdin.flush()
            line = self._readline(120)
            if not line:
                raise OSError("no answer")
            out = unjson(json.loads(line.decode()))
        except Exception:
            self.stop()
            self.broken = True
            return None
        if out is None:
            return None          # the child died: the case is run in this process instead
        if "error" in out:
            raise InfraError("case %r failed in its own process: %s" % (case, out["error"]))
        self.runs += 1
        self.last_failed_at = out.get("failed_at")
        return out["clause"], out["got"]


PRISTINE = Pristine()


def forkserver():
    """stdin: one case (JSON) per line; stdout: {"clause", "got"} per line, each case run in a forked child of this
    process, which has imported everything and used nothing."""
    import json
    import os
    import sys
    import traceback

    from harness import runner
    from harness.core import _jsonable, unjson

    runner.setup_impl_path()
    import warnings

    import pyarrow  # noqa: F401  (imported, not used: the children must not pay for it)

    try:
        import pandas  # noqa: F401  (pyarrow's conversions import it lazily: 0.4 s per child otherwise)
    except ImportError:
        pass
    import orso  # noqa: F401
    import orso.converters  # noqa: F401
    import orso.dataframe  # noqa: F401
    import orso.display  # noqa: F401
    import orso.group_by  # noqa: F401

    # the other threads of this process (numerical libraries' pools) are idle: it runs nothing but this loop
    warnings.filterwarnings("ignore", category=DeprecationWarning, message=".*fork.*")

    out = sys.stdout.buffer
    out.write(b"ready\n")
    out.flush()
    for line in sys.stdin.buffer:
        if not line.strip():
            continue
        r, w = os.pipe()
        pid = os.fork()
        if pid == 0:
            os.close(r)
            try:
                case_ = unjson(json.loads(line.decode()))
                clause, got = RUNNERS[case_["kind"]](case_)
                data = json.dumps(_jsonable({"clause": clause, "got": got, "failed_at": getattr(run_session, "failed_at", None)}))
            except BaseException:
                data = json.dumps({"error": traceback.format_exc()[-1500:]})
            try:
                with os.fdopen(w, "wb") as f:
                    f.write(data.encode())
            finally:
                os._exit(0)
        os.close(w)
        with os.fdopen(r, "rb") as f:
            data = f.read()
        os.waitpid(pid, 0)
        out.write((data or b"null") + b"\n")
        out.flush()


UNAVAILABLE = object()


def fresh_run(c):
    """(clause, observed) of the case alone in a process that has used nothing of the library before; UNAVAILABLE when
    no such process can be had."""
    out = PRISTINE.run({k: v for k, v in c.items() if k != "pristine"})
    if out is None:
        return UNAVAILABLE
    if PRISTINE.last_failed_at is not None:
        run_session.failed_at = tuple(PRISTINE.last_failed_at)
    return out


def run_fresh(cases):
    """Clauses of `cases` run in order in a process that has used nothing of the library before (only the last clause is
    filled in when the fork server does it: 25 ms instead of a second); None when that could not be done."""
    flat = []
    for x in cases:
        flat += [dict(y) for y in x["cases"]] if x.get("kind") == "multi" else [dict(x)]
    for x in flat:
        x.pop("pristine", None)
    try:
        out = PRISTINE.run({"kind": "multi", "cases": flat})
    except InfraError:
        out = None
    if out is not None:
        return [None] * (len(cases) - 1) + [out[0]]
    return run_isolated(cases)


ISOLATION_BUDGET = {"s": 60.0}


def isolate(c_min, c, clause, shown, history):
    """Make sure the replay reproduces in a fresh process; if the failure needs earlier cases, put the fewest needed in front."""
    import time

    t0 = time.time()
    try:
        return _isolate(c_min, c, clause, shown, history, t0)
    finally:
        ISOLATION_BUDGET["s"] -= time.time() - t0


def _isolate(c_min, c, clause, shown, history, t0):
    import time

    def left():
        return ISOLATION_BUDGET["s"] - (time.time() - t0)

    got = run_fresh([c_min])
    if got is None or got[-1] == clause:
        return c_min, shown
    if c is not c_min:
        got = run_fresh([c])
        if got is not None and got[-1] == clause:
            return c, shown
    if left() <= 0:
        return c_min, shown + " (seen in this run only: it did not reproduce in a fresh process alone; no time was left to look for the earlier cases it needs)"
    pre = [x for x in history.cases()]
    got = run_fresh(pre + [c_min])
    if got is None or got[-1] != clause:
        # the shrunk case may owe its failure to what the shrinking itself left behind in this process: go back to the
        # case as it was met, after the cases that came before it
        got = run_fresh(pre + [c]) if c is not c_min else None
        if got is None or got[-1] != clause:
            return c_min, shown + " (seen in this run only: it did not reproduce in a fresh process, alone or after the recorded earlier cases)"
        c_min = c
    budget, chunk = 60, max(1, len(pre) // 2)
    while budget > 0 and pre and left() > 0:
        i, progress = 0, False
        while i < len(pre) and budget > 0 and left() > 0:
            trial = pre[:i] + pre[i + chunk:]
            budget -= 1
            got = run_fresh(trial + [c_min])
            if got is not None and got[-1] == clause:
                pre, progress = trial, True
            else:
                i += chunk
        if chunk == 1 and not progress:
            break
        chunk = max(1, chunk // 2)
    # the earlier cases that are needed, made smaller (each trial is a fresh interpreter: a small budget)
    for i in range(len(pre)):
        if left() <= 0 or len(pre) > 3:
            break

        def still_needed(x, i=i):
            if left() <= 0 or not valid_case(x):
                return False
            got_ = run_fresh(pre[:i] + [x] + pre[i + 1:] + [c_min])
            return got_ is not None and got_[-1] == clause

        pre[i] = shrink(pre[i], still_needed, budget=250)
    if left() > 0 and c_min.get("kind") != "multi":
        # and the case itself, after what it needs (tried in fresh processes: this one's state must not decide)
        def still_last(x):
            if left() <= 0 or not valid_case(x):
                return False
            got_ = run_fresh(pre + [x])
            return got_ is not None and got_[-1] == clause

        c_min = tidy(shrink(c_min, still_last, budget=250))
    return {"kind": "multi", "cases": pre + [c_min]}, SHARED


def run_case(c):
    """(clause, what was observed) of one case: in this process, or — a case marked `pristine` — in a process of its own
    in which nothing of the library has been used yet."""
    if c.get("pristine"):
        out = PRISTINE.run(c)
        if out is not None:
            return out
    return RUNNERS[c["kind"]](c)


def evaluate(ctx, cases):
    # every case is run first: what the model is asked depends on what was observed (where the rows of a query / distinct /
    # batch sit in the parent; the columns of a schema the library derived from an arrow table)
    ran = {id(c): run_case(c) for c in cases}
    lines, owner = [], []
    for c in cases:
        got = ran[id(c)][1]
        kind = c["kind"]
        if kind == "multi" or (isinstance(got, dict) and got.get("skipped")):
            continue
        if kind == "dictframe":
            if got.get("string-keys"):
                lines.append(dictframe_line(c))
                owner.append((id(c), "m"))
            continue
        if kind == "bound":
            lines.append(bound_line(c))
            owner.append((id(c), "m"))
            continue
        if kind == "reuse":
            lines.append(reuse_line(c, got))
            owner.append((id(c), "m"))
            continue
        if kind == "family":
            if got["script"] is None:
                continue
            lines.append(family_line(c, got["script"], got.get("cols")))
            owner.append((id(c), "m"))
            if has_features(c):
                lines.append(process_line(c, got["process"], got.get("cols")))
                owner.append((id(c), "p"))
        else:
            lines.append(model_line(c, got.get("cols") if isinstance(got, dict) else None))
            owner.append((id(c), "m"))
    mouts = {}
    for key, mo in zip(owner, ctx.model.batch(lines)):
        if not mo.startswith("ok "):
            raise InfraError("model rejected %r: %r" % ([c for c in cases if id(c) == key[0]][:1], mo))
        mouts[key] = wire.dec_all(mo[3:])
    for c in cases:
        kind = c["kind"]
        m = mouts.get((id(c), "m"))
        fn = run_case if c.get("pristine") else RUNNERS[kind]
        clause, got = ran[id(c)]
        ctx.case(c, nontrivial=kind in ("dictframe", "multi", "session", "family", "bound", "reuse") or len(c["cols"]) >= 1)
        record_distribution(ctx, c, got)
        if isinstance(got, dict) and got.get("skipped") and clause is None:
            HISTORY_BUF.add(c)
            continue
        if clause is not None:
            shown = clause
            if not ctx.replaying and clause in SHARED_CLAUSES:
                # the same failure was already reported as one that needs earlier cases of this process: a replay of this
                # case alone would be quiet.  Unless it fails in a process of its own too, it is that violation again.
                alone = run_fresh([c]) if SHARED_CLAUSES[clause] < 3 else None
                SHARED_CLAUSES[clause] += 1
                if alone is None or alone[-1] != clause:
                    ctx.hit("violation-dup:state-shared-between-objects")
                    HISTORY_BUF.add(c)
                    continue
            # does the case fail in a process of its own?  Then candidates are tried there too: what this process has been
            # through (and what the shrinking itself leaves behind) must not decide.  None = no such process to be had.
            fresh = None
            if c.get("pristine"):
                fresh = True
            elif not ctx.replaying:
                fr = fresh_run(c)
                if fr is not UNAVAILABLE:
                    fresh = fr[0] == clause
            run = fn if (c.get("pristine") or not fresh) else fresh_run
            if kind == "session" and fresh is not False:
                red = reduce_session(c, clause, fresh=bool(fresh))
                if red is not None:
                    c, clause = red
                    shown, m = clause, None
                    run = fresh_run if fresh else RUNNERS[c["kind"]]
                else:
                    shown = HISTORY

            def still(c2, run=run, clause=clause, kind=c["kind"], fresh=fresh):
                if not valid_case(c2):
                    return False
                try:
                    out = run(c2)
                    if out is UNAVAILABLE or out[0] != clause:
                        return False
                    return kind != "session" or reduce_session(c2, clause, fresh=bool(fresh)) is None
                except Exception:
                    return False

            c_min = c
            if not ctx.replaying and not any(v.get("sig") == shown for v in ctx.violations):
                if fresh is not False:
                    c_min = shrink(c, still, budget=400 if not fresh else 200)
                    smaller = drop_record_keys(c_min, still)
                    for opt in ("via", "how", "container", "containers", "pre", "defaults"):
                        # the options of a case, back to their defaults
                        if opt in smaller:
                            cand = {k_: v_ for k_, v_ in smaller.items() if k_ != opt}
                            if still(cand):
                                smaller = cand
                    if smaller is not c_min:
                        c_min = shrink(smaller, still, budget=100)
                    t_ = tidy(c_min)
                    if t_ != c_min and still(t_):
                        c_min = t_
                c_min, shown = isolate(c_min, c, clause, shown, HISTORY_BUF)
                if shown == SHARED:
                    SHARED_CLAUSES.setdefault(clause, 0)
            ctx.fail(c_min, shown, impl=run_case(c_min)[1], model=m, detail=None if shown == clause else clause)
            HISTORY_BUF.add(c)
            continue
        HISTORY_BUF.add(c)
        if kind == "validate":
            if norm_excess(m[0]) != (["other"] if got[0] == "raised" else canon(got)):
                ctx.disagree(c, got, m[0])
        elif kind == "family":
            if m is None:
                ctx.hit("family:not-modelled")
            else:
                if m[0] != m[2]:
                    ctx.hit("family:model-says-frames-share-rows")
                if m[0] != got["frames"] or not results_agree(m[1], got["results"]):
                    ctx.disagree(c, {k_: got[k_] for k_ in ("frames", "results")}, m[:2])
                mp = mouts.get((id(c), "p"))
                if mp is not None:
                    ctx.hit("family:process-machine")
                    if mp[0] != got["frames"] or not results_agree(mp[1], got["results"]):
                        ctx.disagree(c, {k_: got[k_] for k_ in ("frames", "results")}, mp[:2], what="process machine and implementation differ")
        elif kind in ("appends", "reuse"):
            if m[0] != got["rows"] or not results_agree(m[2], got["results"]):
                ctx.disagree(c, got, m)
        elif kind == "bound":
            if m[0] != m[3]:
                ctx.hit("bound:model-says-the-layout-is-stale")
            if m[0] != got["frames"] or not results_agree(m[1], got["results"]) or m[2] != got["names"]:
                ctx.disagree(c, got, m[:3])
        elif kind == "dictframe" and m is not None:
            if m[0] != got["held"] or not results_agree(m[1], got["results"]):
                ctx.disagree(c, got, m)
        elif kind == "session":
            mo_, ok = m[0], len(m[0]) == len(got)
            for a, b in zip(mo_, got):
                if not ok:
                    break
                if a[0] != b[0]:
                    ok = False
                elif a[0] == "outcome":
                    ok = norm_excess(a[1]) == canon(b[1])
                else:
                    ok = a[1] == b[1] and results_agree(a[2], b[2])
            if not ok:
                ctx.disagree(c, got, m)


def has_features(c):
    """does a family case use other features of the library (anything that asks for a row class)?"""
    return bool(c.get("pre")) or c.get("how") == "arrow" or any(op[0] == "feature" or (op[0] == "touch" and op[2] in ("select", "arrow-roundtrip")) for op in c["ops"])


def record_distribution(ctx, c, got):
    kind = c["kind"]
    ctx.hit("kind:" + kind)
    if kind == "multi":
        return
    if c.get("pristine"):
        ctx.hit("run-in-a-process-of-its-own")
    if c.get("via") not in (None, "direct"):
        ctx.hit("schema-made:" + c["via"])
    if "cols" in c and len({x[0] for x in c["cols"]}) != len(c["cols"]):
        ctx.hit("schema:two-columns-of-one-name")
    if c.get("defaults"):
        ctx.hit("schema:columns-declare-defaults")
        by_name = {x[0]: x for x in c["cols"]}
        for n_, t_ in c["defaults"].items():
            if n_ in by_name:
                ctx.hit("default-declared-by:%s%s" % (by_name[n_][1] or "untyped", "" if by_name[n_][2] else " NOT NULL"))
        recs = [c["record"]] if kind == "validate" else c["records"] if kind == "appends" else []
        for r_ in recs:
            if any(n_ in by_name and n_ not in r_ for n_ in c["defaults"]):
                ctx.hit("record-omits-a-column-that-declares-a-default")
    if isinstance(got, dict) and got.get("skipped"):
        ctx.hit("skipped:" + got["skipped"])
        return
    if kind == "validate":
        ctx.hit("outcome:" + got[0])
        if got[0] == "invalid":
            ctx.hit("rules-fired:%d" % sum(1 for x in got[1:] if x))
        if c.get("container", "dict") != "dict":
            ctx.hit("record-object:" + c["container"])
        if any(k.startswith("\x01") for k in c["record"]):
            ctx.hit("record-key:not-a-string")
        for t in c["record"].values():
            if POOL[t] is not None and cls_name(POOL[t]) not in ("bool", "int", "float", "str", "bytes", "date", "datetime", "time",
                                                                  "timedelta", "dict", "Decimal", "list", "tuple", "set"):
                ctx.hit("value-class:" + cls_name(POOL[t]))
    elif kind == "appends":
        ctx.hit("frame-created:" + c.get("how", "list"))
        for r in got["results"]:
            ctx.hit("append:" + r[0])
        for k_ in (c.get("containers") or {}).values():
            if k_ != "dict":
                ctx.hit("append-record-object:" + k_)
    elif kind == "family":
        ctx.hit("family-root-created:" + c.get("how", "list"))
        for f in c.get("pre") or []:
            ctx.hit("feature-before-the-frame:" + f[0])
        sizes = [len(c["rows"])]
        for op in c["ops"]:
            if op[0] == "derive":
                ctx.hit("family-derive:" + op[2])
                n = len(got["frames"][op[1]]) if op[1] < len(got["frames"]) else 0
                if op[2] in ("head", "tail") or (op[2] == "slice" and len(op[3]) == 2 and op[3][1] is not None):
                    want = op[3][-1]
                    ctx.hit("family-derive-size:" + ("whole-or-more" if want >= n else "part"))
            elif op[0] == "append":
                ctx.hit("family-append-to:" + ("root" if op[1] == 0 else "derived"))
                if len(op) > 3 and op[3] != "dict":
                    ctx.hit("append-record-object:" + op[3])
            elif op[0] == "touch":
                ctx.hit("family-touch:" + op[2])
            elif op[0] == "feature":
                ctx.hit("feature-between-appends:" + op[1][0])
            else:
                ctx.hit("family-read")
        for r in got["results"]:
            ctx.hit("family-append:" + r[0])
        if got["derive-raised"]:
            ctx.hit("family:derive-raised:" + got["derive-raised"])
        if got["derived-content-differs"]:
            ctx.hit("family:derived-content-differs-from-plain-list-semantics", got["derived-content-differs"])
        ctx.hit("family-frames", len(got["frames"]))
    elif kind == "reuse":
        ctx.hit("frame-created:" + c.get("how", "list"))
        edited = [None] * len(c["objs"])    # None: not used yet; False: used; a string: used, then edited that way
        for op in c["ops"]:
            ctx.hit("reuse-op:" + op[0])
            if op[0] in ("put", "drop"):
                if edited[op[1]] is not None:
                    names = {x[0] for x in c["cols"]}
                    how_ = ("removed-a-key" if op[0] == "drop" else "added-a-non-column-key" if op[2] not in names
                            else "value-to-None" if op[3] == "none" else "value-changed")
                    edited[op[1]] = how_
            elif op[0] == "fresh":
                edited[op[1]] = None
            else:
                if isinstance(edited[op[1]], str):
                    ctx.hit("reuse:%s-again-after:%s" % (op[0], edited[op[1]]))
                edited[op[1]] = False
        for kind_, _ in c["objs"]:
            if kind_ != "dict":
                ctx.hit("reuse-record-object:" + kind_)
        for r in got["results"]:
            ctx.hit("reuse-append:" + r[0])
        for o in got["outcomes"]:
            ctx.hit("reuse-validate:" + o[0])
    elif kind == "bound":
        edited = appended = False
        for op in c["ops"]:
            ctx.hit("bound-op:" + op[0] + (":" + op[2] if op[0] == "read" else ""))
            if op[0] in MUTATIONS:
                edited = appended
            elif op[0] == "append":
                if edited:
                    ctx.hit("bound:append-after-an-append-and-an-edit")
                appended = True
        for r in got["results"]:
            ctx.hit("bound-append:" + r[0])
    elif kind == "session":
        changed = False
        for op in c["ops"]:
            ctx.hit("session-op:" + op[0] + (":" + op[1] if op[0] == "touch" else ""))
            if op[0] in MUTATIONS:
                changed = True
            elif op[0] == "validate" and changed:
                ctx.hit("session:validate-after-change")
            elif op[0] == "frame" and changed:
                ctx.hit("session:frame-after-change")
        for o in got:
            if o[0] == "outcome":
                ctx.hit("session-outcome:" + o[1][0])


# ----------------------------------------------------------------------------- generators


def gen_name(rng, used, i):
    if rng.random() < 0.12:
        cand = [n for n in ODD_NAMES if n not in used]
        if cand:
            return rng.choice(cand)
    n = "c%d" % i
    while n in used:
        i += 1
        n = "c%d" % i
    return n


def gen_col(rng, used, i):
    name = gen_name(rng, used, i)
    ty = None if rng.random() < 0.2 else rng.choice(TYPES)
    r = rng.random()
    if r < 0.5:
        aliases = ["alias_" + name, name.upper() + "_aka"]
    elif r < 0.7:
        aliases = []
    else:
        aliases = [rng.choice(["zz", "extra", "c0", "c1", "id", name + "_"])]
    return [name, ty, rng.random() < 0.5, aliases]


def gen_cols(rng, n=None):
    n = (rng.randint(0, 4) if rng.random() < 0.97 else rng.choice([5, 8, 9, 16, 17, 24, 32, 33, 40])) if n is None else n
    cols = []
    for i in range(n):
        cols.append(gen_col(rng, {c[0] for c in cols}, i))
    return cols


def gen_record_tags(rng, cols, p_valid=0.5, also=()):
    """A record for `cols`; `also` = names that were or will be columns of the same schema object."""
    tags = {}
    valid = rng.random() < p_valid
    for c in cols:
        n, ty, nl = c[0], c[1], c[2]
        r = rng.random()
        if not valid and r < 0.18:
            continue  # missing
        if (valid and nl and r < 0.3) or (not valid and r < 0.36):
            tags[n] = "none"
        elif valid or r < 0.7:
            tags[n] = rng.choice(RIGHT[ty]) if ty else rng.choice(ORDINARY)
        else:
            tags[n] = rng.choice(ORDINARY)
    if not valid and rng.random() < 0.3:
        pool = ["zz", "extra", "C0", "\x01" + rng.choice(list(KEYPOOL))] + [a for a in also if a not in tags]
        if cols:
            c = rng.choice(cols)
            pool += list(c[3])[:2] + [c[0].upper(), c[0] + " ", NFD if c[0] == NFC else NFC]
        extra = rng.choice([p for p in pool if p not in tags] or ["zz"])
        if extra not in [c[0] for c in cols]:
            tags[extra] = rng.choice(ORDINARY)
            if rng.random() < 0.2:  # two excess keys; -1 and -2 have equal hashes
                tags["\x01intm1"] = "int"
                tags["\x01intm2"] = "int"
    items = list(tags.items())
    rng.shuffle(items)
    return dict(items)


def with_route(rng, c, p=0.2):
    """the schema of the case made some other way than by its constructor"""
    if rng.random() < p:
        via = rng.choice(ROUTES[1:])
        if via == "arrow-schema" and not all(col[1] in ARROW_ROWS for col in c["cols"]):
            via = rng.choice(["dict-roundtrip", "type-name", "pickle"])
        c["via"] = via
    return c


def default_for(rng, col):
    """a value a column may declare as its default: mostly one of its own class (also falsy ones: 0, "", False, [], -0.0)"""
    r = rng.random()
    if col[1] is None or r < 0.1:
        return rng.choice([t for t in ORDINARY if t != "none"])
    return rng.choice(RIGHT[col[1]])


def with_defaults(rng, c, p=0.15):
    """some columns of the case's schema declare a default; records then tend to leave exactly those columns out"""
    if rng.random() >= p or not c["cols"] or c.get("how") == "arrow":
        return c
    chosen = [col for col in c["cols"] if rng.random() < 0.6] or [rng.choice(c["cols"])]
    c["defaults"] = {col[0]: default_for(rng, col) for col in chosen}

    def omit(tags):
        if rng.random() < 0.6:
            for n in list(c["defaults"]):
                if n in tags and rng.random() < 0.7:
                    del tags[n]

    if c["kind"] == "validate":
        omit(c["record"])
    elif c["kind"] == "appends":
        for r in c["records"]:
            omit(r)
    elif c["kind"] == "bound":
        for op in c["ops"]:
            if op[0] == "append":
                omit(op[2])
    elif c["kind"] == "session":
        for op in c["ops"]:
            if op[0] == "validate":
                omit(op[1])
            elif op[0] == "frame":
                for r in op[2]:
                    omit(r)
    elif c["kind"] == "family":
        for op in c["ops"]:
            if op[0] == "append":
                omit(op[2])
    if c.get("via") in ("type-name", "constant-columns", "function-columns", "arrow-schema"):
        del c["via"]      # routes on which the harness's columns are not made by make_col
    return c


def gen_validate(rng):
    cols = with_dups(rng, gen_cols(rng), 0.06)
    c = {"kind": "validate", "cols": cols, "record": gen_record_tags(rng, cols)}
    if rng.random() < 0.25:
        c["container"] = rng.choice(RECORD_KINDS)
    return with_defaults(rng, no_arrow_dups(with_route(rng, c)))


def gen_reuse(rng):
    cols = gen_cols(rng, rng.randint(0, 4))
    names = [c[0] for c in cols]
    rows = gen_init_rows(rng, cols, rng.choice([0, 0, 1]))
    c = {"kind": "reuse", "cols": cols, "rows": rows,
         "objs": [[rng.choice(REUSE_KINDS) if rng.random() < 0.3 else "dict", gen_record_tags(rng, cols, 0.8)] for _ in range(rng.choice([1, 1, 1, 2]))], "ops": []}
    r = rng.random()
    if r < 0.2:
        c["how"] = "gen"
    elif r < 0.4 and not rows:
        c["how"] = "none"
    says = [dict(o[1]) for o in c["objs"]]
    for _ in range(rng.randint(3, 10)):
        i = rng.randrange(len(says))
        r = rng.random()
        if r < 0.25:
            c["ops"].append(["validate", i])
        elif r < 0.5:
            c["ops"].append(["append", i])
        elif r < 0.55:
            c["ops"].append(["fresh", i])
        else:
            r2 = rng.random()
            if r2 < 0.3:       # a key that is no column (an alias, a look-alike, a non-string key, the name of no column at all)
                pool = ["zz", "extra", "comment", "\x01" + rng.choice(list(KEYPOOL))]
                if cols:
                    col = rng.choice(cols)
                    pool += list(col[3])[:2] + [col[0].upper(), col[0] + " "]
                key = rng.choice([k for k in pool if k not in names] or ["zz"])
                op = ["put", i, key, rng.choice(ORDINARY)]
            elif r2 < 0.5 and says[i]:
                op = ["drop", i, rng.choice(list(says[i]))]
            elif cols:
                col = rng.choice(cols)
                r3 = rng.random()
                tag = "none" if r3 < 0.3 else rng.choice(RIGHT[col[1]]) if (col[1] and r3 < 0.7) else rng.choice(ORDINARY)
                op = ["put", i, col[0], tag]
            else:
                continue
            c["ops"].append(op)
            if op[0] == "put":
                says[i][op[2]] = op[3]
            else:
                says[i].pop(op[2], None)
            if rng.random() < 0.7:
                c["ops"].append([rng.choice(["validate", "append"]), i])
    if not any(op[0] in ("validate", "append") for op in c["ops"]):
        c["ops"].append(["append", 0])
    return with_defaults(rng, with_route(rng, c, 0.1))


def gen_init_rows(rng, cols, n):
    rows = []
    for _ in range(n):
        rows.append([("none" if (c[2] and rng.random() < 0.3) else (rng.choice(RIGHT[c[1]]) if c[1] else rng.choice(["int", "str", "list"])))
                     for c in cols])
    return rows


def gen_append_records(rng, cols, also=()):
    recs = [gen_record_tags(rng, cols, 0.6, also) for _ in range(rng.randint(1, 6))]
    if rng.random() < 0.2:
        cand = [c for c in cols if c[1] in UNSIZABLE_FOR]
        if cand:
            c = rng.choice(cand)
            r = gen_record_tags(rng, cols, 1.0)
            r[c[0]] = rng.choice(UNSIZABLE_FOR[c[1]])
            recs.insert(rng.randint(0, len(recs)), r)
    return recs


def no_arrow_dups(c):
    """an arrow schema with two fields of one name is other properties' ground"""
    if c.get("via") == "arrow-schema" and len({x[0] for x in c["cols"]}) != len(c["cols"]):
        c["via"] = "sum"
    return c


def gen_appends(rng):
    cols = with_dups(rng, gen_cols(rng, rng.randint(1, 4)), 0.06)
    rows = gen_init_rows(rng, cols, rng.choice([0, 0, 1, 2]))
    recs = gen_append_records(rng, cols)
    c = {"kind": "appends", "cols": cols, "rows": rows, "records": recs}
    r = rng.random()
    if r < 0.2:
        c["how"] = "gen"
    elif r < 0.4 and not rows:
        c["how"] = "none"
    elif r < 0.5 and len({x[0] for x in cols}) == len(cols):
        # a frame created from an arrow table, on column names nobody in this process has used before
        uniq = "%06x" % rng.randrange(16 ** 6)
        ren = {}
        for col in cols:
            ren[col[0]] = col[0] + "_" + uniq
            col[0], col[1] = ren[col[0]], rng.choice(list(ARROW_ROWS))
        c["rows"] = [[rng.choice(ARROW_ROWS[col[1]]) for col in cols] for _ in rows]
        c["records"] = gen_append_records(rng, cols)
        c["how"] = "arrow"
        recs = c["records"]
    if rng.random() < 0.3:
        c["containers"] = {str(i): rng.choice(RECORD_KINDS) for i in range(len(recs)) if rng.random() < 0.5}
    return c if c.get("how") == "arrow" else with_defaults(rng, no_arrow_dups(with_route(rng, c)))


def gen_mutation(rng, cur, retired, fresh_i):
    """One change of the column list; names of removed columns come back, removed names stay in later records."""
    used = {c[0] for c in cur}
    kinds = ["add", "add", "insert", "replace", "touch"]
    if cur:
        kinds += ["del", "pop", "set", "set", "reverse"]
    k = rng.choice(kinds)
    if k == "touch":
        return ["touch", rng.choice(TOUCHES)]

    def new_col():
        back = [n for n in retired if n not in used]
        c = gen_col(rng, used, fresh_i)
        if back and rng.random() < 0.4:
            c[0] = rng.choice(back)
        return c

    if k == "add":
        return ["add", new_col()]
    if k == "insert":
        return ["insert", rng.randint(0, len(cur)), new_col()]
    if k == "del":
        return ["del", rng.randrange(len(cur))]
    if k == "pop":
        return ["pop", rng.choice([c[0] for c in cur] + ["zz"])]
    if k == "reverse":
        return ["reverse"]
    if k == "replace":
        keep = [list(c) for c in cur if rng.random() < 0.6]
        if rng.random() < 0.6:
            used = {c[0] for c in keep}
            back = [n for n in retired if n not in used]
            c = gen_col(rng, used, fresh_i)
            if back and rng.random() < 0.4:
                c[0] = rng.choice(back)
            keep.insert(rng.randint(0, len(keep)), c)
        return ["replace", keep]
    i = rng.randrange(len(cur))
    c = list(cur[i])
    what = rng.choice(["name", "type", "nullable", "aliases"])
    if what == "name":
        others = used - {c[0]}
        c[0] = gen_name(rng, others | {c[0]}, fresh_i)
    elif what == "type":
        c[1] = rng.choice([t for t in TYPES + [None] if t != c[1]])
    elif what == "nullable":
        c[2] = not c[2]
    else:
        c[3] = [rng.choice(["zz", "extra", "c0", "c1", "c2", c[0] + "_x"])]
    return ["set", i, c]


def gen_session(rng):
    cols = gen_cols(rng, rng.randint(0, 3))
    ops = []
    cur = [list(c) for c in cols]
    snapshots = [cur]
    retired = []
    fresh = 10
    for step in range(rng.randint(3, 9)):
        r = rng.random()
        if step == 0 or r < 0.5:
            # half of the records are written for the columns as they were (or will be again): stale state shows there
            basis = cur if rng.random() < 0.55 else rng.choice(snapshots)
            also = [n for n in retired] + [c[0] for s in snapshots for c in s if c[0] not in [x[0] for x in cur]]
            op = ["validate", gen_record_tags(rng, basis, 0.7, also)]
            if rng.random() < 0.1:
                op.append(rng.choice(list(CONTAINERS)))
            ops.append(op)
        elif r < 0.85:
            op = gen_mutation(rng, cur, retired, fresh)
            fresh += 1
            new = apply_to_mirror(cur, op)
            if not names_ok(new):
                continue
            for c in cur:
                if c[0] not in [x[0] for x in new] and c[0] not in retired:
                    retired.append(c[0])
            ops.append(op)
            cur = new
            snapshots.append(cur)
        else:
            basis = cur if rng.random() < 0.6 else rng.choice(snapshots)
            recs = [gen_record_tags(rng, basis if rng.random() < 0.7 else cur, 0.7, retired) for _ in range(rng.randint(1, 4))]
            if rng.random() < 0.15:
                cand = [c for c in cur if c[1] in UNSIZABLE_FOR]
                if cand:
                    c = rng.choice(cand)
                    rr = gen_record_tags(rng, cur, 1.0)
                    rr[c[0]] = rng.choice(UNSIZABLE_FOR[c[1]])
                    recs.append(rr)
            rows = gen_init_rows(rng, cur, rng.choice([0, 0, 1]))
            op = ["frame", rows, recs]
            if not rows and rng.random() < 0.3:
                op.append("none")
            elif rng.random() < 0.2:
                op.append("gen")
            ops.append(op)
    return with_defaults(rng, with_route(rng, {"kind": "session", "cols": cols, "ops": ops}, 0.15), 0.1)


def with_dups(rng, cols, p):
    """two columns of one name (what the sum of two relations that share a column name has), mostly of one type"""
    if len(cols) >= 2 and rng.random() < p:
        i, j = sorted(rng.sample(range(len(cols)), 2))
        cols[j][0] = cols[i][0]
        if rng.random() < 0.7:
            cols[j][1] = cols[i][1]
        if rng.random() < 0.5:
            cols[j][2] = cols[i][2]
    return cols


def gen_bound(rng):
    cols = with_dups(rng, gen_cols(rng, rng.randint(1, 4)), 0.15)
    cur = [list(c) for c in cols]
    snapshots, retired, fresh = [cur], [], 10
    ops = [["bind", gen_init_rows(rng, cur, rng.choice([0, 0, 1])), "list"]]
    if not ops[0][1] and rng.random() < 0.3:
        ops[0][2] = "none"
    elif rng.random() < 0.2:
        ops[0][2] = "gen"
    n = 1
    for _ in range(rng.randint(3, 10)):
        r = rng.random()
        if r < 0.45:
            basis = cur if rng.random() < 0.75 else rng.choice(snapshots)
            tags = gen_record_tags(rng, basis, 0.8, retired)
            op = ["append", rng.randrange(n), tags]
            if rng.random() < 0.1:
                cand = [c for c in cur if c[1] in UNSIZABLE_FOR and c[0] in tags]
                if cand:
                    c = rng.choice(cand)
                    tags[c[0]] = rng.choice(UNSIZABLE_FOR[c[1]])
            if rng.random() < 0.15:
                op.append(rng.choice(RECORD_KINDS))
            ops.append(op)
        elif r < 0.75:
            op = gen_mutation(rng, cur, retired, fresh)
            fresh += 1
            if op[0] == "touch":
                op = ["touch", rng.choice(BOUND_TOUCHES)]
            elif op[0] == "set" and rng.random() < 0.5:
                # a rename in place: the case the layout of a stored row depends on
                c = list(cur[op[1]])
                c[0] = gen_name(rng, {x[0] for x in cur}, fresh)
                op = ["set", op[1], c]
            new = apply_to_mirror(cur, op)
            if not names_ok(new, dup=True):
                continue
            for c in cur:
                if c[0] not in [x[0] for x in new] and c[0] not in retired:
                    retired.append(c[0])
            ops.append(op)
            cur = new
            snapshots.append(cur)
        elif r < 0.9:
            ops.append(["read", rng.randrange(n), rng.choice(BOUND_READS)])
        else:
            how = rng.choice(["list", "list", "gen", "none"])
            ops.append(["bind", [] if how == "none" else gen_init_rows(rng, cur, rng.choice([0, 1])), how])
            n += 1
    return with_defaults(rng, {"kind": "bound", "cols": cols, "ops": ops}, 0.1)


def bound_table():
    """append -> edit the shared schema -> append records written for the schema as it is now (and as it was), for every way the
    column list can change x what was read off the frame in between x how the frame was made"""
    a, b, d = ["a", "INTEGER", False, []], ["b", "VARCHAR", True, []], ["d", "DOUBLE", True, []]
    old = {"a": "int", "b": "str"}
    edits = [
        ("rename", [["set", 1, ["b2", "VARCHAR", True, []]]], {"a": "int", "b2": "str"}),
        ("rename-first", [["set", 0, ["a2", "INTEGER", False, []]]], {"a2": "int", "b": "str"}),
        ("rename-not-null", [["set", 1, ["b2", "VARCHAR", False, []]]], {"a": "int", "b2": "str"}),
        ("swap-names", [["set", 0, ["b", "INTEGER", False, []]], ["set", 1, ["a", "VARCHAR", True, []]]], {"b": "int", "a": "str"}),
        ("reverse", [["reverse"]], {"b": "str", "a": "int"}),
        ("add", [["add", d]], {"a": "int", "b": "str", "d": "float"}),
        ("insert-front", [["insert", 0, d]], {"d": "float", "a": "int", "b": "str"}),
        ("del-last", [["del", 1]], {"a": "int"}),
        ("del-first", [["del", 0]], {"b": "str"}),
        ("pop", [["pop", "a"]], {"b": "str"}),
        ("replace-one", [["replace", [a, d]]], {"a": "int", "d": "float"}),
        ("replace-same-count", [["replace", [["x", "INTEGER", False, []], ["y", "VARCHAR", True, []]]]], {"x": "int", "y": "str"}),
        ("replace-reordered", [["replace", [b, a]]], {"a": "int", "b": "str"}),
        ("replace-empty-and-back", [["replace", []], ["replace", [b, a]]], {"a": "int", "b": "str"}),
        ("retype", [["set", 1, ["b", "INTEGER", True, []]]], {"a": "int", "b": "int"}),
        ("add-then-del", [["add", d], ["del", 2]], {"a": "int", "b": "str"}),
        ("rename-and-back", [["set", 1, ["b2", "VARCHAR", True, []]], ["set", 1, b]], {"a": "int", "b": "str"}),
        ("add-duplicate-name", [["add", ["a", "INTEGER", False, []]]], {"a": "int", "b": "str"}),
        ("rename-to-duplicate", [["set", 1, ["a", "INTEGER", True, []]]], {"a": "int"}),
    ]
    for label, edit, new in edits:
        for how in ("list", "none", "gen"):
            for first in ([["append", 0, old]], [["read", 0, "column_names"]], [["read", 0, "description"]], [["read", 0, "columncount"]], []):
                for between in ([], [["read", 0, "column_names"]], [["bind", [], "list"], ["read", 1, "column_names"]], [["touch", "names"]]):
                    if first == [] and between == []:
                        continue
                    yield {"kind": "bound", "cols": [a, b], "ops": [["bind", [], how]] + first + edit + between
                           + [["append", 0, new], ["append", 0, old], ["append", 0, dict(reversed(list(new.items())))]]}
        # the edit between the second and the third append; two frames on the one schema
        yield {"kind": "bound", "cols": [a, b], "ops": [["bind", [["int", "str"]], "list"], ["bind", [], "list"], ["append", 0, old], ["append", 1, old]] + edit
               + [["append", 1, new], ["append", 0, new], ["read", 0, "column_names"], ["append", 0, new, "UserDict"], ["append", 1, old]]}
    # schemas with two columns of one name, bound and then edited
    dup = [["id", "INTEGER", False, []], ["label", "VARCHAR", True, []], ["id", "INTEGER", False, []], ["score", "DOUBLE", True, []]]
    rec = {"id": "int", "label": "str", "score": "float"}
    for how in ("list", "none", "gen"):
        yield {"kind": "bound", "cols": dup, "ops": [["bind", [], how], ["append", 0, rec], ["append", 0, {"id": "none", "label": "str", "score": "float"}],
                                                     ["append", 0, {"score": "float", "label": "none", "id": "bigint"}], ["append", 0, dict(rec, z="int")],
                                                     ["pop", "id"], ["append", 0, rec], ["set", 0, ["id", "VARCHAR", True, []]], ["append", 0, rec]]}


def dup_table():
    """schemas in which two (or more) columns bear one name — made by the constructor and as the sum of two relations that share
    a column name — through validate and through append on frames created each way"""
    shapes = [
        [["id", "INTEGER", False], ["label", "VARCHAR", True], ["id", "INTEGER", False], ["score", "DOUBLE", True]],
        [["id", "INTEGER", False], ["id", "INTEGER", False]],
        [["k", "VARCHAR", True], ["v", "INTEGER", True], ["k", "VARCHAR", False]],
        [["x", "INTEGER", True], ["x", "VARCHAR", True], ["y", "BOOLEAN", False]],          # one name, two types: no non-null value fits both
        [["a", "INTEGER", False], ["b", "VARCHAR", True], ["a", "INTEGER", False], ["b", "VARCHAR", True]],
        [["n", None, True], ["m", "DOUBLE", True], ["m", "DOUBLE", True], ["m", "DOUBLE", True]],
    ]
    for cols in shapes:
        names = list(dict.fromkeys(c[0] for c in cols))
        first_type = {n: next(c[1] for c in cols if c[0] == n) for n in names}
        right = {n: RIGHT[first_type[n]][0] if first_type[n] else "str" for n in names}
        recs = [right, dict(reversed(list(right.items()))), {n: "none" for n in names}, {n: right[n] for n in names[1:]},
                dict(right, zz="int"), {n: "set" for n in names}, dict(right, **{names[0]: "none"})]
        for via in ("direct", "sum"):
            if via == "sum" and len(cols) < 2:
                continue
            for rec in recs:
                yield {"kind": "validate", "cols": cols, "record": rec, "via": via}
            for how in ("list", "none", "gen"):
                rows = [] if how == "none" else [[("none" if c[2] else RIGHT[c[1]][0]) if c[1] else "str" for c in cols]]
                if not rows_ok([norm_col(c) for c in cols], rows):
                    rows = []
                yield {"kind": "appends", "cols": cols, "rows": rows, "records": recs, "how": how, "via": via}
            yield {"kind": "appends", "cols": cols, "rows": [], "records": recs, "containers": {"0": "UserDict", "1": "OrderedDict", "3": "mappingproxy"}, "via": via}


def gen_derive(rng, n_frames, sizes):
    """One derivation from an existing frame; `sizes` = how many rows each frame holds now (as the generator tracks it)."""
    i = rng.randrange(n_frames)
    n = sizes[i]
    near = [0, 1, max(n - 1, 0), n, n + 1, n + 5, 5]
    m = rng.choice(["head", "head", "tail", "tail", "slice", "slice", "query", "distinct", "filter", "take", "batches", "add"])
    if m in ("head", "tail"):
        args = [rng.choice(near)]
    elif m == "slice":
        r = rng.random()
        if r < 0.25:
            args = []
        elif r < 0.5:
            args = [rng.choice([0, 0, -n, -n - 1, 1, -1]), None]
        else:
            args = [rng.choice([0, 0, 0, -n, -n - 2, 1, -1, n]), rng.choice(near)]
    elif m == "query":
        args = [rng.choice(list(PREDICATES))]
    elif m == "distinct":
        args = []
    elif m == "filter":
        args = [[rng.random() < 0.8 for _ in range(n + rng.choice([0, 0, 1, 3]))]]
    elif m == "take":
        args = [sorted(rng.sample(range(n + 3), rng.randint(0, n + 3)))]
    elif m == "batches":
        args = [rng.choice([1, 2, max(n, 1), n + 1, 1000]), rng.randint(0, 3)]
    else:
        args = [rng.randrange(n_frames)]
    return ["derive", i, m, args]


def family_size_after(op, sizes):
    """upper estimate of the rows the new frame starts with (only used to aim the generator at the boundaries)"""
    n = sizes[op[1]]
    m, a = op[2], op[3]
    if m in ("head", "tail"):
        return min(n, a[0])
    if m == "add":
        return n + sizes[a[0]]
    if m == "batches":
        return min(n, a[0])
    return n


def gen_feature(rng, cols):
    """Another feature of the library used in the same process, on column names that are — or nearly are — this frame's."""
    names = [c[0] for c in cols]
    r = rng.random()
    if r < 0.5:
        ns = list(names)
    elif r < 0.65:
        ns = list(reversed(names)) if len(names) > 1 else list(names)
    elif r < 0.75:
        ns = names[:-1] or list(names)
    elif r < 0.85:
        ns = names + ["x" + names[0]]
    elif r < 0.93:
        ns = [n.upper() for n in names]
        if len(set(ns)) != len(ns):
            ns = list(names)
    else:
        ns = names[:1]
    k = rng.choice(["arrow", "arrow", "arrow", "arrow-reader", "rowclass", "rowclass", "dictframe", "listframe", "schemaframe"])
    if k == "arrow":
        return ["arrow", ns, rng.choice([0, 1, 2]), rng.random() < 0.7]
    if k == "arrow-reader":
        return ["arrow-reader", ns, rng.choice([0, 1, 2])]
    if k == "rowclass":
        return ["rowclass", ns, rng.random() < 0.6]
    if k in ("dictframe", "listframe"):
        return [k, ns]
    other = [[n, None if rng.random() < 0.2 else rng.choice(TYPES), rng.random() < 0.5, []] for n in ns]
    return ["schemaframe", other, gen_record_tags(rng, other, 0.7)]


def gen_family(rng, process=False, unique=True):
    """`process`: the case also uses other features of the library that ask for row classes — before the root frame is made
    and between the appends; its column names are then (`unique`) names nobody in this process has used before."""
    cols = gen_cols(rng, rng.randint(1, 3))
    n_rows = rng.choice([0, 1, 2, 2, 3])
    how = None
    if process:
        if unique:
            uniq = "%06x" % rng.randrange(16 ** 6)
            for c in cols:
                c[0] = c[0] + "_" + uniq
        if rng.random() < 0.35:
            how = "arrow"
            for c in cols:
                c[1] = rng.choice(list(ARROW_ROWS))
    if how == "arrow":
        rows = [[rng.choice(ARROW_ROWS[c[1]]) for c in cols] for _ in range(n_rows)]
    else:
        rows = gen_init_rows(rng, cols, n_rows)
        how = "gen" if rng.random() < 0.15 else ("none" if not rows and rng.random() < 0.5 else "list")
    sizes = [len(rows)]
    ops = []
    for _ in range(rng.randint(3, 10)):
        r = rng.random()
        if process and r < 0.12:
            ops.append(["feature", gen_feature(rng, cols)])
        elif r < 0.5 or (not ops and not rows):
            i = rng.randrange(len(sizes))
            tags = gen_record_tags(rng, cols, 0.8)
            op = ["append", i, tags]
            if rng.random() < 0.15:
                op.append(rng.choice(RECORD_KINDS))
            ops.append(op)
            if expected(cols, plain_record(tags))[0] == "ok" and (len(op) == 3 or op[3] in CONTAINERS):
                sizes[i] += 1
        elif r < 0.9:
            op = gen_derive(rng, len(sizes), sizes)
            ops.append(op)
            sizes.append(family_size_after(op, sizes))
        elif r < 0.95:
            ops.append(["read", rng.randrange(len(sizes))])
        else:
            ops.append(["touch", rng.randrange(len(sizes)), rng.choice(FRAME_TOUCHES)])
    c = {"kind": "family", "cols": cols, "rows": rows, "ops": ops}
    if how != "list":
        c["how"] = how
    if process and rng.random() < 0.7:
        c["pre"] = [gen_feature(rng, cols) for _ in range(rng.randint(1, 2))]
    return c if how == "arrow" else with_defaults(rng, with_route(rng, c, 0.15), 0.08)


def gen_dictframe(rng):
    keys = ["k%d" % i for i in range(rng.randint(1, 3))]
    first = [{k: rng.choice(ORDINARY) for k in keys} for _ in range(rng.randint(1, 2))]
    recs = []
    for _ in range(rng.randint(1, 4)):
        r = {k: rng.choice(ORDINARY) for k in keys if rng.random() < 0.85}
        if rng.random() < 0.2:
            r["zz"] = "int"
        if rng.random() < 0.1:
            r[rng.choice(keys)] = rng.choice(UNSIZABLE)
        items = list(r.items())
        rng.shuffle(items)
        recs.append(dict(items))
    c = {"kind": "dictframe", "first": first, "records": recs}
    if rng.random() < 0.3:
        c["containers"] = {str(i): rng.choice(list(CONTAINERS)) for i in range(len(recs)) if rng.random() < 0.5}
    return c


def decision_table():
    """Every column type x nullable x every value of the pool; and all subsets of {missing,null,wrong,excess}."""
    for ty in TYPES + [None]:
        for nl in (False, True):
            for tag in POOL:
                yield {"kind": "validate", "cols": [["c0", ty, nl]], "record": {"c0": tag}}
            yield {"kind": "validate", "cols": [["c0", ty, nl]], "record": {}}
    cols = [["m", "INTEGER", True], ["n", "VARCHAR", False], ["w", "DOUBLE", True], ["u", None, True]]
    for missing, null, wrong, excess in itertools.product([0, 1], repeat=4):
        rec = {"u": "list"}
        if not missing:
            rec["m"] = "int"
        rec["n"] = "none" if null else "str"
        rec["w"] = "int" if wrong else "float"
        if excess:
            rec["zz" if (missing + null) % 2 == 0 else "alias_m"] = "int"
        for order in (list(rec.items()), list(reversed(list(rec.items())))):
            for container in ("dict", "UserDict", "OrderedDict"):
                c = {"kind": "validate", "cols": cols, "record": dict(order)}
                if container != "dict":
                    c["container"] = container
                yield c
    # every kind of two offences in two different columns of the same kind, and unhashable wrongly typed values
    cols2 = [["a", "INTEGER", False], ["b", "INTEGER", False], ["c", "VARCHAR", False]]
    for ta, tb in itertools.product(["int", "none", "list", None], repeat=2):
        rec = {"c": "dict"}
        if ta:
            rec["a"] = ta
        if tb:
            rec["b"] = tb
        yield {"kind": "validate", "cols": cols2, "record": rec}
    # keys that are not strings, keys that differ from a name only in case / normal form / trailing space
    base = [["c0", "INTEGER", True, ["k"]], [NFC, None, True, []]]
    for extra in ["\x01" + t for t in KEYPOOL] + ["C0", "c0 ", NFD, "k", ""]:
        yield {"kind": "validate", "cols": base, "record": {"c0": "int", NFC: "str", extra: "int"}}
    yield {"kind": "validate", "cols": base, "record": {"c0": "int", NFC: "str", "\x01intm1": "int", "\x01intm2": "int"}}
    # a key that is not a string but prints like a column name (1 and "1", None and "None", b"c0" and "b'c0'") is an excess key
    for key, name in (("\x01int1", "1"), ("\x01none", "None"), ("\x01bytes", "b'c0'"), ("\x01tuple", "('c0',)"), ("\x01intm1", "-1")):
        lookalike = [[name, "INTEGER", True, []], ["c0", None, True, []]]
        yield {"kind": "validate", "cols": lookalike, "record": {key: "int", "c0": "str"}}
        yield {"kind": "validate", "cols": lookalike, "record": {key: "int", name: "int", "c0": "str"}}
        yield {"kind": "appends", "cols": lookalike, "rows": [], "records": [{name: "int", "c0": "str"}, {key: "int", "c0": "str"}, {name: "none", "c0": "none"}]}
    # two excess keys of different kinds: they cannot be ordered against each other, and are named all the same
    for k1, k2 in (("\x01int1", "zz"), ("\x01none", "zz"), ("\x01tuple", "\x01bytes"), ("\x01int1", "\x01none"), ("\x01bytes", "")):
        yield {"kind": "validate", "cols": base, "record": {"c0": "int", NFC: "str", k1: "int", k2: "int"}}
        yield {"kind": "appends", "cols": base, "rows": [], "records": [{"c0": "int", NFC: "str"}, {k2: "int", "c0": "int", NFC: "str", k1: "int"}, {"c0": "none", NFC: "none"}]}
    # the row serialiser's limits, one append each, for every way a frame is created
    for how in ("list", "none", "gen"):
        for tag in ("i64max", "i64min", "u64max") + UNSIZABLE:
            col = "ARRAY" if tag == "list70" else ("STRUCT" if tag == "dict70" else "INTEGER")
            yield {"kind": "appends", "cols": [["c0", col, True]], "rows": [], "how": how,
                   "records": [{"c0": RIGHT[col][0]}, {"c0": tag}, {"c0": "none"}]}
    for container in CONTAINERS:
        yield {"kind": "appends", "cols": [["a", "INTEGER", False], ["b", "VARCHAR", True]], "rows": [["int", "str"]],
               "records": [{"b": "str", "a": "int"}, {"a": "str", "b": "str"}, {"a": "int"}], "containers": {"0": container, "1": container, "2": container}}
        yield {"kind": "dictframe", "first": [{"a": "int", "b": "str"}], "records": [{"b": "str", "a": "int"}, {"a": "int70"}, {"zz": "int"}],
               "containers": {"0": container, "1": container}}


def kinds_table():
    """Every kind of record object through validate and through append: conforming, with each single offence, and with
    the keys in the other order."""
    cols = [["a", "INTEGER", False], ["b", "VARCHAR", True]]
    recs = [{"a": "int", "b": "str"}, {"b": "str", "a": "int"}, {"a": "int", "b": "none"}, {"a": "str", "b": "str"}, {"a": "none", "b": "str"},
            {"a": "int"}, {"a": "int", "b": "str", "zz": "int"}, {}, {"b": "bytes", "a": "true"}]
    for kind in RECORD_KINDS:
        for rec in recs:
            yield {"kind": "validate", "cols": cols, "record": rec, "container": kind}
        yield {"kind": "validate", "cols": [], "record": {}, "container": kind}
        yield {"kind": "validate", "cols": [["a", None, True]], "record": {"a": "list"}, "container": kind}
        for how, rows in (("list", [["int", "str"]]), ("none", []), ("gen", [["int", "none"]])):
            yield {"kind": "appends", "cols": cols, "rows": rows, "how": how, "records": recs[:3] + recs[3:7] + [recs[0]],
                   "containers": {str(i): kind for i in range(8)}}
        # the same object kind between two plain records: what it leaves behind must not disturb the next append
        yield {"kind": "appends", "cols": cols, "rows": [], "records": [recs[0], recs[1], recs[0]], "containers": {"1": kind}}
        yield {"kind": "appends", "cols": [["a", None, True]], "rows": [], "records": [{"a": "int70"}, {"a": "list"}], "containers": {"0": kind, "1": kind}}


def family_table():
    """Derived frames as further registers of one append history: for every way of taking a frame from another one, at
    and around the size of the parent, append to the parent, to the child, to both, before and after the child was read."""
    cols = [["a", "INTEGER", False], ["b", "VARCHAR", True]]
    good, good2, bad = {"a": "int", "b": "str"}, {"b": "none", "a": "bigint"}, {"a": "str", "b": "str"}
    for n in (0, 1, 2, 3):
        rows = [["int", "str"], ["int0", "none"], ["bigint", "empty"]][:n]
        derivations = [["head", [k]] for k in sorted({0, 1, max(n - 1, 0), n, n + 1, 5})]
        derivations += [["tail", [k]] for k in sorted({0, 1, max(n - 1, 0), n, n + 1, 5})]
        derivations += [["slice", []], ["slice", [0]], ["slice", [0, None]], ["slice", [0, n]], ["slice", [0, n + 1]], ["slice", [0, max(n - 1, 0)]],
                        ["slice", [-n, None]], ["slice", [-n - 1, None]], ["slice", [-n, n]], ["slice", [-n - 1, n + 1]], ["slice", [1, None]],
                        ["slice", [1, n]], ["slice", [-1, 1]], ["slice", [n, None]], ["slice", [0, 0]]]
        derivations += [["query", ["all"]], ["query", ["nothing"]], ["distinct", []], ["filter", [[True] * n]], ["filter", [[True] * (n + 2)]],
                        ["take", [list(range(n))]], ["take", [list(range(n + 3))]], ["batches", [max(n, 1), 0]], ["batches", [n + 1, 0]],
                        ["batches", [1, 0]], ["batches", [1000, 0]], ["add", [0]]]
        for how in ("list", "gen") if n else ("list", "none"):
            for m, args in derivations:
                for script in (
                    [["derive", 0, m, args], ["append", 0, good], ["append", 0, bad], ["append", 1, good2], ["append", 0, good2]],
                    [["derive", 0, m, args], ["append", 1, good], ["append", 1, bad], ["append", 0, good2]],
                    [["derive", 0, m, args], ["read", 1], ["append", 0, good], ["read", 1], ["append", 1, good2]],
                    [["append", 0, good], ["derive", 0, m, args], ["append", 0, good2], ["derive", 1, m, args], ["append", 2, good], ["append", 1, bad], ["append", 1, good]],
                ):
                    if m == "add" and script[0][0] != "derive":
                        continue
                    c = {"kind": "family", "cols": cols, "rows": rows, "ops": script}
                    if how != "list":
                        c["how"] = how
                    yield c
    # the frames are used in between: sized, hashed, printed, fetched from, iterated
    for what in FRAME_TOUCHES:
        for m, args in (["head", [5]], ["slice", []], ["tail", [2]], ["filter", [[True, True, True]]]):
            yield {"kind": "family", "cols": cols, "rows": [["int", "str"], ["int0", "none"]],
                   "ops": [["touch", 0, what], ["derive", 0, m, args], ["touch", 0, what], ["touch", 1, what], ["append", 0, good], ["touch", 1, what],
                           ["append", 1, good2], ["touch", 0, what], ["append", 0, bad], ["append", 1, good]]}
    # odd record objects into a derived frame and into its parent
    rows = [["int", "str"]]
    for kind in ("mappingproxy", "FrozenMap", "UserDict", "ChainMap", "pairs", "Row"):
        yield {"kind": "family", "cols": cols, "rows": rows, "ops": [["derive", 0, "head", [5]], ["append", 1, good, kind], ["append", 0, good2, kind], ["append", 1, good]]}


def sizes_table():
    """Sizes at and around every power of two and every round number a fast path could be hung on: wide schemas (and so wide
    records), frames that already hold many rows, long append histories."""
    for n in (5, 8, 16, 17, 31, 32, 33, 63, 64, 65, 100, 127, 128, 129, 255, 256, 257, 1000):
        cols = [["k%d" % i, (TYPES + [None])[i % 14], i % 3 != 0] for i in range(n)]
        good = {c[0]: (RIGHT[c[1]][i % len(RIGHT[c[1]])] if c[1] else "tuple") for i, c in enumerate(cols)}
        yield {"kind": "validate", "cols": cols, "record": good}
        yield {"kind": "validate", "cols": cols, "record": dict(reversed(list(good.items())))}
        for pos in (0, 1, n // 2, n - 2, n - 1):
            name, ty, nl = cols[pos]
            yield {"kind": "validate", "cols": cols, "record": {k: v for k, v in good.items() if k != name}}          # missing
            yield {"kind": "validate", "cols": cols, "record": dict(good, **{name: "none"})}                           # null (allowed or not)
            yield {"kind": "validate", "cols": cols, "record": dict(good, **{name: "set"})}                            # wrong type (or untyped)
        yield {"kind": "validate", "cols": cols, "record": dict(good, zz="int")}
        yield {"kind": "validate", "cols": cols, "record": dict({"zz": "int"}, **good)}
        # one offence of each kind, far apart
        far = dict(good)
        del far[cols[0][0]]
        far[cols[n // 2][0]] = "set"
        far[cols[n - 1][0]] = "none"
        yield {"kind": "validate", "cols": cols, "record": far}
        if n <= 257:
            for how in ("list", "gen"):
                yield {"kind": "appends", "cols": cols, "rows": [], "how": how,
                       "records": [good, far, dict(reversed(list(good.items()))), dict(good, zz="int"), good]}
    cols = [["a", "INTEGER", False], ["b", "VARCHAR", True]]
    good, good2, bad = {"a": "int", "b": "str"}, {"b": "none", "a": "bigint"}, {"a": "str", "b": "str"}
    # frames that already hold many rows (the fetch size is 100)
    for n in (99, 100, 101, 999, 1000, 1001):
        rows = [["int0" if i % 2 else "int", "str" if i % 3 else "empty"] for i in range(n)]
        for how in ("list", "gen", "arrow"):
            yield {"kind": "family", "cols": cols, "rows": rows, "how": how,
                   "ops": [["append", 0, good], ["append", 0, bad], ["derive", 0, "head", [100]], ["derive", 0, "tail", [100]], ["append", 1, good2],
                           ["append", 2, good], ["append", 0, good2], ["derive", 0, "slice", [-101, None]], ["append", 3, good]]}
    # long histories: every hundredth append, every 128th, … must be like the first
    cycle = [good, bad, good2, {"a": "int"}, {"a": "int", "b": "str", "zz": "int"}, {"a": "int70", "b": "none"}, {"b": "str", "a": "true"}]
    for n in (100, 101, 128, 129, 256, 257, 1000):
        for how in ("list", "none", "gen"):
            yield {"kind": "appends", "cols": cols, "rows": [] if how != "gen" else [["int", "str"]], "how": how, "records": [cycle[i % len(cycle)] for i in range(n)]}
    yield {"kind": "family", "cols": cols, "rows": [["int", "str"]],
           "ops": [["derive", 0, "head", [5]]] + [["append", i % 2, cycle[i % len(cycle)]] for i in range(300)] + [["derive", 0, "slice", []], ["append", 2, good]]}
    yield {"kind": "dictframe", "first": [{"a": "int", "b": "str"}], "records": [{k: v for k, v in cycle[i % len(cycle)].items()} for i in range(300)]}


def routes_table():
    """However the schema was made — by its constructor, with type names, through to_dict / from_dict, to_json / from_json,
    copy, deepcopy, pickle, with ConstantColumn / FunctionColumn columns, as the sum of two schemas, from an arrow schema —
    the verdict is the statement's on the columns the schema object has: every column type x nullable x a right value, a
    null and a wrong value; every subset of the four offences; appends to frames created each way."""
    for via in ROUTES[1:]:
        for ty in TYPES + [None]:
            if via == "arrow-schema" and ty not in ARROW_ROWS:
                continue
            for nl in (False, True):
                for tag in ([RIGHT[ty][0], RIGHT[ty][-1]] if ty else ["list"]) + ["none", "tuple", "true"]:
                    yield {"kind": "validate", "cols": [["c0", ty, nl]], "record": {"c0": tag}, "via": via}
                yield {"kind": "validate", "cols": [["c0", ty, nl]], "record": {}, "via": via}
        cols = [["m", "INTEGER", True], ["n", "VARCHAR", False], ["w", "DOUBLE", True], ["u", "BOOLEAN" if via == "arrow-schema" else None, True]]
        for missing, null, wrong, excess in itertools.product([0, 1], repeat=4):
            rec = {"u": "true"}
            if not missing:
                rec["m"] = "int"
            rec["n"] = "none" if null else "str"
            rec["w"] = "int" if wrong else "float"
            if excess:
                rec["zz" if (missing + null) % 2 == 0 else "alias_m"] = "int"
            yield {"kind": "validate", "cols": cols, "record": rec, "via": via}
            yield {"kind": "validate", "cols": cols, "record": dict(reversed(list(rec.items()))), "via": via, "container": "UserDict"}
        cols2 = [["a", "INTEGER", False], ["b", "VARCHAR", True]]
        for how, rows in (("list", [["int", "str"]]), ("none", []), ("gen", [["int0", "empty"]])):
            yield {"kind": "appends", "cols": cols2, "rows": rows, "how": how, "via": via,
                   "records": [{"b": "str", "a": "int"}, {"a": "str", "b": "str"}, {"a": "int"}, {"a": "int70", "b": "none"}, {"a": "bigint", "b": "none"}]}
        yield {"kind": "family", "cols": cols2, "rows": [["int", "str"]], "via": via,
               "ops": [["append", 0, {"a": "int", "b": "str"}], ["derive", 0, "head", [5]], ["append", 1, {"b": "none", "a": "int0"}],
                       ["append", 0, {"a": "str", "b": "str"}], ["append", 0, {"b": "str", "a": "bigint"}]]}
        full = {"a": "int", "b": "str"}
        yield {"kind": "session", "cols": cols2, "via": via,
               "ops": [["validate", full], ["add", ["d", "DOUBLE", True, []]], ["validate", full], ["validate", {"a": "int", "b": "str", "d": "float"}],
                       ["set", 0, ["a", "INTEGER", True, []]], ["validate", {"a": "none", "b": "str", "d": "float"}], ["del", 1],
                       ["frame", [], [{"a": "int", "d": "float"}, full]]]}


def process_table():
    """State shared between features, seen from append: every other way the library is asked for a row class — reading an
    arrow table with the same / permuted / fewer / more / re-cased column names, the reader alone, `Row.create_class` with
    and without `tuples_only` in both orders, frames built from dictionaries or on a list of names, a frame on another
    schema with equally named columns — BEFORE the frame is made, and BETWEEN its appends and the frames taken from it,
    for every way the frame itself is created (a list, None, a generator, an arrow table).  Every case is run in a
    process of its own, so whichever request is the first of its kind in a process is tried."""
    cols = [["a", "INTEGER", False], ["b", "VARCHAR", True]]
    names = ["a", "b"]
    other = [["a", "VARCHAR", True], ["b", "INTEGER", True]]
    good, good2, bad = {"a": "int", "b": "str"}, {"b": "none", "a": "bigint"}, {"a": "str", "b": "str"}
    features = {
        "nothing": [],
        "arrow-same": [["arrow", names, 2, True]], "arrow-unread": [["arrow", names, 2, False]], "arrow-empty": [["arrow", names, 0, True]],
        "arrow-permuted": [["arrow", ["b", "a"], 1, True]], "arrow-fewer": [["arrow", ["a"], 1, True]],
        "arrow-more": [["arrow", ["a", "b", "c"], 1, True]], "arrow-recased": [["arrow", ["A", "B"], 1, True]],
        "reader-same": [["arrow-reader", names, 1]],
        "rowclass-tuples": [["rowclass", names, True]], "rowclass-dicts": [["rowclass", names, False]],
        "rowclass-tuples-dicts": [["rowclass", names, True], ["rowclass", names, False]],
        "rowclass-dicts-tuples": [["rowclass", names, False], ["rowclass", names, True]],
        "rowclass-permuted-tuples": [["rowclass", ["b", "a"], True]], "rowclass-no-fields": [["rowclass", [], True]],
        "dictframe-same": [["dictframe", names]], "dictframe-permuted": [["dictframe", ["b", "a"]]], "listframe-same": [["listframe", names]],
        "schemaframe-same-names": [["schemaframe", other, {"a": "str", "b": "int"}]],
        "schemaframe-permuted": [["schemaframe", [other[1], other[0]], {"a": "str", "b": "int"}]],
        "arrow-then-dicts": [["arrow", names, 1, True], ["rowclass", names, False]],
        "dicts-then-arrow": [["rowclass", names, False], ["arrow", names, 1, True]],
    }
    for tag, fs in features.items():
        between = [["feature", f] for f in fs]
        for how, rows in (("list", [["int", "str"]]), ("none", []), ("gen", [["int0", "empty"]]), ("arrow", [["int", "str"]]), ("arrow", [])):
            scripts = [
                # the other features first, then the frame
                (fs, [["append", 0, good], ["append", 0, bad], ["append", 0, good2], ["derive", 0, "head", [5]], ["append", 1, good2], ["append", 0, good]]),
            ]
            if fs:
                # the frame first; the other features between its appends and before frames are taken from it
                scripts.append(([], [["append", 0, good]] + between + [["append", 0, good2], ["derive", 0, "slice", []]] + between
                                + [["append", 1, good], ["append", 0, bad], ["derive", 1, "tail", [1]], ["append", 2, good2], ["append", 1, good2]]))
            for pre, ops in scripts:
                c = {"kind": "family", "cols": cols, "rows": rows, "ops": ops, "pristine": True}
                if how != "list":
                    c["how"] = how
                if pre:
                    c["pre"] = pre
                yield c
    # a frame made from an arrow table first, then a frame on a schema of its own with the same column names — and the other
    # way round — in one process
    arrow_first = {"kind": "appends", "cols": cols, "rows": [["int", "str"]], "how": "arrow", "records": [good, bad, good2]}
    for how2 in ("list", "none", "gen"):
        plain = {"kind": "appends", "cols": cols, "rows": [], "how": how2, "records": [good2, bad, good, {"a": "int"}]}
        yield {"kind": "multi", "cases": [arrow_first, plain], "pristine": True}
        yield {"kind": "multi", "cases": [plain, arrow_first], "pristine": True}
        yield {"kind": "multi", "cases": [arrow_first, dict(plain, cols=[cols[1], cols[0]])], "pristine": True}
    # the round trip of a frame through arrow, and a projection of it, between its appends
    for touch in ("arrow-roundtrip", "select", "group_by"):
        yield {"kind": "family", "cols": cols, "rows": [["int", "str"]], "pristine": True,
               "ops": [["touch", 0, touch], ["append", 0, good], ["derive", 0, "head", [5]], ["touch", 1, touch], ["append", 1, good2], ["append", 0, good2]]}


def defaults_table():
    """Schemas whose columns declare defaults (a default of every type kind, right and wrong for the column, falsy ones, on nullable
    and non-nullable columns, on one / some / all columns) x records that leave those columns out, give them, or give None:
    through validate and through append on frames created each way.  The statement knows no defaults."""
    for ty in TYPES + [None]:
        for nullable in (True, False):
            rights = RIGHT[ty] if ty else ["int", "str", "list"]
            other = {"c1": "int"}
            for dtag in list(rights) + ["str" if ty != "VARCHAR" else "int"]:
                cols = [["c0", ty, nullable, []], ["c1", "INTEGER", False, []]]
                for rec in ({"c1": "int"}, {"c0": rights[0], "c1": "int"}, {"c0": "none", "c1": "int"}, {}, {"c1": "int", "zz": "int"}):
                    yield {"kind": "validate", "cols": cols, "record": rec, "defaults": {"c0": dtag}}
                for how in ("list", "none", "gen"):
                    yield {"kind": "appends", "cols": cols, "rows": [], "how": how, "defaults": {"c0": dtag},
                           "records": [{"c0": rights[0], "c1": "int"}, {"c1": "int"}, {"c0": "none", "c1": "int"}, {"c1": "int"}, {}]}
    a, b, d = ["a", "VARCHAR", False, []], ["b", "VARCHAR", False, []], ["d", "INTEGER", True, []]
    full = {"a": "str", "b": "str", "d": "int"}
    for defaults in ({"b": "str"}, {"b": "empty"}, {"d": "int0"}, {"d": "int"}, {"b": "str", "d": "int0"}, {"a": "str", "b": "str", "d": "int"},
                     {"a": "empty", "b": "empty", "d": "int0"}, {"zz": "int"}):
        recs = [full, {"a": "str"}, {"a": "str", "b": "str"}, {"a": "str", "d": "int"}, {}, {"b": "str", "d": "int"}, {"a": "str", "zz": "int"}, full]
        for rec in recs:
            yield {"kind": "validate", "cols": [a, b, d], "record": rec, "defaults": defaults}
        for how in ("list", "none", "gen"):
            yield {"kind": "appends", "cols": [a, b, d], "rows": [["str", "str", "int"]] if how != "none" else [], "how": how, "records": recs, "defaults": defaults}
        for kind in ("UserDict", "OrderedDict", "MyMutableMapping", "mappingproxy"):
            yield {"kind": "appends", "cols": [a, b, d], "rows": [], "records": recs, "containers": {str(i): kind for i in range(len(recs))}, "defaults": defaults}
        for via in ("dict-roundtrip", "json-roundtrip", "deepcopy", "copy", "pickle", "sum"):
            yield {"kind": "appends", "cols": [a, b, d], "rows": [], "records": recs, "defaults": defaults, "via": via}
        yield {"kind": "bound", "cols": [a, b, d], "defaults": defaults,
               "ops": [["bind", []], ["append", 0, full], ["append", 0, {"a": "str"}], ["set", 1, ["b2", "VARCHAR", False, []]],
                       ["append", 0, {"a": "str", "d": "int"}], ["append", 0, {"a": "str", "b2": "str", "d": "int"}], ["add", ["b", "VARCHAR", True, []]],
                       ["append", 0, {"a": "str", "b2": "str", "d": "int"}]]}
        yield {"kind": "session", "cols": [a, b, d], "defaults": defaults,
               "ops": [["validate", full], ["validate", {"a": "str"}], ["frame", [], [full, {"a": "str"}, {"a": "str", "b": "str"}]], ["del", 2],
                       ["validate", {"a": "str"}], ["frame", [], [{"a": "str"}, {"a": "str", "b": "str"}], "none"]]}
        yield {"kind": "family", "cols": [a, b, d], "rows": [["str", "str", "int"]], "defaults": defaults,
               "ops": [["append", 0, {"a": "str"}], ["derive", 0, "head", [1]], ["append", 1, {"a": "str", "d": "int"}], ["append", 1, full]]}
        yield {"kind": "reuse", "cols": [a, b, d], "rows": [], "defaults": defaults, "objs": [["dict", dict(full)]],
               "ops": [["append", 0], ["drop", 0, "b"], ["validate", 0], ["append", 0], ["drop", 0, "d"], ["append", 0], ["put", 0, "b", "str"], ["append", 0]]}


def reuse_table():
    """One record object used, edited in place, used again: every kind of edit x validate / append before x validate / append after
    x record object x way the frame was created; runs of the same keys before the edit; two objects taking turns."""
    a, b = ["a", "INTEGER", False, ["id"]], ["b", "VARCHAR", True, []]
    full = {"a": "int", "b": "str"}
    edits = [
        [["put", 0, "comment", "str"]], [["put", 0, "id", "int"]], [["put", 0, "\x01int1", "int"]], [["put", 0, "A", "int"]],     # a key that is no column
        [["drop", 0, "b"]], [["drop", 0, "a"]], [["drop", 0, "a"], ["drop", 0, "b"]],                                           # a key removed
        [["put", 0, "a", "none"]], [["put", 0, "b", "none"]], [["put", 0, "a", "str"]], [["put", 0, "b", "int"]], [["put", 0, "a", "true"]],   # a value changed
        [["put", 0, "a", "bigint"], ["put", 0, "b", "empty"]],                                                                    # ... and still conforming
        [["drop", 0, "b"], ["put", 0, "comment", "str"]], [["put", 0, "comment", "str"], ["drop", 0, "comment"]],              # as many keys as before; undone
        [["drop", 0, "a"], ["put", 0, "a", "int"]],                                                                               # same keys, other order
        [["put", 0, "a", "int70"]],                                                                                               # cannot be sized any more
    ]
    for edit in edits:
        for first in (["validate"], ["append"], ["append", "append"], ["validate", "append"]):
            for again in (["validate"], ["append"], ["validate", "append"], ["append", "validate"]):
                for kind in ("dict", "UserDict", "OrderedDict"):
                    for how in ("list", "gen") if kind == "dict" else ("list",):
                        ops = [[f, 0] for f in first] + [list(e) for e in edit] + [[g, 0] for g in again]
                        # ... and the same verdicts once more, after the edit was taken back by starting over
                        ops += [["fresh", 0]] + [[g, 0] for g in again]
                        yield {"kind": "reuse", "cols": [a, b], "rows": [["int", "str"]] if how == "gen" else [], "how": how, "objs": [[kind, dict(full)]], "ops": ops}
    # a loader that fills one object again and again, then the object picks up / loses a key
    for n in (1, 2, 3, 5):
        for edit in edits[:8]:
            ops = []
            for i in range(n):
                ops += [["put", 0, "a", ["int", "int0", "bigint"][i % 3]], ["put", 0, "b", ["str", "empty", "none"][i % 3]], ["append", 0]]
            ops += [list(e) for e in edit] + [["validate", 0], ["append", 0], ["validate", 0]]
            yield {"kind": "reuse", "cols": [a, b], "rows": [], "how": "none", "objs": [["dict", dict(full)]], "ops": ops}
    # two objects taking turns; the second is edited while the first was the last one seen, and the other way round
    for edit in edits[:8]:
        for order in ([0, 1], [1, 0], [0, 1, 0], [1, 1, 0]):
            ops = [["append", i] for i in order] + [list(e) for e in edit] + [["validate", 0], ["append", 0], ["append", 1], ["validate", 1], ["append", 0]]
            yield {"kind": "reuse", "cols": [a, b], "rows": [], "objs": [["dict", dict(full)], ["dict", {"b": "str", "a": "int0"}]], "ops": ops}
    # an object that starts non-conforming and is repaired in place; an empty schema
    for start, fix in (({"a": "int"}, ["put", 0, "b", "str"]), ({"a": "int", "b": "str", "zz": "int"}, ["drop", 0, "zz"]), ({"a": "none", "b": "str"}, ["put", 0, "a", "int"])):
        for use in ("validate", "append"):
            yield {"kind": "reuse", "cols": [a, b], "rows": [], "objs": [["dict", start]], "ops": [[use, 0], fix, [use, 0], ["append", 0]]}
    yield {"kind": "reuse", "cols": [], "rows": [], "objs": [["dict", {}]], "ops": [["validate", 0], ["append", 0], ["put", 0, "zz", "int"], ["validate", 0], ["append", 0]]}


def session_table():
    """Use -> change -> use again, once for every way the column list of one schema object can change."""
    a, b, d = ["a", "INTEGER", False, ["id"]], ["b", "VARCHAR", True, []], ["d", "DOUBLE", True, []]
    full = {"a": "int", "b": "str"}
    with_d = {"a": "int", "b": "str", "d": "float"}
    only_a = {"a": "int"}
    changes = [
        (["add", d], with_d), (["insert", 0, d], with_d), (["insert", 1, d], with_d),
        (["del", 1], only_a), (["del", 0], {"b": "str"}), (["pop", "b"], only_a), (["pop", "zz"], full),
        (["replace", [a, b, d]], with_d), (["replace", [a]], only_a), (["replace", [b, a]], full), (["replace", []], {}),
        (["set", 1, ["d", "VARCHAR", True, []]], {"a": "int", "d": "str"}),            # rename
        (["set", 1, ["b", "INTEGER", True, []]], {"a": "int", "b": "int"}),             # retype
        (["set", 1, ["b", None, True, []]], {"a": "int", "b": "list"}),                 # untype
        (["set", 0, ["a", "INTEGER", True, ["id"]]], {"a": "none", "b": "str"}),        # nullable on
        (["set", 1, ["b", "VARCHAR", False, []]], full),                                # nullable off
        (["set", 0, ["a", "INTEGER", False, ["d", "zz"]]], full),                       # new aliases
        (["reverse"], full),
    ]
    probes = [full, with_d, only_a, {"a": "int", "b": "none"}, {"a": "none", "b": "str"}, {"a": "int", "b": "int"}, {"a": "int", "id": "int", "b": "str"}]
    for change, conforming in changes:
        for first in (full, with_d):
            for touch in (None, "deepcopy", "names"):
                ops = [["validate", first]]
                if touch:
                    ops.append(["touch", touch])
                ops.append(change)
                ops += [["validate", p] for p in probes + [conforming]]
                ops.append(["frame", [], [conforming, full, with_d, only_a], "none"])
                yield {"kind": "session", "cols": [a, b], "ops": ops}
        # the first use is an append through a frame
        yield {"kind": "session", "cols": [a, b], "ops": [["frame", [], [full, with_d]], change, ["frame", [], [conforming, full, with_d, only_a]],
                                                        ["validate", conforming], ["validate", full], ["validate", with_d]]}
    # two changes that undo each other, and state the verdict must not depend on
    for touch in TOUCHES:
        yield {"kind": "session", "cols": [a, b], "ops": [["validate", full], ["touch", touch], ["validate", full], ["validate", with_d],
                                                        ["add", d], ["touch", touch], ["validate", with_d], ["validate", full], ["del", 2], ["validate", full],
                                                        ["validate", with_d], ["frame", [["int", "str"]], [full, with_d]]]}


def run(ctx):
    ctx.note("rule", "validate(record object), append histories on schema-bound and dictionary-built frames, sessions on one schema object (use, change, use again) and families of frames derived from one another (appends to any of them); non-trivial = schema with at least one column, a session or a family; distinct by canonical JSON")
    cases = list(decision_table()) + list(kinds_table())
    n_dec = len(cases)
    sess = list(session_table())
    fam = list(family_table())
    proc = list(process_table())
    routes = list(routes_table())
    sizes = list(sizes_table())
    bound = list(bound_table())
    dups = list(dup_table())
    dflt = list(defaults_table())
    reuse = list(reuse_table())
    cases += sess + fam + proc + routes + sizes + dups + bound + dflt + reuse
    evaluate(ctx, cases)
    ctx.note("reuse_scope", "one record object used, edited in place by its owner, used again: every kind of edit (a key that is no column — a plain name, an alias, a non-string key, the name in another case —, a key removed, a value set to None / to another class / to another value of the same class / to one that cannot be sized, as many keys as before, an edit that is undone, the same keys in another order) x validate / append before x validate / append after x dict / UserDict / OrderedDict x frame created from a list / None / a generator; a loader refilling one object n times before the edit; two objects taking turns; an object repaired in place (%d cases); every use is judged from scratch against what the object says at that moment, and once more on a new object that says the same" % len(reuse))
    ctx.note("defaults_scope", "schemas whose columns declare defaults: every column type (and untyped) x nullable x a default of each value of the type's class, a wrongly typed one, falsy ones (0, '', False, [], -0.0), on one / some / all columns and on no column of the schema x records that omit those columns, give them, give None, are empty, carry an excess key: through validate, through append on frames created each way, with other record objects, on schemas made by six routes, on bound frames, sessions, families and reused record objects (%d cases); the statement knows no defaults: every schema column must be present, and append must agree with validate" % len(dflt))
    ctx.note("bound_scope", "bound table: append (or read column_names / description / columncount off the frame, or nothing) -> the owner edits the shared schema (rename in place, swap names, reverse, add, insert, delete, pop, replace with as many / other / reordered / no columns, retype, edits that undo each other, a second column of an existing name) -> optionally read the frame's names again / read another frame's names / touch the schema -> append a record written for the schema as it is now, one written for the schema as it was, and the first with its keys reversed; x frame created from a list / None / a generator; two frames on the one schema with the edit between their appends (%d cases); every append is judged against the columns as they are at that moment" % len(bound))
    ctx.note("duplicate_names_scope", "schemas in which two or more columns bear one name (same type / different types / different nullability; made by the constructor and as the sum of two relations that share a column name) x conforming, reordered, all-null, one key missing, excess key, wrong type, null in the shared name through validate and through append on frames created from a list / None / a generator and with other record objects (%d cases); the stored row must have one value per column, in column order" % len(dups))
    ctx.note("sizes_scope", "sizes: schemas (and records) of 5 … 1000 columns at and around every power of two x conforming / each offence at the first, second, middle, last-but-one and last column / an excess key first or last / three offences far apart, through validate and append; frames that already hold 99 / 100 / 101 / 999 / 1000 / 1001 rows (list, generator, arrow) with appends and derivations; append histories of 100 … 1000 records; 300 appends alternating between two frames (%d cases)" % len(sizes))
    ctx.note("routes_scope", "schema routes: the schema made by its constructor / with type names / through to_dict-from_dict / to_json-from_json / copy / deepcopy / pickle / with ConstantColumn or FunctionColumn columns / as the sum of two schemas / from an arrow schema x every column type x nullable x right, null and wrong values, every subset of the four offences, appends to frames created each way, a family and a session (%d cases); judged against the columns the schema object has" % len(routes))
    ctx.note("process_scope", "process table: every other way the library is asked for a row class (arrow table read with the same / permuted / fewer / more / re-cased column names, the arrow reader alone, Row.create_class with and without tuples_only in both orders, frames built from dictionaries / on a list of names / on another schema with equally named columns) before the frame is made and between its appends and derivations x frame created from a list / None / a generator / an arrow table; an arrow-made frame and a schema-made frame with the same column names in one process, in both orders (%d cases, each run in a process of its own: a forked child of a process that has imported the library and used nothing of it); random families with such features on column names unique to the case (in this process) and with the plain names (in a process of their own)" % len(proc))
    ctx.note("family_scope", "family table: a root frame of 0..3 rows created from a list / None / a generator x every way of taking a frame from it (head, tail, slice at, one below and one past the size of the parent, with and without a length, negative offsets; query, distinct, filter and take with masks / indexes longer than the frame, to_batches, +) x four scripts (append to the parent, to the child, read the child in between, a chain of three frames) (%d cases); every record object (dict, OrderedDict, defaultdict, UserDict, a dict subclass, Counter, ChainMap, a custom MutableMapping; MappingProxyType, a custom read-only Mapping, a duck-typed look-alike; a list of pairs, dict_items, the values as a tuple, a Row, a namedtuple, None) through validate and through append on frames created each way" % len(fam))
    ctx.note("exhaustive_scope", "decision table: every column type (and untyped) x nullable x every value of the pool (subclasses, numpy scalars, unhashable and nested values, 64-bit limits), every subset of {missing, null, wrong type, excess} in two key orders and three record containers, record keys that are not strings or differ from a name in case / normal form / a trailing space, the row serialiser's limits for each way a frame is created (%d cases); session table: use -> change -> use again for every way the column list of one schema object can change x first use x state touched in between (%d cases); then random schemas, records, append histories and sessions" % (n_dec, len(sess)))
    n = ctx.scale(40000, 500000)
    done = 0
    while done < n and ctx.time_left() > 5:
        batch = []
        for _ in range(1500):
            r = ctx.rng.random()
            batch.append(gen_validate(ctx.rng) if r < 0.28 else gen_appends(ctx.rng) if r < 0.43 else gen_reuse(ctx.rng) if r < 0.51
                         else gen_session(ctx.rng) if r < 0.67 else gen_bound(ctx.rng) if r < 0.77
                         else gen_family(ctx.rng) if r < 0.90 else gen_family(ctx.rng, process=True) if r < 0.96 else gen_dictframe(ctx.rng))
        evaluate(ctx, batch)
        done += len(batch)
    # random families that use other features of the library, each in a process of its own
    n_own = ctx.scale(250, 4000)
    done = 0
    while done < n_own and ctx.time_left() > 5:
        batch = [dict(gen_family(ctx.rng, process=True, unique=False), pristine=True) for _ in range(min(250, n_own - done))]
        evaluate(ctx, batch)
        done += len(batch)
    ctx.note("own_process_runs", PRISTINE.runs)
    ctx.note("schema_helpers_that_raised_in_a_session", dict(TOUCH_RAISED))
    ctx.note("defaults_assigned_after_the_constructor_refused_them", {str(k_): v_ for k_, v_ in DEFAULT_SET_AFTERWARDS.items()})
    PRISTINE.stop()
    # the record-size limit of the row serialiser: a conforming record whose packed values take at most 16 MiB — the limit the
    # library states ("Record length cannot exceed 16Mb") — must be stored; past it the append may be refused, atomically
    run_size_cases(ctx)


MiB = 1024 * 1024
STATED_LIMIT = 16 * MiB   # "Record length cannot exceed 16Mb" (orso/row.py)
# tag -> (class, length): one value of that length; the packed record of a one-column row is 6 bytes longer
BIG_TAGS = {"at-cap": (str, STATED_LIMIT - 6), "past-cap": (str, STATED_LIMIT - 5), "huge": (str, 17 * MiB), "over-half": (str, 8 * MiB - 5),
            "blob-at-cap": (bytes, STATED_LIMIT - 6), "blob-12M": (bytes, 12 * MiB)}
WITHIN_LIMIT = "append of a conforming record whose packed values take at most 16 MiB (the limit the library states) was refused"


def big_value(tag):
    cls, n = BIG_TAGS[tag]
    return "x" * n if cls is str else b"\x00" * n


def size_cases():
    yield {"kind": "appends", "cols": [["c0", "VARCHAR", True]], "rows": [], "records": [{"c0": "str"}, {"c0": "over-half"}, {"c0": "at-cap"}, {"c0": "past-cap"}, {"c0": "empty"}]}
    yield {"kind": "appends", "cols": [["c0", "BLOB", False]], "rows": [], "how": "none", "records": [{"c0": "blob-12M"}, {"c0": "blob-at-cap"}, {"c0": "bytes"}],
           "containers": {"1": "UserDict"}}
    yield {"kind": "appends", "cols": [["c0", "VARCHAR", True]], "rows": [["str"]], "how": "gen", "records": [{"c0": "huge"}, {"c0": "at-cap"}]}


def run_size_cases(ctx):
    for big in size_cases():
        clause, got = run_appends_huge(big)
        ctx.case(dict(big, kind="appends-at-the-size-limit"), True)
        for tags, res, n in zip(big["records"], got["results"], got["packed"]):
            for t in tags.values():
                if t in BIG_TAGS:
                    ctx.hit("record-size:%s:%s" % (t, "accepted" if res == ["ok"] else "refused"))
        if clause:
            # the fewest records that show it: one alone, or one after an ordinary one
            for i, rec in enumerate(big["records"]):
                small = {k: v for k, v in big.items() if k != "containers"}
                small["records"] = [rec]
                if str(i) in (big.get("containers") or {}):
                    small["containers"] = {"0": big["containers"][str(i)]}
                c2, g2 = run_appends_huge(small)
                if c2 == clause:
                    big, got = small, g2
                    break
            ctx.fail(big, clause, impl={k: got[k] for k in ("results", "packed")})
            continue
        # the model decides with the constant and the guard taken from the source
        for t in BIG_TAGS:
            POOL[t] = big_value(t)[:1]   # only the class of the value travels
        try:
            names = [c[0] for c in big["cols"]]
            recs = []
            for i, (tags, n) in enumerate(zip(big["records"], got["packed"])):
                kind = (big.get("containers") or {}).get(str(i), "dict")
                recs.append([m_rec(tags), [True, n], kind_flags(record_of(tags, kind, names))])
            line = "C05 appends " + wire.line([norm_col(c) for c in big["cols"]], m_rows(big["rows"]), recs)
        finally:
            for t in BIG_TAGS:
                POOL.pop(t, None)
        mo = ctx.model.batch([line])[0]
        if not mo.startswith("ok "):
            raise InfraError("model rejected %r: %r" % (big, mo))
        m = wire.dec_all(mo[3:])
        if m[0] != got["rows"] or not results_agree(m[2], got["results"]):
            ctx.disagree(big, {k: got[k] for k in ("rows", "results", "packed")}, m)


def run_appends_huge(case):
    """appends of records that hold one very long value; `packed` = the length of the packed values, measured here"""
    import ormsgpack

    big = sorted({t for r in case["records"] for t in r.values() if t in BIG_TAGS})
    for t in big:
        POOL[t] = big_value(t)
    try:
        schema = make_schema(case["cols"])
        cols = [norm_col(c) for c in case["cols"]]
        init = [tuple(POOL[t] for t in row) for row in case["rows"]]
        df = make_frame(schema, init, case.get("how", "list"))
        clause, results, packed, held = None, [], [], list(init)
        for i, tags in enumerate(case["records"]):
            rec = record_of(tags, (case.get("containers") or {}).get(str(i), "dict"), [c[0] for c in cols])
            want = expected(cols, plain_record(tags))
            n = len(ormsgpack.packb(tuple(plain_record(tags).get(c[0]) for c in cols)))
            packed.append(n)
            before = None if not isinstance(df._rows, list) else list(df._rows)
            try:
                df.append(rec)
                raised = None
            except Exception as e:
                raised = e
            df.materialize()
            after = list(df._rows)
            if raised is None:
                results.append(["ok"])
                row = tuple(plain_record(tags).get(c[0]) for c in cols)
                if len(after) != len(held) + 1:
                    clause = clause or "append did not add exactly one row"
                elif want[0] != "ok":
                    clause = clause or "append accepted a non-conforming record"
                elif len(after[-1]) != len(row) or not all(a is b or (type(a) is type(b) and a == b) for a, b in zip(after[-1], row)):
                    clause = clause or "appended row does not hold the values in column order"
                held.append(row)
            else:
                got = outcome_of_exception(raised)
                results.append(["rejected", got] if got[0] in ("excess", "invalid") else ["raised", type(raised).__name__])
                if len(after) != len(held) or (before is not None and any(a is not b for a, b in zip(after, before))):
                    clause = clause or "append raised but changed the frame's rows"
                if want[0] == "ok" and n <= STATED_LIMIT:
                    clause = clause or WITHIN_LIMIT
        return clause, {"rows": abstract_rows([tuple(r) for r in df._rows]), "results": results, "packed": packed}
    finally:
        for t in big:
            POOL.pop(t, None)


def intensify(ctx):
    for _ in range(5):
        evaluate(ctx, [gen_validate(ctx.rng) for _ in range(2000)] + [gen_appends(ctx.rng) for _ in range(1000)]
                 + [gen_session(ctx.rng) for _ in range(1500)] + [gen_dictframe(ctx.rng) for _ in range(100)]
                 + [gen_bound(ctx.rng) for _ in range(1500)] + [gen_reuse(ctx.rng) for _ in range(1500)]
                 + [gen_family(ctx.rng) for _ in range(1500)] + [gen_family(ctx.rng, process=True) for _ in range(500)]
                 + [dict(gen_family(ctx.rng, process=True, unique=False), pristine=True) for _ in range(150)])
        if ctx.violations:
            return


def replay(ctx, case):
    big = [t for r in case.get("records", []) if isinstance(r, dict) for t in r.values() if t in BIG_TAGS]
    if big:
        clause, got = run_appends_huge(case)
        if clause:
            ctx.fail(case, clause, impl={k: got[k] for k in ("results", "packed")})
        return
    if not case.get("kind"):  # replays written by round 1 shrank the kind away
        case = dict(case, kind="appends" if "records" in case else "validate")
    evaluate(ctx, [case])


KNOWN_PREDICATES = {}


if __name__ == "__main__":
    # isolated evaluation of a list of cases (JSON on stdin) in a fresh interpreter: prints the list of their clauses
    import json
    import sys

    from harness import runner
    from harness.core import unjson

    if "--forkserver" in sys.argv:
        forkserver()
        sys.exit(0)
    runner.setup_impl_path()
    out = []
    for case_ in unjson(json.load(sys.stdin)):
        try:
            out.append(RUNNERS[case_["kind"]](case_)[0])
        except Exception as e_:
            out.append("error: %s" % type(e_).__name__)
    print(json.dumps(out))
