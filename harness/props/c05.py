"""C05 — Validation accepts exactly conforming records; append is atomic.

Values travel to the model as their class name (or None); the oracle is the statement's four
clauses evaluated directly with isinstance against the natural class of each column type.
"""
import datetime
import decimal
import itertools
import warnings

from .. import wire
from ..core import InfraError, shrink

# the Python class each column type stands for (the statement: "an instance of its column type's Python class")
EXPECTED_CLASS = {
    "BOOLEAN": bool, "INTEGER": int, "DOUBLE": float, "DECIMAL": decimal.Decimal, "VARCHAR": str, "BLOB": bytes,
    "DATE": datetime.date, "TIMESTAMP": datetime.datetime, "TIME": datetime.time, "INTERVAL": datetime.timedelta,
    "ARRAY": list, "STRUCT": dict, "JSONB": bytes,
}
TYPES = sorted(EXPECTED_CLASS)

# value pool: tag -> value. Tags keep cases JSON-serialisable.
POOL = {
    "none": None, "true": True, "false": False, "int0": 0, "int": -5, "bigint": 2**40, "float": 1.5, "nan": float("nan"),
    "str": "text", "empty": "", "bytes": b"\x00\xff", "date": datetime.date(2024, 2, 29),
    "datetime": datetime.datetime(2024, 2, 29, 12, 30, 1), "time": datetime.time(1, 2, 3),
    "timedelta": datetime.timedelta(days=1, seconds=5), "dict": {"k": 1}, "decimal": decimal.Decimal("1.50"),
    "list": [1, 2], "tuple": (1, 2), "set": {1},
    # accepted by validation, rejected when the row is sized (atomicity of append)
    "int70": 2**70,
}
RIGHT = {
    "BOOLEAN": ["true", "false"], "INTEGER": ["int", "int0", "bigint", "true"], "DOUBLE": ["float", "nan"],
    "DECIMAL": ["decimal"], "VARCHAR": ["str", "empty"], "BLOB": ["bytes"], "DATE": ["date", "datetime"],
    "TIMESTAMP": ["datetime"], "TIME": ["time"], "INTERVAL": ["timedelta"], "ARRAY": ["list"], "STRUCT": ["dict"],
    "JSONB": ["bytes"],
}


def cls_name(v):
    return None if v is None else type(v).__name__


def make_schema(cols):
    from orso.schema import FlatColumn, RelationSchema
    from orso.types import OrsoTypes

    out = []
    with warnings.catch_warnings():
        warnings.simplefilter("ignore")
        for name, ty, nullable in cols:
            # every column also carries aliases: a record key equal to an alias is NOT the column's name
            kw = {"aliases": ["alias_" + name, name.upper() + "_aka"]}
            if ty is None:
                out.append(FlatColumn(name=name, nullable=nullable, **kw))
            else:
                out.append(FlatColumn(name=name, type=OrsoTypes[ty], nullable=nullable, **kw))
    return RelationSchema(name="t", columns=out)


def record_of(tags):
    return {k: POOL[t] for k, t in tags.items()}


def expected(cols, rec):
    """The statement, evaluated directly."""
    names = [c[0] for c in cols]
    excess = sorted(k for k in rec if k not in names)
    if excess:
        return ["excess", excess]
    missing = [n for n, _, _ in cols if n not in rec]
    nulls = [n for n, _, nl in cols if n in rec and rec[n] is None and not nl]
    wrong = [n for n, ty, _ in cols if n in rec and rec[n] is not None and ty is not None
             and not isinstance(rec[n], EXPECTED_CLASS[ty])]
    if missing or nulls or wrong:
        return ["invalid", missing, nulls, wrong]
    return ["ok"]


def impl_validate(schema, rec):
    from orso.exceptions import DataValidationError, ExcessColumnsInDataError

    try:
        r = schema.validate(dict(rec))
        return ["ok"] if r is True else ["returned", repr(r)]
    except ExcessColumnsInDataError as e:
        return ["excess", sorted(e.columns)]
    except DataValidationError as e:
        err = e.errors
        known = {"Column in Schema Not Found in Record", "Column not Nullable", "Incorrect Type"}
        if set(err) - known:
            return ["raised", "DataValidationError with unknown keys %r" % sorted(set(err) - known)]
        return ["invalid", list(err.get("Column in Schema Not Found in Record", [])),
                list(err.get("Column not Nullable", [])), [t[0] for t in err.get("Incorrect Type", [])]]
    except Exception as e:
        return ["raised", type(e).__name__]


def model_cols(cols):
    return [[n, ty, bool(nl)] for n, ty, nl in cols]


def run_validate(case):
    schema = make_schema(case["cols"])
    rec = record_of(case["record"])
    got = impl_validate(schema, rec)
    want = expected(case["cols"], rec)
    clause = None
    if got != want:
        if want[0] == "ok":
            clause = "a conforming record was rejected"
        elif got[0] == "ok":
            clause = "a non-conforming record was accepted"
        elif got[0] != want[0]:
            clause = "wrong kind of validation error (%s instead of %s)" % (got[0], want[0])
        else:
            clause = "the error does not name precisely the offending columns"
    return clause, got


def run_appends(case):
    from orso import DataFrame
    from orso.exceptions import DataError

    cols = case["cols"]
    schema = make_schema(cols)
    init = [tuple(POOL[t] for t in row) for row in case["rows"]]
    df = DataFrame(rows=list(init), schema=schema)
    held = list(init)
    clause = None
    outcomes = []
    for tags in case["records"]:
        rec = record_of(tags)
        want = expected(cols, rec)
        before = list(df._rows)
        try:
            df.append(dict(rec))
            raised = None
        except Exception as e:
            raised = e
        after = list(df._rows)
        if raised is not None:
            outcomes.append("raised:" + type(raised).__name__)
            if len(after) != len(before) or any(a is not b for a, b in zip(after, before)):
                clause = clause or "append raised but changed the frame's rows"
            if want[0] == "ok":
                # accepted by validation but the row could not be stored (e.g. cannot be sized): allowed only if atomic
                if not any(t in ("int70",) for t in tags.values()):
                    clause = clause or "append of a conforming record raised %s" % type(raised).__name__
            elif not isinstance(raised, DataError):
                clause = clause or "append of a non-conforming record raised %s, not a validation error" % type(raised).__name__
        else:
            outcomes.append("ok")
            if want[0] != "ok":
                clause = clause or "append accepted a non-conforming record"
            row = tuple(rec.get(n) for n, _, _ in cols)
            if len(after) != len(before) + 1 or any(a is not b for a, b in zip(after, before)):
                clause = clause or "append did not add exactly one row"
            elif not wire_eq(tuple(after[-1]), row):
                clause = clause or "appended row does not hold the values in column order"
            held.append(row)
    final = [tuple(r) for r in df._rows]
    if clause is None and (len(final) != len(held) or not all(wire_eq(a, b) for a, b in zip(final, held))):
        clause = "the frame does not hold exactly the accepted records, in order"
    if clause is None:
        for r in final:
            for (n, ty, nl), v in zip(cols, r):
                if v is None and not nl:
                    clause = "a stored row has a null in a non-nullable column"
                if v is not None and ty is not None and not isinstance(v, EXPECTED_CLASS[ty]):
                    clause = "a stored row has a wrongly typed value"
    abstract = [[cls_name(v) for v in r] for r in final]
    return clause, {"outcomes": outcomes, "rows": abstract}


def wire_eq(a, b):
    if len(a) != len(b):
        return False
    for x, y in zip(a, b):
        if x is y:
            continue
        if type(x) is not type(y):
            return False
        if x != y and not (x != x and y != y):
            return False
    return True


def model_line(case):
    if case["kind"] == "validate":
        rec = {k: cls_name(POOL[t]) for k, t in case["record"].items()}
        return "C05 validate " + wire.line(model_cols(case["cols"]), rec)
    rows = [[cls_name(POOL[t]) for t in row] for row in case["rows"]]
    recs = [{k: cls_name(POOL[t]) for k, t in r.items()} for r in case["records"]]
    return "C05 appends " + wire.line(model_cols(case["cols"]), rows, recs)


def valid_case(c):
    try:
        names = [x[0] for x in c["cols"]]
        if len(set(names)) != len(names):
            return False
        for n, ty, nl in c["cols"]:
            if not isinstance(n, str) or not (ty is None or ty in EXPECTED_CLASS) or not isinstance(nl, bool):
                return False
        if c["kind"] == "validate":
            return all(t in POOL for t in c["record"].values())
        if any(len(r) != len(names) for r in c["rows"]):
            return False
        for r in c["rows"]:  # initial rows must conform
            for (n, ty, nl), t in zip(c["cols"], r):
                v = POOL[t]
                if (v is None and not nl) or (v is not None and ty is not None and not isinstance(v, EXPECTED_CLASS[ty])) or t == "int70":
                    return False
        return all(all(t in POOL for t in r.values()) for r in c["records"])
    except Exception:
        return False


def evaluate(ctx, cases):
    mouts = ctx.model.batch([model_line(c) for c in cases])
    for c, mo in zip(cases, mouts):
        if not mo.startswith("ok "):
            raise InfraError("model rejected %r: %r" % (c, mo))
        m = wire.dec_all(mo[3:])
        fn = run_validate if c["kind"] == "validate" else run_appends
        clause, got = fn(c)
        ctx.case(c, nontrivial=len(c["cols"]) >= 1)
        ctx.hit("kind:" + c["kind"])
        if c["kind"] == "validate":
            ctx.hit("outcome:" + got[0])
            if got[0] == "invalid":
                ctx.hit("rules-fired:%d" % sum(1 for x in got[1:] if x))
        if clause is not None:
            def still(c2):
                if not valid_case(c2):
                    return False
                try:
                    return fn(c2)[0] == clause
                except Exception:
                    return False

            c_min = c if ctx.replaying else shrink(c, still, budget=300)
            ctx.fail(c_min, clause, impl=fn(c_min)[1], model=m)
            continue
        if c["kind"] == "validate":
            mm = m[0]
            if mm[0] == "excess":
                mm = ["excess", sorted(mm[1])]
            if mm != got:
                ctx.disagree(c, got, m[0])
        else:
            # the model knows nothing about rows that validate but cannot be sized: compare when none was used
            if not any(t == "int70" for r in c["records"] for t in r.values()):
                if m[0] != got["rows"]:
                    ctx.disagree(c, got, m)


# ----------------------------------------------------------------------------- generators


def gen_cols(rng, n=None):
    n = rng.randint(0, 4) if n is None else n
    cols = []
    for i in range(n):
        ty = None if rng.random() < 0.2 else rng.choice(TYPES)
        cols.append(["c%d" % i, ty, rng.random() < 0.5])
    return cols


def gen_record_tags(rng, cols, p_valid=0.5):
    tags = {}
    valid = rng.random() < p_valid
    for n, ty, nl in cols:
        r = rng.random()
        if not valid and r < 0.18:
            continue  # missing
        if (valid and nl and r < 0.3) or (not valid and r < 0.36):
            tags[n] = "none"
        elif valid or r < 0.7:
            tags[n] = rng.choice(RIGHT[ty]) if ty else rng.choice(list(POOL)[:-1])
        else:
            tags[n] = rng.choice(list(POOL)[:-1])
    if not valid and rng.random() < 0.3:
        extra = rng.choice(["zz", "extra", "C0"] + (["alias_" + cols[0][0], cols[-1][0].upper() + "_aka"] if cols else []))
        tags[extra] = rng.choice(list(POOL)[:-1])
    items = list(tags.items())
    rng.shuffle(items)
    return dict(items)


def gen_validate(rng):
    cols = gen_cols(rng)
    return {"kind": "validate", "cols": cols, "record": gen_record_tags(rng, cols)}


def gen_appends(rng):
    cols = gen_cols(rng, rng.randint(1, 4))
    rows = []
    for _ in range(rng.choice([0, 0, 1, 2])):
        rows.append([("none" if (nl and rng.random() < 0.3) else (rng.choice(RIGHT[ty]) if ty else rng.choice(["int", "str", "list"])))
                     for _, ty, nl in cols])
    recs = [gen_record_tags(rng, cols, 0.6) for _ in range(rng.randint(1, 6))]
    if rng.random() < 0.15:
        ints = [n for n, ty, _ in cols if ty in ("INTEGER", None)]
        if ints:
            r = gen_record_tags(rng, cols, 1.0)
            r[ints[0]] = "int70"
            recs.insert(rng.randint(0, len(recs)), r)
    return {"kind": "appends", "cols": cols, "rows": rows, "records": recs}


def decision_table():
    """Every column type x nullable x every value of the pool; and all subsets of {missing,null,wrong,excess}."""
    for ty in TYPES + [None]:
        for nl in (False, True):
            for tag in list(POOL)[:-1]:
                yield {"kind": "validate", "cols": [["c0", ty, nl]], "record": {"c0": tag}}
            yield {"kind": "validate", "cols": [["c0", ty, nl]], "record": {}}
    cols = [["m", "INTEGER", True], ["n", "VARCHAR", False], ["w", "DOUBLE", True], ["u", None, True]]
    for missing, null, wrong, excess in itertools.product([0, 1], repeat=4):
        rec = {"u": "list"}
        if not missing:
            rec["m"] = "int"
        rec["n"] = "none" if null else "str"
        rec["w"] = "int" if wrong else "float"
        if excess:
            rec["zz" if (missing + null) % 2 == 0 else "alias_m"] = "int"
        for order in (list(rec.items()), list(reversed(list(rec.items())))):
            yield {"kind": "validate", "cols": cols, "record": dict(order)}


def run(ctx):
    ctx.note("rule", "validate(record) and append histories on schema-bound frames; non-trivial = schema with at least one column; distinct by canonical JSON")
    cases = list(decision_table())
    evaluate(ctx, cases)
    ctx.note("exhaustive_scope", "decision table: every column type (and untyped) x nullable x every value kind of the pool, plus every subset of {missing, null, wrong type, excess} in two key orders (%d cases); then random schemas, records and append histories" % len(cases))
    n = ctx.scale(6000, 80000)
    done = 0
    while done < n and ctx.time_left() > 5:
        batch = [gen_validate(ctx.rng) if ctx.rng.random() < 0.6 else gen_appends(ctx.rng) for _ in range(2000)]
        evaluate(ctx, batch)
        done += len(batch)
    # one append that passes validation but exceeds the record size cap (slow: kept to a single case)
    big = {"kind": "appends", "cols": [["c0", "VARCHAR", True]], "rows": [], "records": [{"c0": "str"}, {"c0": "huge"}, {"c0": "empty"}]}
    POOL["huge"] = "x" * (17 * 1024 * 1024)
    try:
        clause, got = run_appends_huge(big)
        ctx.case({"kind": "appends-huge"}, True)
        if clause:
            ctx.fail(big, clause, impl=got)
    finally:
        POOL.pop("huge", None)


def run_appends_huge(case):
    from orso import DataFrame

    schema = make_schema(case["cols"])
    df = DataFrame(rows=[], schema=schema)
    n_ok = 0
    clause = None
    for tags in case["records"]:
        before = len(df._rows)
        try:
            df.append(record_of(tags))
            n_ok += 1
            if len(df._rows) != before + 1:
                clause = "append did not add exactly one row"
        except Exception:
            if len(df._rows) != before:
                clause = "append raised but changed the frame's rows"
    return clause, {"rows": len(df._rows), "accepted": n_ok}


def intensify(ctx):
    for _ in range(5):
        evaluate(ctx, [gen_validate(ctx.rng) for _ in range(3000)] + [gen_appends(ctx.rng) for _ in range(1000)])
        if ctx.violations:
            return


def replay(ctx, case):
    if any(t == "huge" for r in case.get("records", []) for t in (r.values() if isinstance(r, dict) else [])):
        POOL["huge"] = "x" * (17 * 1024 * 1024)
        try:
            clause, got = run_appends_huge(case)
            if clause:
                ctx.fail(case, clause, impl=got)
        finally:
            POOL.pop("huge", None)
        return
    evaluate(ctx, [case])


KNOWN_PREDICATES = {}
