"""C03 — DataFrame operators agree with a list-of-tuples model.

Programs of operators (each applied to the base frame or to the result of an earlier
operator) are run on orso.DataFrame, on Model/Frame.lean (through the driver) and on a
plain-Python mirror of the list specification.  implementation vs. mirror = the oracle;
implementation vs. Lean model = correspondence; Lean model vs. mirror = harness self-check.
"""
import itertools

from .. import wire
from ..core import InfraError, shrink

FRAME_OPS = ("head", "tail", "slice", "filter", "take", "query", "select", "distinct", "add")
LAZY_RESULT = ("filter", "take", "select")  # generator-backed results
CONSUMES_LAZY_SOURCE = ("filter", "take", "query", "select", "distinct")  # iterate _rows without materialising


# ----------------------------------------------------------------------------- mirror (the list spec)


def m_pred(p):
    if p[0] == "true":
        return lambda r: True
    if p[0] == "false":
        return lambda r: False
    if p[0] == "eq":
        return lambda r: p[1] < len(r) and r[p[1]] == p[2]
    if p[0] == "ne":
        return lambda r: not (p[1] < len(r) and r[p[1]] == p[2])
    raise InfraError("bad predicate")


def mirror_step(res, op):
    k = op[0]
    f = res[op[1]]
    if f[0] != "frame":
        raise InfraError("source is not a frame")
    names, typed, rows = f[1], f[2], f[3]
    n = len(rows)
    if k == "head":
        return ["frame", names, typed, rows[: op[2]]]
    if k == "tail":
        kk = min(op[2], n)
        return ["frame", names, typed, rows[n - kk :]]
    if k == "slice":
        o, l = op[2], op[3]
        start = o if o >= 0 else max(n + o, 0)
        return ["frame", names, typed, rows[start:] if l is None else rows[start : start + l]]
    if k == "filter":
        return ["frame", names, typed, [r for r, m in zip(rows, op[2]) if m]]
    if k == "take":
        return ["frame", names, typed, [r for i, r in enumerate(rows) if i in op[2]]]
    if k == "query":
        p = m_pred(op[2])
        return ["frame", names, typed, [r for r in rows if p(r)]]
    if k == "select":
        hdr = [a for a in op[2] if a in names]
        idx = [names.index(a) for a in hdr]
        return ["frame", hdr, False, [[r[i] for i in idx] for r in rows]]
    if k == "distinct":
        out = []
        for r in rows:
            if r not in out:
                out.append(r)
        return ["frame", names, typed, out]
    if k == "add":
        g = res[op[2]]
        if names != g[1] or typed != g[2]:
            return ["err", "ValueError"]
        return ["frame", names, typed, rows + g[3]]
    if k == "batches":
        return ["val", [rows[i : i + op[2]] for i in range(0, n, op[2])]]
    if k == "collect":
        cols = []
        for c in op[2]:
            if isinstance(c, str):
                if c not in names:
                    return ["err", "ValueError"]
                cols.append(names.index(c))
            else:
                cols.append(c)
        lim = n if op[3] is None or op[3] < 0 else min(op[3], n)
        if n == 0 or not cols:
            return ["val", [[] for _ in cols]]
        if any(c < 0 or c >= len(names) for c in cols):
            return ["err", "IndexError"]
        return ["val", [[r[c] for r in rows[:lim]] for c in cols]]
    if k == "row":
        i = op[2]
        if i < -n or i >= n:
            return ["err", "IndexError"]
        return ["val", rows[i]]
    if k == "len":
        return ["val", n]
    raise InfraError("bad op " + repr(op))


def run_mirror(case):
    res = [["frame", list(case["names"]), bool(case["typed"]), [list(r) for r in case["rows"]]]]
    for op in case["ops"]:
        if op[0] == "append":  # in-place: only the target frame changes
            f = res[op[1]]
            res[op[1]] = ["frame", f[1], f[2], f[3] + [list(op[2])]]
            res.append(["val", None])
        else:
            res.append(mirror_step(res, op))
    return res


# ----------------------------------------------------------------------------- implementation


def i_pred(p):
    if p[0] == "true":
        return lambda r: True
    if p[0] == "false":
        return lambda r: False
    if p[0] == "eq":
        return lambda r: r[p[1]] == p[2]
    if p[0] == "ne":
        return lambda r: r[p[1]] != p[2]
    raise InfraError("bad predicate")


def tolist(x):
    import numpy

    if isinstance(x, numpy.ndarray):
        return [tolist(v) for v in x.tolist()] if x.dtype != object else [tolist(v) for v in x]
    if isinstance(x, (tuple, list)):
        return [tolist(v) for v in x]
    if isinstance(x, numpy.generic):
        return x.item()
    return x


def make_base(case):
    from orso import DataFrame
    from orso.schema import FlatColumn, RelationSchema

    rows = [tuple(r) for r in case["rows"]]
    if case["typed"]:
        schema = RelationSchema(name="t", columns=[FlatColumn(name=n, type="INTEGER") for n in case["names"]])
    else:
        schema = list(case["names"])
    if case["lazy"]:
        return DataFrame(rows=(r for r in rows), schema=schema)
    return DataFrame(rows=list(rows), schema=schema)


def run_impl(case):
    """Returns per step ('frame', df) / ('val', v) / ('err', cls) plus bookkeeping for reading frames."""
    frames = [("frame", make_base(case))]
    lazy = [bool(case["lazy"])]  # backed by a generator that has not been materialised
    spent = [False]
    snapshots = {}  # index -> copy of rows, for materialised frames
    if not case["lazy"]:
        snapshots[0] = [list(r) for r in frames[0][1]._rows]
    for op in case["ops"]:
        k = op[0]
        si = op[1]
        df = frames[si][1]
        srcs = [si] + ([op[2]] if k == "add" else [])
        if any(frames[s_][0] != "frame" for s_ in srcs):
            # an earlier step failed on the implementation (already reported there)
            frames.append(("err", "SourceUnavailable"))
            lazy.append(False)
            spent.append(False)
            continue
        was_lazy = {s_: not isinstance(frames[s_][1]._rows, list) for s_ in srcs}
        try:
            if k == "head":
                out = ("frame", df.head(op[2]))
            elif k == "tail":
                out = ("frame", df.tail(op[2]))
            elif k == "slice":
                out = ("frame", df.slice(op[2], op[3]))
            elif k == "filter":
                out = ("frame", df.filter(list(op[2])))
            elif k == "take":
                out = ("frame", df.take(list(op[2])))
            elif k == "query":
                out = ("frame", df.query(i_pred(op[2])))
            elif k == "select":
                out = ("frame", df.select(list(op[2])))
            elif k == "distinct":
                out = ("frame", df.distinct())
            elif k == "add":
                out = ("frame", df + frames[op[2]][1])
            elif k == "batches":
                out = ("val", [[list(r) for r in b] for b in df.to_batches(op[2])])
            elif k == "collect":
                use_getitem = op[3] is None and not op[5]
                if op[4] == "single":
                    got = df[op[2][0]] if use_getitem else df.collect(op[2][0], op[3])
                    out = ("val", [tolist(got)])
                else:
                    got = df[list(op[2])] if use_getitem else df.collect(list(op[2]), op[3])
                    out = ("val", tolist(got))
            elif k == "append":
                # A generator-backed frame that has not been read yet would see (or not see) the new row
                # depending on when it is read; the statement does not say which, so such programs are
                # out of scope: the generator avoids them and the oracle skips them.
                if any(f[0] == "frame" and not isinstance(f[1]._rows, list) and not sp for f, sp in zip(frames, spent)):
                    snapshots["ambiguous"] = True
                df.append(tuple(op[2]))
                out = ("val", None)
                snapshots[si] = [list(r) for r in df._rows]
            elif k == "row":
                out = ("val", list(df.row(op[2])))
            elif k == "len":
                out = ("val", [len(df), df.rowcount, df.shape[0]][op[2] % 3])
            else:
                raise InfraError("bad op " + repr(op))
        except InfraError:
            raise
        except Exception as e:
            out = ("err", type(e).__name__)
        # a generator-backed source that was iterated without being materialised is spent
        for s_ in srcs:
            if was_lazy[s_] and k in CONSUMES_LAZY_SOURCE:
                spent[s_] = True
        frames.append(out)
        is_lazy = out[0] == "frame" and not isinstance(out[1]._rows, list)
        lazy.append(is_lazy)
        spent.append(False)
        if out[0] == "frame" and not is_lazy:
            snapshots[len(frames) - 1] = [list(r) for r in out[1]._rows]
    return frames, lazy, spent, snapshots


def list_rows(df):
    return [r for r in df]


def read_frame(df, how):
    """Read a frame's listing once. `how` selects the reading style."""
    if how == 0:
        rows = [list(r) for r in df]  # for-iteration
    elif how == 1:
        rows = [list(r) for r in list(df)]  # list()
    else:
        rows = [list(df.row(i)) for i in range(len(df))]
    names = list(df.column_names)
    return names, rows, len(df), df.rowcount, df.shape


def model_line(case):
    ops = []
    for op in case["ops"]:
        if op[0] == "collect":
            ops.append(["collect", op[1], op[2], op[3]])
        elif op[0] == "len":
            ops.append(["len", op[1]])
        else:
            ops.append(list(op))
    return "C03 prog " + wire.line(case["names"], bool(case["typed"]), case["rows"], ops)


def valid_case(c):
    try:
        w = len(c["names"])
        if len(set(c["names"])) != w or any(len(r) != w for r in c["rows"]):
            return False
        nres = 1
        kinds = ["frame"]
        for op in c["ops"]:
            if not isinstance(op, list) or len(op) < 2 or not isinstance(op[1], int) or not (0 <= op[1] < nres):
                return False
            if kinds[op[1]] != "frame":
                return False
            k = op[0]
            ln = {"head": 3, "tail": 3, "slice": 4, "filter": 3, "take": 3, "query": 3, "select": 3, "distinct": 2,
                  "add": 3, "batches": 3, "collect": 6, "row": 3, "len": 3, "append": 3}.get(k)
            if ln is None or len(op) != ln:
                return False
            if k in ("head", "tail") and (not isinstance(op[2], int) or op[2] < 0):
                return False
            if k == "slice" and (not isinstance(op[2], int) or not (op[3] is None or (isinstance(op[3], int) and op[3] >= 0))):
                return False
            if k == "batches" and (not isinstance(op[2], int) or op[2] < 1):
                return False
            if k == "add" and (not isinstance(op[2], int) or not (0 <= op[2] < nres) or kinds[op[2]] != "frame"):
                return False
            if k == "filter" and not all(isinstance(b, bool) for b in op[2]):
                return False
            if k == "take" and not all(isinstance(b, int) and not isinstance(b, bool) for b in op[2]):
                return False
            if k == "select" and not all(isinstance(b, str) for b in op[2]):
                return False
            if k == "query" and (not isinstance(op[2], list) or op[2][0] not in ("true", "false", "eq", "ne")):
                return False
            if k == "collect" and (not op[2] and op[4] == "single"):
                return False
            if k in ("row", "len") and not isinstance(op[2], int):
                return False
            if k == "append" and not isinstance(op[2], list):
                return False
            kinds.append("frame" if k in FRAME_OPS else "val")
            nres += 1
        return True
    except Exception:
        return False


def check_case(ctx_or_none, case, mline_out=None):
    """Returns (clause or None, impl summary, disagreement or None). Raises InfraError on harness faults."""
    mirror = run_mirror(case)
    frames, lazy, spent, snapshots = run_impl(case)
    if snapshots.pop("ambiguous", False):
        return None, [["skipped", "append while an unread generator-backed frame exists"]], mirror
    impl_summary = []
    clause = None
    how = case.get("read", 0)
    for i, (out, mir) in enumerate(zip(frames, mirror)):
        if out[0] == "err":
            impl_summary.append(["err", out[1]])
            if mir[0] != "err":
                clause = clause or "step %d (%s) raised %s" % (i, case["ops"][i - 1][0], out[1])
            elif mir[1] != out[1]:
                clause = clause or "step %d (%s) raised %s, expected %s" % (i, case["ops"][i - 1][0], out[1], mir[1])
            continue
        if mir[0] == "err":
            impl_summary.append([out[0], "?"])
            clause = clause or "step %d (%s) did not raise %s" % (i, case["ops"][i - 1][0], mir[1])
            continue
        if out[0] == "val":
            impl_summary.append(["val", out[1]])
            if out[1] != mir[1]:
                clause = clause or "step %d (%s) returned a different value than the list model" % (i, case["ops"][i - 1][0])
            continue
        # frame
        if spent[i]:
            impl_summary.append(["frame", "spent"])
            continue
        try:
            names, rows, ln, rc, shape = read_frame(out[1], (how + i) % 3)
        except Exception as e:
            impl_summary.append(["frame", "read-raised", type(e).__name__])
            clause = clause or "reading frame %d raised %s" % (i, type(e).__name__)
            continue
        impl_summary.append(["frame", names, rows])
        opn = case["ops"][i - 1][0] if i else "base"
        if rows != mir[3]:
            clause = clause or "frame %d (%s) lists different rows than the list model" % (i, opn)
        elif names != mir[1]:
            clause = clause or "frame %d (%s) has different column names than the list model" % (i, opn)
        elif not (ln == rc == shape[0] == len(rows)) or shape[1] != len(names):
            clause = clause or "frame %d (%s) len/rowcount/shape disagree with its listing" % (i, opn)
        else:
            # reading twice yields the same rows again (each row once, in order)
            again = [list(r) for r in out[1]]
            if again != rows:
                clause = clause or "frame %d (%s) lists different rows when read again" % (i, opn)
    for i, snap in snapshots.items():
        now = frames[i][1]._rows
        if not isinstance(now, list) or [list(r) for r in now] != snap:
            clause = clause or "materialised source frame %d was altered" % i
    return clause, impl_summary, mirror


def compare_model(case, mirror, mo):
    if not mo.startswith("ok "):
        raise InfraError("model rejected case %r: %r" % (case, mo))
    res = wire.dec_all(mo[3:])[0]
    if len(res) != len(mirror):
        raise InfraError("model returned %d results for %d steps" % (len(res), len(mirror)))
    for i, (m, mir) in enumerate(zip(res, mirror)):
        if m[0] == "frame":
            ok = mir[0] == "frame" and m[1] == mir[1] and m[2] == mir[3]
        elif m[0] == "val":
            ok = mir[0] == "val" and m[1] == mir[1]
        else:
            ok = mir[0] == "err" and m[1] == mir[1]
        if not ok:
            raise InfraError("Lean model and Python mirror differ at step %d of %r: %r vs %r" % (i, case, m, mir))
    return res


def evaluate(ctx, cases):
    mouts = ctx.model.batch([model_line(c) for c in cases])
    for c, mo in zip(cases, mouts):
        clause, impl, mirror = check_case(ctx, c)
        if clause is None:
            # implementation = list spec here, so the Lean model (whose window arithmetic is regenerated from
            # the source) must agree with both; a difference now can only be the wire or the driver
            compare_model(c, mirror, mo)
        ctx.case(c, nontrivial=len(c["rows"]) >= 1 and len(c["ops"]) >= 1)
        for op in c["ops"]:
            ctx.hit("op:" + op[0])
        ctx.hit("rows:%d" % min(len(c["rows"]), 9))
        ctx.hit("cols:%d" % len(c["names"]))
        ctx.hit(("lazy" if c["lazy"] else "eager") + ("/typed" if c["typed"] else "/names"))
        if clause is not None:
            norm = lambda s: None if s is None else "".join(ch for ch in s if not ch.isdigit())

            def still(c2):
                if not valid_case(c2):
                    return False
                try:
                    return norm(check_case(None, c2)[0]) == norm(clause)
                except Exception:
                    return False

            c_min = c if ctx.replaying else shrink(c, still, budget=400)
            cl2, impl2, mir2 = check_case(ctx, c_min)
            ctx.fail(c_min, cl2 or clause, impl=impl2, model=[m if m[0] != "frame" else ["frame", m[1], m[3]] for m in mir2])


# ----------------------------------------------------------------------------- generators


def gen_op(rng, kinds, names_of, nrows_of, allow=None):
    """One operator applied to a random earlier frame."""
    srcs = [i for i, k in enumerate(kinds) if k == "frame"]
    s = rng.choice(srcs)
    n = nrows_of[s]
    names = names_of[s]
    w = len(names)
    k = rng.choice(allow or ["head", "tail", "slice", "filter", "take", "query", "select", "distinct", "add",
                             "batches", "collect", "row", "len", "tail", "slice", "select", "distinct", "append", "head"])
    if k in ("head", "tail"):
        return [k, s, rng.choice([0, 1, 2, n, n + 1, n + 2, 2 * n, 2 * n + 1, max(n - 1, 0), rng.randint(0, 2 * n + 3)])]
    if k == "slice":
        o = rng.choice([0, 1, -1, -2, n, -n, -n - 1, -n - 3, n + 2, n - 1, rng.randint(-2 * n - 2, 2 * n + 2)])
        l = rng.choice([None, 0, 1, 2, n, n + 3, rng.randint(0, n + 2)])
        return [k, s, o, l]
    if k == "filter":
        return [k, s, [rng.random() < 0.5 for _ in range(n)]]
    if k == "take":
        m = rng.randint(0, n + 2)
        return [k, s, [rng.randint(-2, n + 1) for _ in range(m)]]
    if k == "query":
        if w == 0 or rng.random() < 0.2:
            return [k, s, [rng.choice(["true", "false"])]]
        return [k, s, [rng.choice(["eq", "ne"]), rng.randrange(w), rng.choice([0, 1, -1, -2])]]
    if k == "select":
        pool = list(names) + (["zz"] if rng.random() < 0.15 else [])
        m = rng.randint(0, len(pool)) if rng.random() < 0.8 else rng.randint(0, len(pool) + 1)
        attrs = [rng.choice(pool) for _ in range(m)] if pool and rng.random() < 0.25 else rng.sample(pool, min(m, len(pool)))
        return [k, s, attrs]
    if k == "distinct":
        return [k, s]
    if k == "add":
        return [k, s, rng.choice(srcs)]
    if k == "batches":
        return [k, s, max(1, rng.choice([1, 2, 3, n, n + 1, n - 1, rng.randint(1, n + 2)]))]
    if k == "collect":
        single = rng.random() < 0.35 and w > 0
        m = 1 if single else rng.choice([0, 1, 2, 3, w])
        cols = []
        for _ in range(m):
            c = rng.randint(-1, w) if rng.random() < 0.15 else (rng.randrange(w) if w else 0)
            if names and 0 <= c < w and rng.random() < 0.4:
                c = names[c]
            cols.append(c)
        if single and not cols:
            cols = [0]
        limit = rng.choice([None, None, -1, 0, 1, n, n + 1, rng.randint(-2, n + 2)])
        return [k, s, cols, limit, "single" if single else "multi", rng.random() < 0.5]
    if k == "row":
        return [k, s, rng.randint(-n - 1, n)]
    if k == "append":
        return [k, s, [rng.choice(VALUES) for _ in range(w)]]
    return ["len", s, rng.randrange(3)]


def track(kinds, names_of, nrows_of, case, op):
    """Update generator bookkeeping with the mirror's result for `op`."""
    res = run_mirror({"names": case["names"], "typed": case["typed"], "rows": case["rows"], "ops": case["ops"] + [op]})
    r = res[-1]
    kinds.append(r[0])
    names_of.append(r[1] if r[0] == "frame" else None)
    nrows_of.append(len(r[3]) if r[0] == "frame" else None)


VALUES = [0, 1, -1, -2]  # (defined before gen_op uses it at call time) -1 and -2 have equal hashes in CPython: rows that collide without being equal


def gen_case(rng, max_rows=6, max_cols=4, max_ops=4, big=False):
    w = rng.randint(0, max_cols) if rng.random() < 0.9 else 1
    n = rng.randint(0, max_rows)
    if big and rng.random() < 0.3:
        n = rng.choice([20, 50, 101, 250])
    vals = VALUES if rng.random() < 0.8 else [0, 2**61 - 1, "a", "b", None, 2.5]
    if w == 0:
        n = rng.choice([0, 0, 1, 2])
    rows = [[rng.choice(vals) for _ in range(w)] for _ in range(n)]
    case = {"names": ["c%d" % i for i in range(w)], "typed": rng.random() < 0.3 and vals is VALUES, "lazy": rng.random() < 0.35,
            "rows": rows, "ops": [], "read": rng.randrange(3)}
    kinds, names_of, nrows_of = ["frame"], [case["names"]], [n]
    spent = [False]
    lazy = [case["lazy"]]
    typed_of = [case["typed"]]
    for _ in range(rng.randint(1, max_ops)):
        for _try in range(8):
            op = gen_op(rng, kinds, names_of, nrows_of)
            srcs = [op[1]] + ([op[2]] if op[0] == "add" else [])
            if any(spent[s] for s in srcs):
                continue  # a generator-backed frame that has been consumed is not read again
            if op[0] == "append" and (typed_of[op[1]] or any(l and not sp for l, sp in zip(lazy, spent))):
                continue  # append needs a materialised, names-only frame (typed frames validate dictionaries: C05)
            break
        else:
            break
        track(kinds, names_of, nrows_of, case, op)
        typed_of.append(case["typed"] and op[0] != "select" and typed_of[op[1]])
        for s in srcs:
            if lazy[s]:
                if op[0] in CONSUMES_LAZY_SOURCE:
                    spent[s] = True
                elif not (op[0] == "add" and kinds[-1] == "err"):
                    lazy[s] = False
        case["ops"].append(op)
        lazy.append(op[0] in LAZY_RESULT)
        spent.append(False)
    return case


def exhaustive_small(ctx):
    """Every single operator with every small argument on every frame of <= 3 rows x 2 columns over {-1,-2}."""
    rngless = []
    for n in range(0, 4):
        for rows in itertools.product([[-1, 0], [-2, 0], [0, 1]], repeat=n):
            rows = [list(r) for r in rows]
            ops = []
            for k in range(0, 2 * n + 3):
                ops.append(["head", 0, k])
                ops.append(["tail", 0, k])
            for o in range(-n - 2, n + 3):
                for l in [None] + list(range(0, n + 2)):
                    ops.append(["slice", 0, o, l])
            for mask in itertools.product([False, True], repeat=n):
                ops.append(["filter", 0, list(mask)])
            for r in range(0, n + 1):
                for ix in itertools.combinations(range(-1, n + 1), min(r, 2)):
                    ops.append(["take", 0, list(ix)])
            for attrs in [[], ["c0"], ["c1"], ["c0", "c1"], ["c1", "c0"], ["c1", "c1"], ["zz", "c1"]]:
                ops.append(["select", 0, attrs])
            ops.append(["distinct", 0])
            ops.append(["add", 0, 0])
            for b in range(1, n + 2):
                ops.append(["batches", 0, b])
            for cols in [[0], [1], [1, 0], [0, 0, 1], ["c1"], [2], [-1], []]:
                for lim in [None, -1, 0, 1, n, n + 1]:
                    ops.append(["collect", 0, cols, lim, "multi", True])
            for i in range(-n - 1, n + 1):
                ops.append(["row", 0, i])
            for op in ops:
                for lazy in (False, True):
                    yield {"names": ["c0", "c1"], "typed": False, "lazy": lazy, "rows": rows, "ops": [op], "read": len(rngless) % 3}
                    rngless.append(0)


def run(ctx):
    ctx.note("rule", "programs of DataFrame operators over small frames; non-trivial = at least one row and one operator; "
             "distinct by canonical JSON of (frame, program)")
    batch = []
    n_ex = 0
    for c in exhaustive_small(ctx):
        if ctx.tier == "quick" and len(c["rows"]) > 3:
            continue
        batch.append(c)
        n_ex += 1
        if len(batch) >= 4000:
            evaluate(ctx, batch)
            batch = []
    evaluate(ctx, batch)
    ctx.note("exhaustive_scope", "every single operator with every small argument on every frame of 0..%d rows x 2 columns over a 3-row alphabet with hash-colliding rows, eager and lazy (%d cases); then random programs"
             % (2 if ctx.tier == "quick" else 3, n_ex))
    n_random = ctx.scale(30000, 300000)
    depth = ctx.scale(4, 6)
    done = 0
    while done < n_random and ctx.time_left() > 5:
        cases = [gen_case(ctx.rng, max_ops=depth, big=(ctx.tier == "thorough")) for _ in range(2000)]
        evaluate(ctx, cases)
        done += len(cases)


def intensify(ctx):
    for _ in range(10):
        evaluate(ctx, [gen_case(ctx.rng, max_ops=6, big=True) for _ in range(2000)])
        if ctx.violations:
            return


def replay(ctx, case):
    evaluate(ctx, [case])


KNOWN_PREDICATES = {}
