"""C03 — DataFrame operators agree with a list-of-tuples model.

Programs of operators (each applied to the base frame or to the result of an earlier
operator; iterators are program registers too: `iter` opens one, `next` pulls rows from it,
so partial, abandoned and interleaved iteration are program steps) are run on
orso.DataFrame, on Model/FrameProg.lean (through the driver: the list specification
`specEval` *and* the lazy-state machine `implEval`) and on a plain-Python mirror of the list
specification.  implementation vs. mirror = the oracle; Lean specification vs. mirror =
harness self-check; the Lean state machine's laziness/spent flags vs. the objects = soft
correspondence (recorded, never an alarm: laziness is not an output).

Case format (old cases — `typed: bool`, `lazy: bool` — still replay):
  names, schema ("list" | "tuple" | "typed" | "aliased" | "dicts"), aliases (per column, for
  "aliased"), lazy (False | "gen" | "iter" | "map"), rows, ops, read.
Pass 5: cells may be markers ({"__tuple__": [...]}, {"__pydict__": {...}}, {"__pyset__": [...]}, {"__nan__": true}; see
`cell_py` / `canon` / `strict`); steps `biter s size` (open a to_batches generator: a register), `bnext r k` (pull up to
k batches from it), `fetch s how` (fetchone / fetchmany / fetchall on a materialised frame, value not compared).
Pass 6: the form of a sequence argument (`op[3]` of select / filter / take, `op[4]` of collect) may name a slot, `"list#0"` /
`"multi#0"`: every step of one slot is given the SAME argument object (a program that keeps a selection in a variable); after
the program every argument object passed is compared with a second one built the same way.
"""
import itertools
import json
import re

from .. import wire
from ..core import InfraError, shrink

FRAME_OPS = ("head", "tail", "slice", "filter", "take", "query", "select", "distinct", "add")
LAZY_RESULT = ("filter", "take", "select")  # generator-backed results
CONSUMES_LAZY_SOURCE = ("filter", "take", "query", "select", "distinct")  # iterate _rows without materialising
OP_LEN = {"head": (3,), "tail": (3,), "slice": (4,), "filter": (3, 4), "take": (3, 4), "query": (3,), "select": (3, 4),
          "distinct": (2,), "add": (3,), "batches": (3,), "collect": (6,), "row": (3,), "len": (3,), "append": (3,),
          "iter": (2,), "next": (3,), "zip": (3,), "hash": (2,), "biter": (3,), "bnext": (3,), "fetch": (3,)}
MATERIALISES_SOURCE = ("head", "tail", "slice", "batches", "collect", "row", "len", "hash", "iter", "biter")
SCHEMAS = ("list", "tuple", "typed", "aliased", "dicts")
# collect limits at the numeric boundaries of the compiled collector's `int limit` parameter (compiled.pyx signature)
BIG_LIMITS = [2**31 - 1, 2**31, 2**31 + 7, 2**63 - 1, 2**63, 10**30, -(2**31) - 1, -(2**63) - 1, True, False]
LAZIES = ("gen", "iter", "map")


# ----------------------------------------------------------------------------- cells
#
# A case is JSON; cells that JSON cannot tell apart travel as markers: {"__tuple__": [...]}, {"__pydict__": {...}},
# {"__pyset__": [...]}, {"__nan__": true}.  `cell_py` builds the Python value the frame holds; `canon` is the value up to
# Python equality (bool / integral float -> int, a tuple is not a list, a dict is its items whatever their order, the
# one NaN object equals itself by identity) - the harness's rendering of `Frame.pyKey` (Model/FrameCell.lean), which the
# Lean driver applies to the `raw` cells it is sent; the model's results are compared with `canon` of the mirror's; `strict` tells apart what Python
# equality does not (1 / True / 1.0): the first row of each class of equal rows is the one that has to be kept.

NAN = float("nan")  # one object: rows holding it are equal by identity, as in `x in seen` / `x in list`


def cell_py(x):
    if isinstance(x, list):
        return [cell_py(v) for v in x]
    if isinstance(x, dict):
        if len(x) != 1:
            raise ValueError("bad cell marker")
        (k, v), = x.items()
        if k == "__tuple__" and isinstance(v, list):
            return tuple(cell_py(y) for y in v)
        if k == "__pydict__" and isinstance(v, dict):
            return {kk: cell_py(y) for kk, y in v.items()}
        if k == "__pyset__" and isinstance(v, list) and all(isinstance(y, (int, str)) for y in v):
            return set(v)
        if k == "__nan__" and v is True:
            return NAN
        raise ValueError("bad cell marker")
    if isinstance(x, float) and x != x:
        return NAN
    if x is None or isinstance(x, (bool, int, float, str)):
        return x
    raise ValueError("bad cell")


def canon(v):
    if isinstance(v, bool):
        return int(v)
    if isinstance(v, float):
        if v != v:
            return {"__nan__": 1}  # (only the one NaN object is generated: equal to itself by identity)
        if v not in (float("inf"), float("-inf")) and v == int(v):
            return int(v)
        return v
    if isinstance(v, list):
        return [canon(x) for x in v]
    if isinstance(v, tuple):
        return {"__tuple__": [canon(x) for x in v]}
    if isinstance(v, dict):
        return {"__pydict__": {k: canon(v[k]) for k in sorted(v)}}
    if isinstance(v, (set, frozenset)):
        return {"__pyset__": sorted((canon(x) for x in v), key=repr)}
    return v


def raw(v):
    """The cell as it travels to the Lean driver, which keys it itself (`Frame.pyKey`, Model/FrameCell.lean: bool and
    integral floats -> int, dict entries sorted); tuples / dicts / sets / the NaN object as markers.  The members of
    a set (scalars) are keyed and sorted here."""
    if isinstance(v, float) and v != v:
        return {"__nan__": 1}
    if isinstance(v, list):
        return [raw(x) for x in v]
    if isinstance(v, tuple):
        return {"__tuple__": [raw(x) for x in v]}
    if isinstance(v, dict):
        return {"__pydict__": {k: raw(x) for k, x in v.items()}}
    if isinstance(v, (set, frozenset)):
        return canon(v)
    return v


def strict(v):
    if isinstance(v, (list, tuple)):
        return [type(v).__name__] + [strict(x) for x in v]
    if isinstance(v, dict):
        return ["dict"] + [[k, strict(x)] for k, x in v.items()]
    if isinstance(v, (set, frozenset)):
        return [type(v).__name__] + sorted((strict(x) for x in v), key=repr)
    if isinstance(v, float):
        return ["float", repr(v)]
    return [type(v).__name__, v]


def cell_kind(x):
    if isinstance(x, list):
        return "list"
    if isinstance(x, dict):
        return next(iter(x)).strip("_")
    return type(x).__name__


def schema_of(case):
    s = case.get("schema")
    if s is None:
        return "typed" if case.get("typed") else "list"
    return s


def lazy_of(case):
    l = case.get("lazy")
    if l is True:
        return "gen"
    return l or False


def kind_of(case):
    """The kind of schema object the frame carries (what `+` compares)."""
    s = schema_of(case)
    return {"list": "list", "dicts": "list", "tuple": "tuple", "typed": "typed", "aliased": "typed"}[s]


def aliases_of(case):
    if schema_of(case) == "aliased":
        return [list(a) for a in case["aliases"]]
    return [[] for _ in case["names"]]


def base_is_lazy(case):
    return bool(lazy_of(case)) and schema_of(case) != "dicts"


# ----------------------------------------------------------------------------- which frames still hold their rows
#
# The reference semantics of laziness in dataframe.py (the Lean machine `implStep` of Model/FrameProg.lean is the same
# thing, regenerated from the source; the two are compared on every program).  A frame register is
#   "eager"          _rows is a list
#   "lazy"           _rows is a generator of its own that nobody has advanced (generator-backed base; filter / take of
#                    anything; select of a frame that was a list when select was called)
#   ("defer", src)   the result of select on a frame that was not a list then: the projection generator reads
#                    `src._rows` when it is first advanced (the list if src has been materialised by then, src's own
#                    generator otherwise - and then src is spent)
#   "spent"          the generator was run, or handed to another frame, by something other than the frame's own
#                    materialize(): the frame lists nothing any more (the statement protects materialised sources only)


class Track:
    def __init__(self, base_lazy):
        self.st = ["lazy" if base_lazy else "eager"]

    def copy(self):
        t = Track(False)
        t.st = list(self.st)
        t.sibling_uses = getattr(self, "sibling_uses", 0)
        return t

    def live(self, s):
        x = self.st[s]
        return x in ("eager", "lazy") or isinstance(x, tuple)

    def unread(self, s):
        x = self.st[s]
        return x == "lazy" or isinstance(x, tuple)

    def up_chain(self, s):
        out = []
        while True:
            x = self.st[s]
            if isinstance(x, tuple):
                out.append(s)
                s = x[1]
                continue
            if x == "lazy":
                out.append(s)
            return out

    def closure(self, dead, skip=None):
        dead = set(dead)
        for i, x in enumerate(self.st):
            if isinstance(x, tuple) and x[1] in dead and i != skip:
                dead.add(i)
        return dead

    def spend(self, dead):
        for i in dead:
            if self.unread(i):
                self.st[i] = "spent"

    def materialise(self, s):
        x = self.st[s]
        if x == "lazy":
            self.st[s] = "eager"
        elif isinstance(x, tuple):
            self.spend(self.closure(self.up_chain(x[1]), skip=s))
            self.st[s] = "eager"

    def hand_over(self, s):
        self.spend(self.closure([s]))

    def drain(self, s):
        self.spend(self.closure(self.up_chain(s)))

    def step(self, op, result_kind, typed_of=None, has_iter=()):
        """Apply `op`; False when the program is outside the scope (uses a spent frame, appends at the wrong time)."""
        k = op[0]
        if k in ("next", "bnext"):
            ok = self.st[op[1]] == ("iter" if k == "next" else "biter")
            self.st.append(None)
            return ok
        s = op[1]
        if not self.live(s):
            self.st.append(None)
            return False
        x = self.st[s]
        ok = True
        res = None
        if any(isinstance(y, tuple) and y[1] in ([s] + ([op[2]] if k in ("add", "zip") else [])) for y in self.st):
            self.sibling_uses = getattr(self, "sibling_uses", 0) + 1  # a frame that has an unread selection is used again
        if k in MATERIALISES_SOURCE:
            self.materialise(s)
            res = "eager" if k in FRAME_OPS else (k if k in ("iter", "biter") else None)
        elif k == "select":
            res = "lazy" if x == "eager" else ("defer", s)
        elif k in ("filter", "take"):
            if x == "eager":
                res = "lazy"
            else:
                self.hand_over(s)
                res = ("defer", x[1]) if isinstance(x, tuple) else "lazy"
        elif k in ("query", "distinct"):
            if x == "lazy":
                self.hand_over(s)
            elif isinstance(x, tuple):
                self.drain(s)
            res = "eager"
        elif k in ("add", "zip"):
            t = op[2]
            probe = self.copy()
            probe.materialise(s)
            ok = probe.live(t)
            if k == "zip" or result_kind != "err":
                self.materialise(s)
                self.materialise(t)
            res = "eager" if (k == "add" and result_kind == "frame") else None
        elif k == "fetch":
            # the DB-API reads move the frame's cursor only; on a frame that is not a list yet the cursor *is* the
            # generator the rows come from (C04's subject), so the step is applied to materialised frames only
            ok = x == "eager"
        elif k == "append":
            ok = x == "eager" and not (typed_of and typed_of[s]) and s not in has_iter and not any(self.unread(i) for i in range(len(self.st)))
        else:
            raise InfraError("bad op " + repr(op))
        if result_kind != "frame" and k in FRAME_OPS:
            res = None
        self.st.append(res)
        return ok


def track_case(case, mirror=None):
    """(in scope?, tracker after the program, order in which the frames are read, tracker after the reads)."""
    mirror = mirror or run_mirror(case)
    t = Track(base_is_lazy(case))
    typed_of = [kind_of(case) == "typed"]
    has_iter = set()
    ok = True
    for i, op in enumerate(case["ops"]):
        ok = t.step(op, mirror[i + 1][0], typed_of, has_iter) and ok
        if op[0] in ("iter", "biter"):
            has_iter.add(op[1])
        typed_of.append(op[0] in FRAME_OPS and op[0] != "select" and typed_of[op[1]])
    after = t.copy()
    order = [i for i, m in enumerate(mirror) if m[0] == "frame"]
    if case.get("order") == "rev":
        order.reverse()
    plan = []
    for i in order:
        if t.live(i):
            plan.append(i)
            t.materialise(i)
    return ok, after, plan, t


# ----------------------------------------------------------------------------- mirror (the list spec)


def m_pred(p):
    if p[0] == "true":
        return lambda r: True
    if p[0] == "false":
        return lambda r: False
    if p[0] == "eq":
        return lambda r: p[1] < len(r) and r[p[1]] == p[2]
    if p[0] == "ne":
        return lambda r: not (p[1] < len(r) and r[p[1]] == p[2])
    raise InfraError("bad predicate")


def mirror_step(res, op):
    k = op[0]
    f = res[op[1]]
    if k == "next":
        if f[0] != "iter":
            raise InfraError("source is not an iterator")
        out = f[1][f[2] : f[2] + op[2]]
        f[2] += len(out)
        return ["val", out]
    if k == "bnext":
        # a batching is the list of the batches of the rows its frame held when it was opened, and a position of its own
        if f[0] != "biter":
            raise InfraError("source is not a batching")
        out = f[1][f[2] : f[2] + op[2]]
        f[2] += len(out)
        return ["val", out]
    if f[0] != "frame":
        raise InfraError("source is not a frame")
    names, kind, rows = f[1], f[2], f[3]
    n = len(rows)
    if k == "head":
        return ["frame", names, kind, rows[: op[2]]]
    if k == "tail":
        kk = min(op[2], n)
        return ["frame", names, kind, rows[n - kk :]]
    if k == "slice":
        o, l = op[2], op[3]
        start = o if o >= 0 else max(n + o, 0)
        return ["frame", names, kind, rows[start:] if l is None else rows[start : start + l]]
    if k == "filter":
        return ["frame", names, kind, [r for r, m in zip(rows, op[2]) if m]]
    if k == "take":
        return ["frame", names, kind, [r for i, r in enumerate(rows) if i in op[2]]]
    if k == "query":
        p = m_pred(op[2])
        return ["frame", names, kind, [r for r in rows if p(r)]]
    if k == "select":
        hdr = [a for a in op[2] if a in names]
        idx = [names.index(a) for a in hdr]
        return ["frame", hdr, "list", [[r[i] for i in idx] for r in rows]]
    if k == "distinct":
        out = []
        for r in rows:
            if r not in out:
                out.append(r)
        return ["frame", names, kind, out]
    if k == "add":
        g = res[op[2]]
        if names != g[1] or kind != g[2]:
            return ["err", "ValueError"]
        return ["frame", names, kind, rows + g[3]]
    if k == "batches":
        return ["val", [rows[i : i + op[2]] for i in range(0, n, op[2])]]
    if k == "collect":
        cols = []
        for c in op[2]:
            if isinstance(c, str):
                if c not in names:
                    return ["err", "ValueError"]
                cols.append(names.index(c))
            else:
                cols.append(c)
        lim = n if op[3] is None or op[3] < 0 else min(op[3], n)
        if n == 0 or not cols:
            return ["val", [[] for _ in cols]]
        if any(c < 0 or c >= len(names) for c in cols):
            return ["err", "IndexError"]
        return ["val", [[r[c] for r in rows[:lim]] for c in cols]]
    if k == "row":
        i = op[2]
        if i < -n or i >= n:
            return ["err", "IndexError"]
        return ["val", rows[i]]
    if k == "len":
        return ["val", n]
    if k == "hash":
        return ["val", None]
    if k == "iter":
        return ["iter", list(rows), 0]
    if k == "biter":
        return ["biter", [rows[i : i + op[2]] for i in range(0, n, op[2])], 0, op[2], n]
    if k == "fetch":
        return ["val", None]
    if k == "zip":
        g = res[op[2]]
        return ["val", [[a, b] for a, b in zip(rows, g[3])]]
    raise InfraError("bad op " + repr(op))


def run_mirror(case):
    res = [["frame", list(case["names"]), kind_of(case), [[cell_py(x) for x in r] for r in case["rows"]]]]
    for op in case["ops"]:
        if op[0] == "append":  # in-place: only the target frame changes
            f = res[op[1]]
            res[op[1]] = ["frame", f[1], f[2], f[3] + [list(op[2])]]
            res.append(["val", None])
        else:
            res.append(mirror_step(res, op))
    return res


# ----------------------------------------------------------------------------- implementation


def i_pred(p):
    if p[0] == "true":
        return lambda r: True
    if p[0] == "false":
        return lambda r: False
    if p[0] == "eq":
        return lambda r: r[p[1]] == p[2]
    if p[0] == "ne":
        return lambda r: r[p[1]] != p[2]
    raise InfraError("bad predicate")


def tolist(x):
    import numpy

    if isinstance(x, numpy.ndarray):
        return [tolist(v) for v in x.tolist()] if x.dtype != object else [tolist(v) for v in x]
    if isinstance(x, numpy.generic):
        return x.item()
    return x  # a cell (a tuple stays a tuple)


def table_tolist(x, depth):
    """The value of collect / __getitem__: `depth` levels of arrays / sequences, then cells (kept as they are)."""
    import numpy

    if depth == 0:
        return x.item() if isinstance(x, numpy.generic) else x
    if isinstance(x, numpy.ndarray) and x.dtype != object:
        return tolist(x)
    return [table_tolist(v, depth - 1) for v in x]


def make_base(case):
    """Every way a frame's schema and rows can be given."""
    from orso import DataFrame
    from orso.schema import FlatColumn, RelationSchema

    rows = [tuple(cell_py(x) for x in r) for r in case["rows"]]
    names = list(case["names"])
    sk = schema_of(case)
    lz = lazy_of(case)
    if sk == "dicts":
        dicts = [dict(zip(names, r)) for r in rows]
        return DataFrame((d for d in dicts) if lz else dicts)
    if sk == "typed":
        schema = RelationSchema(name="t", columns=[FlatColumn(name=n, type="INTEGER") for n in names])
    elif sk == "aliased":
        schema = RelationSchema(name="t", columns=[FlatColumn(name=n, type="INTEGER", aliases=list(a))
                                                   for n, a in zip(names, case["aliases"])])
    elif sk == "tuple":
        schema = tuple(names)
    else:
        schema = names
    if lz == "gen":
        return DataFrame(rows=(r for r in rows), schema=schema)
    if lz == "iter":
        return DataFrame(rows=iter(list(rows)), schema=schema)
    if lz == "map":
        return DataFrame(rows=map(tuple, [list(r) for r in rows]), schema=schema)
    return DataFrame(rows=list(rows), schema=schema)


def arg_form(values, form, what="names"):
    import numpy

    if form in (None, "list"):
        return list(values)
    if form == "tuple":
        return tuple(values)
    if form == "set":
        return set(values)
    if form == "frozenset":
        return frozenset(values)
    if form == "iter":
        return iter(list(values))
    if form == "numpy":
        return numpy.array(list(values), dtype=bool if what == "mask" else numpy.int64)
    if form == "bare":
        return values[0]
    # pass 7: the KIND of object the caller holds its index set / mask in (see TAKE_KINDS / FILTER_KINDS)
    r = range_of_form(form)
    if r is not None:
        if list(r) != list(values):
            raise InfraError("range form %r does not denote %r" % (form, values))
        return r
    if form == "gen":
        return (v for v in list(values))
    if form == "deque":
        import collections

        return collections.deque(values)
    if form == "dict":
        return {v: None for v in values}
    if form == "dictkeys":
        return {v: None for v in values}.keys()
    if form == "dictvalues":
        return dict(enumerate(values)).values()
    if form == "bytes":
        return bytes(values)
    if form == "bytearray":
        return bytearray(values)
    if form == "array":
        import array

        return array.array("q", values)
    if isinstance(form, str) and form.startswith("np:"):
        return numpy.array(list(values), dtype=getattr(numpy, form[3:]))
    raise InfraError("bad argument form %r" % (form,))


NP_INT_KINDS = {"np:int8": (-2**7, 2**7 - 1), "np:int16": (-2**15, 2**15 - 1), "np:int32": (-2**31, 2**31 - 1), "np:int64": (-2**63, 2**63 - 1),
                "np:uint8": (0, 2**8 - 1), "np:uint16": (0, 2**16 - 1), "np:uint32": (0, 2**32 - 1), "np:uint64": (0, 2**64 - 1)}
# The kinds of object an index set may be given as: everything whose `i in obj` is a membership test that can be asked
# any number of times (established on the unchanged tree: each answers as the list of its members does).  NOT in the
# list: one-shot iterators / generators (`i in it` consumes the iterator: the answer depends on the order of the
# members - not a set of positions), str (`0 in "012"` is a TypeError).
TAKE_KINDS = ("list", "tuple", "set", "frozenset", "numpy", "deque", "dict", "dictkeys", "dictvalues", "bytes", "bytearray", "array") + tuple(NP_INT_KINDS)
# a mask is read once, front to back, zipped with the rows: any iterable of truth values, one-shot ones included
FILTER_KINDS = ("list", "tuple", "numpy", "iter", "gen", "deque", "dictvalues", "np:uint8", "np:int64")
ONE_SHOT = ("iter", "gen")


def range_of_form(form):
    """'range(4,0,-1)' -> range(4, 0, -1); None for any other form."""
    m = re.fullmatch(r"range\((-?\d{1,25}),(-?\d{1,25}),(-?\d{1,25})\)", form) if isinstance(form, str) else None
    if not m or int(m.group(3)) == 0:
        return None
    return range(int(m.group(1)), int(m.group(2)), int(m.group(3)))


def form_name(form):
    r = range_of_form(form)
    if r is None:
        return form
    return "range %s%s%s" % ("ascending" if r.step > 0 else "descending", ", strided" if abs(r.step) > 1 else "", ", empty" if not len(r) else "")


def take_form_ok(form, values):
    if range_of_form(form) is not None:
        r = range_of_form(form)
        return len(r) <= 100000 and list(r) == list(values)
    if form in ("bytes", "bytearray"):
        return all(0 <= v <= 255 for v in values)
    if form == "array":
        return all(-2**63 <= v < 2**63 for v in values)
    if form in NP_INT_KINDS or form == "numpy":
        lo, hi = NP_INT_KINDS.get(form, NP_INT_KINDS["np:int64"])
        return all(lo <= v <= hi for v in values)
    return form in TAKE_KINDS


def form_slot(form):
    """('list#3') -> ('list', 3): the argument object of this step is the one held in slot 3 of the program - the SAME
    object every step of that slot is given (made by the first of them).  No '#': a fresh object of its own."""
    if isinstance(form, str) and "#" in form:
        base, k = form.split("#", 1)
        if not re.fullmatch(r"\d{1,2}", k):
            raise InfraError("bad argument slot %r" % (form,))
        return base, int(k)
    return form, None


def arg_of(op):
    """(what, object form, slot, values) of the sequence argument of a step, None when it has none / a bare one."""
    k = op[0]
    if k in ("select", "filter", "take"):
        base, slot = form_slot(op[3] if len(op) > 3 else None)
        if base == "bare":
            return None
        return {"select": "names", "filter": "mask", "take": "indexes"}[k], base or "list", slot, op[2]
    if k == "collect":
        base, slot = form_slot(op[4])
        if base != "multi":
            return None
        return "columns", "list", slot, op[2]
    return None


def same_argument(obj, fresh):
    """Is the object the caller passed still what the caller made (compared with a second object made the same way)?"""
    import numpy

    if type(obj) is not type(fresh):
        return False
    if type(obj).__name__ in ("dict_keys", "dict_values"):
        return strict(list(obj)) == strict(list(fresh))
    if isinstance(obj, numpy.ndarray):
        return obj.dtype == fresh.dtype and obj.shape == fresh.shape and strict(tolist(obj)) == strict(tolist(fresh))
    return strict(obj) == strict(fresh)


class Batching:
    """One `to_batches` generator.  A generator function runs nothing until it is first advanced, so the first batch is
    pulled when the batching is opened (that is when `to_batches` materialises the frame and evaluates its range)
    and handed out with the first pull; every later batch is pulled when asked for."""

    def __init__(self, df, size):
        self.gen = df.to_batches(size)
        self.held = []
        self._pull_into(self.held)

    def _pull_into(self, out):
        if self.gen is None:
            return False
        try:
            b = next(self.gen)
        except StopIteration:
            self.gen = None
            return False
        out.append([list(r) for r in b])
        return True

    def pull(self, k):
        out = []
        while len(out) < k:
            if self.held:
                out.append(self.held.pop(0))
            elif not self._pull_into(out):
                break
        return out


def run_impl(case, after):
    """`after`: the tracker after the program (which frames are spent). Returns per step ('frame', df) / ('val', v) / ('err', cls) / ('iter', it) plus bookkeeping for reading frames."""
    frames = [("frame", make_base(case))]
    snapshots = {}  # index -> copy of rows, for materialised frames
    if isinstance(frames[0][1]._rows, list):
        snapshots[0] = [list(r) for r in frames[0][1]._rows]
    slots = {}  # the argument objects that several steps are given (the caller's own list / set / array)
    passed = []  # [step, what, the object passed, a second object made the same way, the step after which it was first seen altered]
    snapshots["args"] = passed

    def argument(op):
        what, base, slot, values = arg_of(op)
        kind = "mask" if what == "mask" else "indexes"
        if slot is not None and slot in slots:
            obj = slots[slot]
        else:
            obj = arg_form(values, base, kind)
            if slot is not None:
                slots[slot] = obj
        if base not in ONE_SHOT:  # (an iterator is used up by being read: that is what it is for)
            passed.append([len(frames), what, obj, arg_form(values, base, kind), None])
        return obj

    for op in case["ops"]:
        k = op[0]
        si = op[1]
        srcs = [si] + ([op[2]] if k in ("add", "zip") else [])
        want = {"next": "iter", "bnext": "biter"}.get(k, "frame")
        if any(frames[s_][0] != want for s_ in srcs):
            # an earlier step failed on the implementation (already reported there)
            frames.append(("err", "SourceUnavailable"))
            continue
        df = frames[si][1]
        try:
            if k == "head":
                out = ("frame", df.head(op[2]))
            elif k == "tail":
                out = ("frame", df.tail(op[2]))
            elif k == "slice":
                out = ("frame", df.slice(op[2], op[3]))
            elif k == "filter":
                out = ("frame", df.filter(argument(op)))
            elif k == "take":
                out = ("frame", df.take(argument(op)))
            elif k == "query":
                out = ("frame", df.query(i_pred(op[2])))
            elif k == "select":
                out = ("frame", df.select(argument(op) if arg_of(op) else op[2][0]))
            elif k == "distinct":
                out = ("frame", df.distinct())
            elif k == "add":
                out = ("frame", df + frames[op[2]][1])
            elif k == "batches":
                held = list(df.to_batches(op[2]))  # all batches first, read afterwards: a batch is a frame of its own
                out = ("val", [[list(r) for r in b] for b in held])
            elif k == "collect":
                use_getitem = op[3] is None and not op[5]
                if op[4] == "single":
                    got = df[op[2][0]] if use_getitem else df.collect(op[2][0], op[3])
                    out = ("val", [table_tolist(got, 1)])
                else:
                    cols = argument(op)
                    got = df[cols] if use_getitem else df.collect(cols, op[3])
                    out = ("val", table_tolist(got, 2))
            elif k == "append":
                # A generator-backed frame that has not been read yet would see (or not see) the new row
                # depending on when it is read; the statement does not say which, so such programs are
                # out of scope: the generator avoids them and the oracle skips them.
                if any(f[0] == "frame" and not isinstance(f[1]._rows, list) and after.st[j] != "spent" for j, f in enumerate(frames)):
                    snapshots["ambiguous"] = True
                df.append(tuple(op[2]))
                out = ("val", None)
                snapshots[si] = [list(r) for r in df._rows]
            elif k == "row":
                out = ("val", list(df.row(op[2])))
            elif k == "len":
                out = ("val", [len(df), df.rowcount, df.shape[0]][op[2] % 3])
            elif k == "hash":
                # the value is not part of the property; hashing twice must agree and must not disturb the frame
                h1, h2 = hash(df), hash(df)
                out = ("val", None if h1 == h2 else "hash(frame) changed between two calls")
            elif k == "iter":
                out = ("iter", iter(df))
            elif k == "next":
                got = []
                for _ in range(op[2]):
                    try:
                        got.append(list(next(df)))
                    except StopIteration:
                        break
                out = ("val", got)
            elif k == "zip":
                out = ("val", [[list(a), list(b)] for a, b in zip(df, frames[op[2]][1])])
            elif k == "biter":
                out = ("biter", Batching(df, op[2]))
            elif k == "bnext":
                out = ("val", df.pull(op[2]))
            elif k == "fetch":
                # a DB-API read between two uses: what it returns is C04's subject, here it must not disturb anything
                try:
                    [df.fetchone, lambda: df.fetchmany(2), df.fetchall][op[2] % 3]()
                except Exception:
                    pass  # ("Cannot use fetchone and append on the same DataFrame")
                out = ("val", None)
            else:
                raise InfraError("bad op " + repr(op))
        except InfraError:
            raise
        except Exception as e:
            out = ("err", type(e).__name__)
        frames.append(out)
        for e in passed:
            if e[4] is None and not same_argument(e[2], e[3]):
                e[4] = len(frames) - 1
        # every frame that is materialised now and has no snapshot yet gets one (sources are
        # materialised by the operators that read them)
        for j, f in enumerate(frames):
            if f[0] == "frame" and j not in snapshots and isinstance(f[1]._rows, list):
                snapshots[j] = [list(r) for r in f[1]._rows]
    return frames, snapshots


def read_frame(df, how):
    """Read a frame's listing once. `how` selects the reading style."""
    peek = None
    if how == 0:
        rows = [list(r) for r in df]  # for-iteration
    elif how == 1:
        rows = [list(r) for r in list(df)]  # list()
    elif how == 2:
        rows = [list(df.row(i)) for i in range(len(df))]
    else:
        # an abandoned iteration first (peek at the first row), then a complete one
        it = iter(df)
        first = next(it, None)
        del it
        rows = [list(r) for r in df]
        if (first is None) != (not rows) or (first is not None and strict(list(first)) != strict(rows[0])):
            peek = ["first row of an abandoned iteration", None if first is None else list(first)]
    names = list(df.column_names)
    return names, rows, len(df), df.rowcount, df.shape, peek


def model_line(case):
    ops = []
    bsize = {}
    for op in case["ops"]:
        if op[0] == "collect":
            ops.append(["collect", op[1], op[2], int(op[3]) if isinstance(op[3], bool) else op[3]])
        elif op[0] in ("select", "filter", "take"):
            ops.append(list(op[:3]))
        elif op[0] == "len":
            ops.append(["len", op[1], op[2] % 3])
        elif op[0] == "biter":
            # a batching of size b is the row iterator of its frame read b rows at a time (C03.batching_is_chunked_iteration)
            ops.append(["iter", op[1]])
            bsize[len(ops)] = op[2]
        elif op[0] == "bnext":
            ops.append(["next", op[1], op[2] * bsize[op[1]]])
        elif op[0] == "fetch":
            ops.append(["hash", op[1]])  # a read that returns nothing of interest and leaves a materialised frame as it is
        elif op[0] == "append":
            ops.append(["append", op[1], raw([cell_py(x) for x in op[2]])])
        elif op[0] == "query" and len(op[2]) == 3:
            ops.append(["query", op[1], [op[2][0], op[2][1], raw(cell_py(op[2][2]))]])
        else:
            ops.append(list(op))
    # the reads after the program are program steps too (every read materialises): the machine and the scope of
    # the refinement theorem cover them
    for i in track_case(case)[2]:
        ops.append(["len", i, 0])
    return "C03 prog " + wire.line(case["names"], kind_of(case), aliases_of(case), base_is_lazy(case),
                                  [raw([cell_py(x) for x in r]) for r in case["rows"]], ops)


def valid_case(c):
    try:
        w = len(c["names"])
        if len(set(c["names"])) != w or any(len(r) != w for r in c["rows"]):
            return False
        if not all(isinstance(x, str) and re.fullmatch(r"c\d+", x) for x in c["names"]):
            return False  # (keeps the shrinker from renaming columns)
        sk = schema_of(c)
        if sk not in SCHEMAS or lazy_of(c) not in (False,) + LAZIES:
            return False
        if sk == "aliased":
            al = c.get("aliases")
            if not isinstance(al, list) or len(al) != w or not all(isinstance(a, list) and all(isinstance(x, str) for x in a) for a in al):
                return False
        if sk == "dicts" and not c["rows"]:
            return False
        for r in c["rows"]:
            for x in r:
                cell_py(x)  # raises on a malformed cell marker (the shrinker makes them)
        nres = 1
        kinds = ["frame"]
        typed_of = [kind_of(c) == "typed"]
        has_iter = set()
        slot_sig = {}
        for op in c["ops"]:
            if not isinstance(op, list) or len(op) < 2 or not isinstance(op[1], int) or not (0 <= op[1] < nres):
                return False
            k = op[0]
            if kinds[op[1]] != {"next": "iter", "bnext": "biter"}.get(k, "frame"):
                return False
            ln = OP_LEN.get(k)
            if ln is None or len(op) not in ln:
                return False
            if k in ("head", "tail") and (not isinstance(op[2], int) or op[2] < 0):
                return False
            if k == "slice" and (not isinstance(op[2], int) or not (op[3] is None or (isinstance(op[3], int) and op[3] >= 0))):
                return False
            if k in ("batches", "biter") and (not isinstance(op[2], int) or isinstance(op[2], bool) or op[2] < 1):
                return False
            if k in ("add", "zip") and (not isinstance(op[2], int) or not (0 <= op[2] < nres) or kinds[op[2]] != "frame"):
                return False
            if k in ("filter", "take", "select") and not isinstance(op[2], list):
                return False
            form3 = form_slot(op[3])[0] if k in ("filter", "take", "select") and len(op) == 4 else None
            if k == "filter" and (not all(isinstance(b, bool) for b in op[2]) or (len(op) == 4 and form3 not in FILTER_KINDS)):
                return False
            if k == "take" and (not all(isinstance(b, int) and not isinstance(b, bool) for b in op[2])
                                or (len(op) == 4 and not take_form_ok(form3, op[2]))):
                return False
            if k == "select" and (not all(isinstance(b, str) for b in op[2]) or (len(op) == 4 and (form3 not in ("list", "tuple", "bare")
                                                                                                    or (form3 == "bare" and len(op[2]) != 1)))):
                return False
            if k in ("filter", "take", "select", "collect"):
                a = arg_of(op)
                _b, _slot = form_slot(op[3] if k != "collect" and len(op) == 4 else (op[4] if k == "collect" else None))
                if _slot is not None:
                    # one object per slot: every step of the slot names the same kind of object with the same contents
                    if a is None or a[1] in ONE_SHOT:
                        return False
                    sig = (a[1], json.dumps(op[2]), k if a[1] == "numpy" else None)
                    if slot_sig.setdefault(_slot, sig) != sig:
                        return False
            if k == "query" and (not isinstance(op[2], list) or op[2][0] not in ("true", "false", "eq", "ne")):
                return False
            if k == "collect" and (not isinstance(op[4], str) or form_slot(op[4])[0] not in ("single", "multi") or (not op[2] and op[4] == "single") or not isinstance(op[5], bool)
                                   or not (op[3] is None or isinstance(op[3], int))):
                return False
            if k in ("row", "len") and not isinstance(op[2], int):
                return False
            if k == "fetch" and (not isinstance(op[2], int) or not (0 <= op[2] <= 2)):
                return False
            if k in ("next", "bnext") and (not isinstance(op[2], int) or op[2] < 0):
                return False
            if k == "append" and (not isinstance(op[2], list) or len(op[2]) != w_of(c, op[1]) or typed_of[op[1]] or op[1] in has_iter):
                return False
            if k in ("iter", "biter"):
                has_iter.add(op[1])
            kinds.append("frame" if k in FRAME_OPS else (k if k in ("iter", "biter") else "val"))
            typed_of.append(k in FRAME_OPS and k != "select" and typed_of[op[1]])
            nres += 1
        if c.get("order") not in (None, "fwd", "rev"):
            return False
        return track_case(c)[0]
    except Exception:
        return False


def w_of(case, reg):
    """Width of frame register `reg` (mirror)."""
    res = run_mirror({**case, "ops": case["ops"][:reg]}) if reg else None
    if reg == 0:
        return len(case["names"])
    return len(res[reg][1])


def alias_probe(frames, mirror, plan):
    """No two frames share their rows: after the program (every live frame has been read, so all are materialised)
    a sentinel row is appended to each names-only frame in turn; every other frame must list what it listed before."""
    live = [(i, out[1]) for i, (out, mir) in enumerate(zip(frames, mirror)) if out[0] == "frame" and mir[0] == "frame" and i in plan]
    if len(live) < 2:
        return None
    try:
        listing = {i: [list(r) for r in df] for i, df in live}
    except Exception:
        return None
    for i, df in live:
        if mirror[i][2] == "typed":
            continue  # typed frames validate what is appended: C05
        sentinel = ["sentinel-%d" % i] * len(mirror[i][1])
        try:
            df.append(tuple(sentinel))
        except Exception as e:
            return "appending a row to frame %d raised %s" % (i, type(e).__name__)
        listing[i] = listing[i] + [sentinel]
        for j, dj in live:
            try:
                now = [list(r) for r in dj]
            except Exception as e:
                return "reading frame %d after an append to frame %d raised %s" % (j, i, type(e).__name__)
            if strict(now) != strict(listing[j]):
                if j == i:
                    return "append to frame %d did not add exactly that row at the end" % i
                return "after a row was appended to frame %d, frame %d lists different rows (shared rows or stale iteration state)" % (i, j)
    return None


def check_case(ctx_or_none, case, want_state=False):
    """Returns (clause or None, impl summary, mirror[, state]). Raises InfraError on harness faults."""
    mirror0 = run_mirror(case)
    in_scope, after, plan, final = track_case(case, mirror0)
    frames, snapshots = run_impl(case, after)
    # the mirror's iterator registers were advanced by the program; keep their final positions
    mirror = mirror0
    passed = snapshots.pop("args", [])
    if snapshots.pop("ambiguous", False) or not in_scope:
        out = (None, [["skipped", "append while an unread generator-backed frame exists" if in_scope else "program uses a spent frame"]], mirror)
        return out + (None,) if want_state else out
    impl_summary = [None] * len(frames)
    clause = None
    how = case.get("read", 0)
    # laziness of the objects after the program against the reference semantics (soft: recorded only)
    state = [None] * len(frames)
    for i, (out, mir) in enumerate(zip(frames, mirror)):
        if out[0] == "frame" and mir[0] == "frame" and after.st[i] != "spent":
            state[i] = (("lazy" if not isinstance(out[1]._rows, list) else "eager"), "lazy" if after.unread(i) else "eager")

    def drain_iterators():
        nonlocal clause
        for i, (out, mir) in enumerate(zip(frames, mirror)):
            if out[0] != "iter" or mir[0] != "iter":
                continue
            try:
                rest = [list(r) for r in out[1]]
            except Exception as e:
                clause = clause or "draining iterator %d raised %s" % (i, type(e).__name__)
                continue
            if strict(rest) != strict(mir[1][mir[2]:]):
                clause = clause or "iterator %d does not yield the remaining rows of its frame once, in order" % i
        for i, (out, mir) in enumerate(zip(frames, mirror)):
            if out[0] != "biter" or mir[0] != "biter":
                continue
            try:
                rest = out[1].pull(len(mir[1]) + 2)
            except Exception as e:
                clause = clause or "draining batching %d raised %s" % (i, type(e).__name__)
                continue
            if strict(rest) != strict(mir[1][mir[2]:]):
                clause = clause or "batching %d does not yield the remaining batches of its frame (consumed next to other batchings / reads of the frame)" % i

    if how % 2 == 1:
        drain_iterators()
    for i, (out, mir) in enumerate(zip(frames, mirror)):
        opn = case["ops"][i - 1][0] if i else "base"
        if out[0] == "err":
            impl_summary[i] = ["err", out[1]]
            if mir[0] != "err":
                clause = clause or "step %d (%s) raised %s" % (i, opn, out[1])
            elif mir[1] != out[1]:
                clause = clause or "step %d (%s) raised %s, expected %s" % (i, opn, out[1], mir[1])
            continue
        if mir[0] == "err":
            impl_summary[i] = [out[0], "?"]
            clause = clause or "step %d (%s) did not raise %s" % (i, opn, mir[1])
            continue
        if out[0] == "val":
            impl_summary[i] = ["val", out[1]]
            if strict(out[1]) != strict(mir[1]):
                clause = clause or "step %d (%s) returned a different value than the list model" % (i, opn)
            continue
        if out[0] in ("iter", "biter"):
            impl_summary[i] = [out[0]]
            continue
        impl_summary[i] = ["frame", "spent"]
    # the frames, in the order of the read plan (register order or its reverse): a read materialises the frame, and
    # reading a deferred selection of a frame that is still lazily backed spends that frame (it is not read then)
    for i in plan:
        out, mir = frames[i], mirror[i]
        opn = case["ops"][i - 1][0] if i else "base"
        if out[0] != "frame" or mir[0] != "frame":
            continue
        try:
            names, rows, ln, rc, shape, peek = read_frame(out[1], (how + i) % 4)
        except Exception as e:
            impl_summary[i] = ["frame", "read-raised", type(e).__name__]
            clause = clause or "reading frame %d raised %s" % (i, type(e).__name__)
            continue
        impl_summary[i] = ["frame", names, rows]
        if strict(rows) != strict(mir[3]):
            clause = clause or "frame %d (%s) lists different rows than the list model%s" % (
                i, opn, " (read after an abandoned iteration)" if (how + i) % 4 == 3 else "")
        elif peek is not None:
            clause = clause or "frame %d (%s): an abandoned iteration yielded %r first, the listing starts differently" % (i, opn, peek[1])
        elif names != mir[1]:
            clause = clause or "frame %d (%s) has different column names than the list model" % (i, opn)
        elif not (ln == rc == shape[0] == len(rows)) or shape[1] != len(names):
            clause = clause or "frame %d (%s) len/rowcount/shape disagree with its listing" % (i, opn)
        else:
            # reading twice yields the same rows again (each row once, in order)
            again = [list(r) for r in out[1]]
            if strict(again) != strict(rows):
                clause = clause or "frame %d (%s) lists different rows when read again" % (i, opn)
    if how % 2 == 0:
        drain_iterators()
    for i, snap in snapshots.items():
        now = frames[i][1]._rows
        if not isinstance(now, list) or strict([list(r) for r in now]) != strict(snap):
            clause = clause or "materialised source frame %d was altered" % i
    # the objects the caller passed (column lists, masks, index lists / sets / arrays) are the caller's: after the
    # program and every read they hold what the caller put in them (a second use of the same object is a use of the
    # same selection - that is how the list model reads `any composition of these operations`)
    for step, what, obj, fresh, by in passed:
        if by is None and not same_argument(obj, fresh):
            by = "the reads"
        if by is not None and frames[step][0] != "err":
            thing = {"names": "list of column names", "columns": "list of columns", "mask": "mask", "indexes": "index collection"}[what]
            if by == step:
                clause = clause or "step %d (%s) altered the %s the caller passed to it: the next use of that object selects something else" % (
                    step, case["ops"][step - 1][0], thing)
            else:
                clause = clause or "the %s the caller passed to step %d (%s) was altered later (by %s): the next use of that object selects something else" % (
                    thing, step, case["ops"][step - 1][0], by if isinstance(by, str) else "step %d" % by)
            if isinstance(impl_summary[step], list):
                now = tolist(obj)
                impl_summary[step] = impl_summary[step] + ["argument object now", sorted(now, key=repr) if isinstance(now, (set, frozenset)) else list(now)]
            break
    if clause is None:
        clause = alias_probe(frames, mirror, set(plan))
    if want_state:
        return clause, impl_summary, mirror, (state, final, len(plan))
    return clause, impl_summary, mirror


_AS_PINNED = None


def source_as_pinned():
    """True when every definition the extractor lifted from the source is the reference one: then the Lean
    specification and the mirror are the same function and a difference is a harness fault; otherwise the
    difference is the source's (the regenerated model follows the code) and is reported as a disagreement."""
    global _AS_PINNED
    if _AS_PINNED is None:
        import json
        import os

        from ..extract import GEN_DIR

        try:
            _AS_PINNED = bool(json.load(open(os.path.join(GEN_DIR, "generated.json"))).get("frame.source_as_pinned", True))
        except Exception:
            _AS_PINNED = True
    return _AS_PINNED


def compare_model(case, mirror, mo, state=None, ctx=None):
    if not mo.startswith("ok "):
        raise InfraError("model rejected case %r: %r" % (case, mo))
    spec, mach, wf = wire.dec_all(mo[3:])[:3]
    objects, final, nreads = state if state is not None else (None, None, 0)
    if state is not None:
        # the reads after the program travel as trailing `len` steps
        if len(spec) != len(mirror) + nreads:
            raise InfraError("model returned %d results for %d steps and %d reads" % (len(spec), len(mirror), nreads))
        spec = spec[: len(mirror)]
        mach = mach[: len(mirror)] if mach else mach
    if ctx is not None:
        # is the program (with its reads) inside the scope of C03.eval_refines (wfProgB, sound by C03.wfProgB_sound)?
        ctx.hit("refinement-theorem-scope:" + ("inside" if wf else "outside"))
    if len(spec) != len(mirror) or (mach and len(mach) != len(mirror)):
        raise InfraError("model returned %d/%d results for %d steps" % (len(spec), len(mach), len(mirror)))
    if not mach and ctx is not None:
        ctx.hit("state-machine:stopped (the program uses a frame the machine regards as spent)")
    for i, (m, mir) in enumerate(zip(spec, mirror)):
        opn = case["ops"][i - 1][0] if i else "base"
        if m[0] == "frame":
            ok = mir[0] == "frame" and m[1] == mir[1] and m[2] == mir[2] and m[3] == canon(mir[3])
        elif m[0] == "val" and opn == "bnext":
            # the model's row iterator was asked for k * size rows: the batches the batching hands out, end to end
            ok = mir[0] == "val" and m[1] == canon([r for b in mir[1] for r in b])
        elif m[0] == "val":
            ok = mir[0] == "val" and m[1] == canon(mir[1])
        elif m[0] == "iter" and mir[0] == "biter":
            ok = m[1] == min(mir[2] * mir[3], mir[4])
        elif m[0] == "iter":
            ok = mir[0] == "iter" and m[1] == mir[2]
        else:
            ok = mir[0] == "err" and m[1] == mir[1]
        if not ok:
            if source_as_pinned() or ctx is None:
                raise InfraError("Lean model and Python mirror differ at step %d of %r: %r vs %r" % (i, case, m, mir))
            ctx.disagree(case, mirror, spec, what="the model regenerated from the source differs from the list specification at step %d" % i)
            return spec
    if state is not None and ctx is not None:
        # laziness of the objects after the program against the reference semantics (soft: laziness is not an output)
        for st in objects:
            if st is not None:
                ctx.hit("lazy-state:" + ("agrees" if st[0] == st[1] else "differs(object %s/reference %s)" % st))
        # the Lean machine after program and reads against the harness's tracker: two renderings of the same reference
        # semantics (the machine's tables are regenerated from the source)
        for i, (mm, mir) in enumerate(zip(mach, mirror)):
            if mir[0] != "frame":
                continue
            t = final.st[i]
            mst = "spent" if mm[0] == "spent" else ("defer" if mm[0] == "defer" else ("lazy" if mm[0] == "frame" and mm[1] else ("eager" if mm[0] == "frame" else "other")))
            tst = "defer" if isinstance(t, tuple) else t
            if mst != tst:
                if source_as_pinned():
                    raise InfraError("Lean machine and harness tracker differ at register %d of %r: %s vs %s" % (i, case, mst, tst))
                ctx.hit("machine-vs-tracker:differs(%s/%s)" % (mst, tst))
            else:
                ctx.hit("machine-vs-tracker:agrees")
    return spec


def _flat(v):
    """A value with every container turned into a list (what a careless key makes of it)."""
    if isinstance(v, (list, tuple)):
        return [_flat(x) for x in v]
    if isinstance(v, (set, frozenset)):
        return sorted((_flat(x) for x in v), key=repr)
    return v


_REPORTED = set()


def evaluate(ctx, cases):
    mouts = ctx.model.batch([model_line(c) for c in cases])
    for c, mo in zip(cases, mouts):
        clause, impl, mirror, state = check_case(ctx, c, want_state=True)
        if clause is None and impl and impl[0] and impl[0][0] == "skipped":
            ctx.hit("skipped:" + impl[0][1])
        elif clause is None:
            # implementation = list spec here, so the Lean model (whose window arithmetic, comprehensions and
            # laziness table are regenerated from the source) must agree with both; a difference now can only
            # be the wire or the driver
            compare_model(c, mirror, mo, state, ctx)
        ctx.case(c, nontrivial=len(c["rows"]) >= 1 and len(c["ops"]) >= 1)
        for op in c["ops"]:
            ctx.hit("op:" + op[0])
            if len(op) == 4 and op[0] in ("select", "filter", "take"):
                ctx.hit("argform:%s/%s" % (op[0], form_name(form_slot(op[3])[0])))
        _uses = {}
        for _i, op in enumerate(c["ops"]):
            _a = arg_of(op) if op[0] in ("select", "filter", "take", "collect") else None
            if _a and _a[2] is not None:
                _uses.setdefault(_a[2], []).append((op[0], mirror[op[1]][1] if mirror[op[1]][0] == "frame" else None))
        for _u in _uses.values():
            if len(_u) >= 2:
                ctx.hit("shared-argument:one object passed to %s; frames of %s" % (
                    "+".join(sorted({x[0] for x in _u})), "different layouts" if len({json.dumps(x[1]) for x in _u}) > 1 else "one layout"))
        if not any(len(_u) >= 2 for _u in _uses.values()):
            ctx.hit("shared-argument:none")
        _ok, _after, _plan, _final = track_case(c)
        ctx.hit("siblings:" + ("a frame with an unread selection is used again" if getattr(_after, "sibling_uses", 0) else "no"))
        ctx.hit("read-order:" + (c.get("order") or "fwd"))
        ctx.hit("registers-spent-by-the-end:%d" % min(sum(1 for x in _final.st if x == "spent"), 3))
        for op in c["ops"]:
            if op[0] == "collect" and op[3] is not None:
                lim = op[3]
                ctx.hit("collect-limit:" + ("bool" if isinstance(lim, bool) else "negative" if lim < 0 else "< 2**31" if lim < 2**31 else "2**31 .. 2**63-1" if lim < 2**63 else ">= 2**63"))
        ctx.hit("rows:%d" % min(len(c["rows"]), 9))
        ctx.hit("cols:%d" % len(c["names"]))
        ctx.hit("backing:%s/schema:%s" % (lazy_of(c) or "list", schema_of(c)))
        kinds_ = {cell_kind(x) for r in c["rows"] for x in r}
        ctx.hit("cells:" + ("containers next to look-alikes (list/tuple/dict/set/NaN/bool/float)" if kinds_ & {"tuple", "pydict", "pyset", "nan", "bool"} else
                            "unhashable (lists)" if "list" in kinds_ else
                            ("mixed scalars" if any(not isinstance(x, int) or abs(x) > 2 for r in c["rows"] for x in r) else "small ints")))
        if any(op[0] == "distinct" for op in c["ops"]):
            # rows of the base frame that are equal to an earlier row although they are not identical in type, and rows that
            # differ from an earlier row only in the kind of a container
            base = [[cell_py(x) for x in r] for r in c["rows"]]
            eq_other = any(base[i] == base[j] and strict(base[i]) != strict(base[j]) for i in range(len(base)) for j in range(i))
            alike = any(base[i] != base[j] and _flat(base[i]) == _flat(base[j]) for i in range(len(base)) for j in range(i))
            ctx.hit("distinct-input:" + ("equal rows of different types" if eq_other else "rows that differ only in the kind of a container" if alike else "other"))
        nb = sum(1 for op in c["ops"] if op[0] == "biter")
        if nb:
            srcs_ = [op[1] for op in c["ops"] if op[0] == "biter"]
            ctx.hit("batchings:" + ("two or more open on one frame" if len(set(srcs_)) < len(srcs_) else "one per frame"))
        if clause is not None:
            norm = lambda s: None if s is None else "".join(ch for ch in s if not ch.isdigit())
            if norm(clause) in _REPORTED and not ctx.replaying:
                ctx.hit("violation-dup:" + norm(clause))  # same clause at another register index: one replay is enough
                continue
            _REPORTED.add(norm(clause))

            def still(c2):
                if not valid_case(c2):
                    return False
                try:
                    return norm(check_case(None, c2)[0]) == norm(clause)
                except Exception:
                    return False

            c_min = c if ctx.replaying else shrink(c, still, budget=400)
            cl2, impl2, mir2 = check_case(ctx, c_min)
            ctx.fail(c_min, cl2 or clause, impl=impl2, model=[m if m[0] != "frame" else ["frame", m[1], m[3]] for m in mir2])


# ----------------------------------------------------------------------------- generators


ALL_OPS = ["head", "tail", "slice", "filter", "take", "query", "select", "distinct", "add",
           "batches", "collect", "row", "len", "tail", "slice", "select", "distinct", "append", "head",
           "iter", "next", "next", "zip", "select", "hash", "biter", "biter", "bnext", "bnext", "bnext", "fetch"]


def gen_op(rng, kinds, names_of, nrows_of, allow=None, extra_names=(), prefer=None):
    """One operator applied to a random earlier frame (or `next` on an open iterator)."""
    srcs = [i for i, k in enumerate(kinds) if k == "frame"]
    its = [i for i, k in enumerate(kinds) if k == "iter"]
    bits = [i for i, k in enumerate(kinds) if k == "biter"]
    k = rng.choice(allow or ALL_OPS)
    if k == "bnext":
        if not bits:
            k = "biter"
        else:
            return ["bnext", rng.choice(bits), rng.choice([0, 1, 1, 1, 2, 50])]
    if k == "next":
        if not its:
            k = "iter"
        else:
            it = rng.choice(its)
            return ["next", it, rng.choice([0, 1, 1, 2, 3, 50])]
    s = rng.choice(srcs)
    if prefer:
        s = rng.choice([i for i in prefer if i in srcs] or srcs)
    n = nrows_of[s]
    names = names_of[s]
    w = len(names)
    huge = rng.random() < 0.03  # sizes / offsets / indexes beyond any machine integer: plain Python arithmetic must not mind
    if huge and k in ("head", "tail"):
        return [k, s, rng.choice([2**31, 2**63, 2**64 + 1])]
    if huge and k == "slice":
        return [k, s, rng.choice([-(2**63), 2**63, -(2**31) - 1, 0, -1]), rng.choice([None, 2**63, 2**31])]
    if huge and k == "batches":
        return [k, s, rng.choice([2**31, 2**63])]
    if huge and k == "row":
        return [k, s, rng.choice([2**63, -(2**63) - 1])]
    if huge and k == "take":
        return [k, s, [0, 2**63, -(2**63)], rng.choice(["list", "tuple", "set", "frozenset"])]
    if k in ("head", "tail"):
        return [k, s, rng.choice([0, 1, 2, n, n + 1, n + 2, 2 * n, 2 * n + 1, max(n - 1, 0), rng.randint(0, 2 * n + 3)])]
    if k == "slice":
        o = rng.choice([0, 1, -1, -2, n, -n, -n - 1, -n - 3, n + 2, n - 1, -n + 1, rng.randint(-2 * n - 2, 2 * n + 2)])
        l = rng.choice([None, 0, 1, 2, n, n + 3, max(n - 1, 0), rng.randint(0, n + 2)])
        return [k, s, o, l]
    if k == "filter":
        m = rng.choice([n, n, n, max(n - 1, 0), n + 2, 0])
        mask = [rng.random() < 0.5 for _ in range(m)]
        return [k, s, mask, rng.choice(["list", "list", "tuple", "numpy", "iter"]) if rng.random() < 0.7 else rng.choice(FILTER_KINDS)]
    if k == "take":
        m = rng.randint(0, n + 2)
        u = rng.random()
        if u < 0.25:
            # the index set is a range object: ascending, descending, strided, empty, reaching below 0 / beyond the rows
            a, b, st = rng.randint(-2, n + 2), rng.randint(-2, n + 2), rng.choice([1, -1, 2, -2, 3, -3, n + 1, -n - 1])
            return [k, s, list(range(a, b, st)), "range(%d,%d,%d)" % (a, b, st)]
        idx = [rng.randint(-2, n + 1) for _ in range(m)]
        if u < 0.5:
            form = rng.choice(TAKE_KINDS)
            if form in ("bytes", "bytearray") and n > 255:
                form = "deque"  # (`256 in b"..."` raises ValueError: a bytes object answers for positions 0..255 only)
            if not take_form_ok(form, idx):
                idx = [abs(v) for v in idx]
            if not take_form_ok(form, idx):
                # a frame of hundreds of rows and a kind whose members are small (bytes, int8 ...): positions that fit
                idx = [v % 120 for v in idx]
            if not take_form_ok(form, idx):
                form = "list"
            return [k, s, idx, form]
        return [k, s, idx, rng.choice(["list", "list", "tuple", "set", "frozenset", "numpy"])]
    if k == "query":
        if w == 0 or rng.random() < 0.2:
            return [k, s, [rng.choice(["true", "false"])]]
        return [k, s, [rng.choice(["eq", "ne"]), rng.randrange(w), rng.choice([0, 1, -1, -2])]]
    if k == "select":
        pool = list(names) + (["zz"] if rng.random() < 0.15 else []) + (list(extra_names) if rng.random() < 0.3 else [])
        m = rng.randint(0, len(pool)) if rng.random() < 0.8 else rng.randint(0, len(pool) + 1)
        attrs = [rng.choice(pool) for _ in range(m)] if pool and rng.random() < 0.25 else rng.sample(pool, min(m, len(pool)))
        form = rng.choice(["list", "list", "tuple", "bare"])
        if form == "bare" and len(attrs) != 1:
            form = "list"
        return [k, s, attrs, form]
    if k == "distinct":
        return [k, s]
    if k in ("add", "zip"):
        return [k, s, rng.choice(srcs)]
    if k == "batches":
        return [k, s, max(1, rng.choice([1, 2, 3, n, n + 1, n - 1, max(n // 2, 1), rng.randint(1, n + 2)]))]
    if k == "collect":
        single = rng.random() < 0.35 and w > 0
        m = 1 if single else rng.choice([0, 1, 2, 3, w])
        cols = []
        for _ in range(m):
            c = rng.randint(-1, w) if rng.random() < 0.15 else (rng.randrange(w) if w else 0)
            if names and 0 <= c < w and rng.random() < 0.4:
                c = names[c]
            cols.append(c)
        if single and not cols:
            cols = [0]
        limit = rng.choice([None, None, -1, 0, 1, n, n + 1, max(n - 1, 0), rng.randint(-2, n + 2)])
        if rng.random() < 0.2:
            limit = rng.choice(BIG_LIMITS)  # the edges of the C integer the compiled collector takes its limit in
        return [k, s, cols, limit, "single" if single else "multi", rng.random() < 0.5 or limit is not None]
    if k == "row":
        return [k, s, rng.randint(-n - 1, n)]
    if k == "append":
        return [k, s, [rng.choice(VALUES) for _ in range(w)]]
    if k == "iter":
        return ["iter", s]
    if k == "biter":
        # often a second batching of a frame that is being batched already
        return ["biter", s, max(1, rng.choice([1, 2, 3, n, n + 1, max(n // 2, 1)]))]
    if k == "fetch":
        return ["fetch", s, rng.randrange(3)]
    if k == "hash":
        return ["hash", s]
    return ["len", s, rng.randrange(3)]


def share_argument(rng, op, slots, kinds, names_of, nrows_of):
    """Programs that hold an argument in a variable and use it twice: now and then the step's sequence argument becomes
    slot k of the program (`form#k`), and now and then a step is replaced by another use of an earlier slot's object -
    by the same operator or by one that reads the same kind of list (names: select / collect; positions: take /
    collect) - preferably on a frame laid out differently from the one the object was first used on."""
    if slots and rng.random() < 0.3:
        k = rng.randrange(len(slots))
        kind0, base, values, names0 = slots[k]
        kinds_ok = [kind0]
        if base == "list" and kind0 in ("select", "collect") and all(isinstance(v, str) for v in values):
            kinds_ok = ["select", "collect", "collect"]
        if base == "list" and kind0 in ("take", "collect") and all(isinstance(v, int) and not isinstance(v, bool) and abs(v) < 2**31 for v in values):
            # (positions that fit the collector's 32-bit column index; wider ones are outside the column selections quantified over)
            kinds_ok = ["take", "collect", "collect"]
        srcs = [i for i, x in enumerate(kinds) if x == "frame"]
        other = [i for i in srcs if names_of[i] != names0]
        s = rng.choice(other if other and rng.random() < 0.7 else srcs)
        kind = rng.choice(kinds_ok)
        if base in ("bytes", "bytearray") and (nrows_of[s] or 0) > 255:
            return op, None  # (a bytes object answers `i in obj` for positions 0..255 only)
        if kind == "collect":
            n = nrows_of[s]
            limit = rng.choice([None, None, None, 1, n, rng.randint(-1, n + 1)])
            return ["collect", s, list(values), limit, "multi#%d" % k, rng.random() < 0.5 or limit is not None], None
        return [kind, s, list(values), "%s#%d" % (base, k)], None
    a = arg_of(op) if op[0] in ("select", "filter", "take", "collect") else None
    if a is not None and a[1] not in ONE_SHOT and len(slots) < 4 and rng.random() < 0.4:
        k = len(slots)
        op = list(op)
        if op[0] == "collect":
            op[4] = "multi#%d" % k
        else:
            op[3] = "%s#%d" % (a[1], k)
        return op, (op[0], a[1], list(a[3]), names_of[op[1]])
    return op, None


def track(kinds, names_of, nrows_of, case, op):
    """Update generator bookkeeping with the mirror's result for `op`."""
    res = run_mirror({**case, "ops": case["ops"] + [op]})
    r = res[-1]
    kinds.append(r[0])
    names_of.append(r[1] if r[0] == "frame" else None)
    nrows_of.append(len(r[3]) if r[0] == "frame" else None)
    if op[0] == "append":
        nrows_of[op[1]] += 1


UNHASHABLE = [0, [1], [1, 2], [], "a", [[1]], [1]]
def _T(*xs):
    return {"__tuple__": list(xs)}


# cells that look alike: equal ones of different types (the first must be kept), unequal ones that a key built from
# them (str / repr / tuple of the values / hash) would confuse, containers that cannot be hashed, the NaN object
ALIKE_GROUPS = [
    [1, True, 1.0, "1"],
    [0, False, -0.0, None],
    [[1, 2], _T(1, 2), [1, 2.0], _T(1, 2)],
    [[[1], 2], [_T(1), 2], _T([1], 2), [[1], 2]],
    [{"__pydict__": {"a": 1}}, {"__pydict__": {"a": True}}, {"__pydict__": {"a": 1, "b": 2}}, {"__pydict__": {"b": 2, "a": 1}}, [["a", 1]]],
    [{"__pyset__": [1, 2]}, _T(1, 2), [1, 2], {"__pyset__": [1]}],
    [{"__nan__": True}, 2.5, {"__nan__": True}, None],
    [[], _T(), "", 0],
    [-1, -2, _T(-1), _T(-2), [-1]],
]
VALUES = [0, 1, -1, -2]  # -1 and -2 have equal hashes in CPython: rows that collide without being equal
ALIAS_POOL = ["a0", "a1", "A", "pts", "c0x"]


def gen_schema(rng, w, ints_only, n):
    """(schema kind, aliases or None): every way a schema can be given."""
    r = rng.random()
    if r < 0.40:
        return "list", None
    if r < 0.52:
        return "tuple", None
    if r < 0.64 and n >= 1:
        return "dicts", None
    if not ints_only:
        return "list", None
    if r < 0.80:
        return "typed", None
    names = ["c%d" % i for i in range(w)]
    al = []
    used = set(names)
    for i in range(w):
        a = []
        for _ in range(rng.choice([0, 1, 1, 2])):
            # mostly fresh aliases; now and then an alias that is another column's *name*
            cand = rng.choice(ALIAS_POOL) + str(i) if rng.random() < 0.85 else rng.choice(names)
            if cand != names[i] and cand not in a and (cand in names or cand not in used):
                a.append(cand)
                used.add(cand)
        al.append(a)
    return "aliased", al


def gen_case(rng, max_rows=6, max_cols=4, max_ops=4, big=False):
    w = rng.randint(0, max_cols) if rng.random() < 0.9 else 1
    n = rng.randint(0, max_rows)
    if big and rng.random() < 0.3:
        n = rng.choice([20, 50, 101, 250])
    r_ = rng.random()
    # mostly the hash-colliding ints; sometimes mixed scalars (0 and 2**61-1 collide too); sometimes cells that
    # cannot be hashed (lists: what ARRAY columns hold) next to equal-looking hashable ones
    vals = VALUES if r_ < 0.70 else ([0, 2**61 - 1, "a", "b", None, 2.5] if r_ < 0.78 else (UNHASHABLE if r_ < 0.86 else None))
    force_distinct = False
    if vals is None:
        vals = list(rng.choice(ALIKE_GROUPS)) + (["k"] if rng.random() < 0.5 else [])
        if rng.random() < 0.7:
            w = rng.choice([1, 1, 2])
        force_distinct = rng.random() < 0.6
    if w == 0:
        n = rng.choice([0, 0, 1, 2])
    rows = [[rng.choice(vals) for _ in range(w)] for _ in range(n)]
    sk, al = gen_schema(rng, w, vals is VALUES, n)
    case = {"names": ["c%d" % i for i in range(w)], "schema": sk, "lazy": rng.choice(LAZIES) if rng.random() < 0.4 else False,
            "rows": rows, "ops": [], "read": rng.randrange(4)}
    if al is not None:
        case["aliases"] = al
    extra = [a for x in (al or []) for a in x]
    if rng.random() < 0.35:
        case["order"] = "rev"
    kinds, names_of, nrows_of = ["frame"], [case["names"]], [n]
    trk = Track(base_is_lazy(case))
    typed_of = [kind_of(case) == "typed"]
    has_iter = set()
    arg_slots = []  # (operator, object form, values, names of the frame it was first used on)
    if force_distinct:
        op = ["distinct", 0]
        track(kinds, names_of, nrows_of, case, op)
        trk.step(op, kinds[-1], typed_of, has_iter)
        typed_of.append(typed_of[0])
        case["ops"].append(op)
    for _ in range(rng.randint(1, max_ops)):
        for _try in range(8):
            # now and then a second operator on a frame that already has an unread selection / filter (siblings)
            prefer = [i for i in range(len(trk.st)) if trk.unread(i)] if rng.random() < 0.3 else None
            op = gen_op(rng, kinds, names_of, nrows_of, extra_names=extra, prefer=prefer)
            op, new_slot = share_argument(rng, op, arg_slots, kinds, names_of, nrows_of)
            probe = trk.copy()
            res_kind = run_mirror({**case, "ops": case["ops"] + [op]})[-1][0]
            if probe.step(op, res_kind, typed_of, has_iter):
                break  # inside the scope: no spent frame used, append only to a materialised names-only frame
        else:
            break
        track(kinds, names_of, nrows_of, case, op)
        trk.step(op, kinds[-1], typed_of, has_iter)
        typed_of.append(op[0] in FRAME_OPS and op[0] != "select" and typed_of[op[1]])
        if op[0] in ("iter", "biter"):
            has_iter.add(op[1])
        if new_slot is not None:
            arg_slots.append(new_slot)
        case["ops"].append(op)
    return case


def dag_small():
    """Two operators applied to the same earlier result (siblings), read in either order: a selection / filter /
    take of a frame, then another use of that frame (or the other way round), on list- and lazily backed frames."""
    count = 0
    firsts = [["select", 0, ["c1", "c0"]], ["select", 0, ["c0"], "bare"], ["filter", 0, [True, False, True]], ["take", 0, [0, 2], "set"]]
    for n in range(0, 4):
        rows = [[i, -i] for i in range(n)]
        seconds = [["head", 0, 1], ["head", 0, n + 1], ["tail", 0, 1], ["slice", 0, -1, None], ["len", 0, 0], ["len", 0, 1], ["row", 0, 0],
                   ["collect", 0, ["c0"], None, "multi", False], ["collect", 0, [1], 1, "single", True], ["batches", 0, 2], ["hash", 0],
                   ["iter", 0], ["add", 0, 0], ["zip", 0, 0], ["select", 0, ["c1"]], ["select", 0, ["c0", "c1"], "tuple"]]
        progs = []
        allc = ["select", 0, ["c0", "c1"]]
        for x in (["add", 0, 1], ["add", 1, 0], ["zip", 0, 1], ["zip", 1, 0]):
            # the selection of every column carries the same schema: it can be added to / zipped with its source
            progs.append([allc, x])
            progs.append([allc, x, ["len", 0, 0]])
        for a in firsts:
            progs.append([a, list(a)])  # the same operator twice on the same frame
            progs.append([a, list(a), ["head", 0, 1]])
            for b in seconds:
                progs.append([a, b])
                progs.append([b, a])
                # the same one level down: the siblings hang off a derived (lazily backed) frame
                for mid in (["filter", 0, [True] * n], ["select", 0, ["c0", "c1"]], ["take", 0, list(range(n)), "list"]):
                    a1 = [a[0], 1] + a[2:]
                    b1 = [b[0], 1] + ([1] if b[0] in ("add", "zip") else b[2:])
                    progs.append([mid, a1, b1])
            # a selection of a selection, then the first frame is used; a filter of a selection (the generator is handed on)
            progs.append([a, ["select", 1, ["c0"]], ["head", 0, 2]])
            progs.append([a, ["select", 1, ["c0"]], ["len", 1, 0]])
            progs.append([a, ["filter", 1, [True] * n], ["tail", 0, 2]])
            progs.append([a, ["distinct", 1], ["tail", 0, 2]])
        for prog in progs:
            for lazy in (False, "gen", "iter", "map"):
                for order in ("fwd", "rev"):
                    c = {"names": ["c0", "c1"], "schema": "list", "lazy": lazy, "rows": rows, "ops": prog, "read": count % 4, "order": order}
                    count += 1
                    if valid_case(c):
                        yield c


def exhaustive_small(ctx):
    """Every single operator with every small argument on every frame of <= 3 rows x 2 columns over {-1,-2}."""
    count = 0
    for n in range(0, 4):
        for rows in itertools.product([[-1, 0], [-2, 0], [0, 1]], repeat=n):
            rows = [list(r) for r in rows]
            ops = []
            for k in range(0, 2 * n + 3):
                ops.append(["head", 0, k])
                ops.append(["tail", 0, k])
            for o in range(-n - 2, n + 3):
                for l in [None] + list(range(0, n + 2)):
                    ops.append(["slice", 0, o, l])
            for mask in itertools.product([False, True], repeat=n):
                ops.append(["filter", 0, list(mask)])
            for r in range(0, n + 1):
                for ix in itertools.combinations(range(-1, n + 1), min(r, 2)):
                    ops.append(["take", 0, list(ix)])
            for attrs in [[], ["c0"], ["c1"], ["c0", "c1"], ["c1", "c0"], ["c1", "c1"], ["zz", "c1"], ["k1"], ["k0", "c1"]]:
                ops.append(["select", 0, attrs])
            ops.append(["distinct", 0])
            ops.append(["hash", 0])
            ops.append(["add", 0, 0])
            ops.append(["zip", 0, 0])
            for b in range(1, n + 2):
                ops.append(["batches", 0, b])
            for cols in [[0], [1], [1, 0], [0, 0, 1], ["c1"], [2], [-1], []]:
                for lim in [None, -1, 0, 1, n, n + 1]:
                    ops.append(["collect", 0, cols, lim, "multi", True])
            for big in (2**31, 2**63):
                ops += [["head", 0, big], ["tail", 0, big], ["slice", 0, -big, big], ["slice", 0, big, None], ["slice", 0, -1, big],
                        ["batches", 0, big], ["row", 0, big], ["row", 0, -big - 1], ["take", 0, [0, big]]]
            for lim in BIG_LIMITS:
                ops.append(["collect", 0, [1, 0], lim, "multi", True])
                ops.append(["collect", 0, ["c1"], lim, "single", True])
            for i in range(-n - 1, n + 1):
                ops.append(["row", 0, i])
            progs = [[op] for op in ops]
            # partial / abandoned / interleaved iteration, then another operator on the same frame
            for k1 in range(0, n + 2):
                progs.append([["iter", 0], ["next", 1, k1]])
                progs.append([["iter", 0], ["next", 1, k1], ["head", 0, n]])
                progs.append([["iter", 0], ["next", 1, k1], ["len", 0, 0], ["next", 1, n + 1]])
                for k2 in range(0, n + 2):
                    progs.append([["iter", 0], ["iter", 0], ["next", 1, k1], ["next", 2, k2], ["next", 1, n], ["next", 2, n]])
            for prog in progs:
                for i, (lazy, schema) in enumerate([(False, "list"), ("gen", "list"), (False, "aliased"), ("iter", "aliased"),
                                                    (False, "tuple"), ("map", "typed"), (False, "dicts")]):
                    if schema == "dicts" and not rows:
                        continue
                    if i >= 4 and prog[0][0] not in ("select", "add", "collect", "iter", "distinct", "zip"):
                        continue  # the other schema kinds only where the schema object is looked at
                    c = {"names": ["c0", "c1"], "schema": schema, "lazy": lazy, "rows": rows, "ops": prog, "read": count % 4}
                    if schema == "aliased":
                        c["aliases"] = [["k0"], ["k1", "c0"]] if count % 2 else [["k0", "k1"], []]
                    yield c
                    count += 1
    # rows with cells that cannot be hashed: every operator once, every small frame over a 3-row alphabet
    for n in range(0, 4):
        for rows in itertools.product([[[1], 0], [[1, 2], 0], [0, [1]]], repeat=n):
            rows = [list(r) for r in rows]
            for op in ([["distinct", 0]], [["distinct", 0], ["distinct", 1]], [["add", 0, 0], ["distinct", 1]], [["select", 0, ["c1", "c0"]], ["distinct", 1]],
                       [["take", 0, [0, 2]]], [["filter", 0, [True] * n]], [["tail", 0, 2], ["distinct", 1]], [["collect", 0, [0, "c1"], None, "multi", True]],
                       [["query", 0, ["eq", 1, 0]], ["distinct", 1]], [["batches", 0, 2]], [["iter", 0], ["next", 1, 1], ["distinct", 0], ["next", 1, 9]]):
                for lazy in (False, "gen"):
                    yield {"names": ["c0", "c1"], "schema": "list", "lazy": lazy, "rows": rows, "ops": op, "read": count % 4}
                    count += 1


def kinds_small():
    """The KIND of object an index set / mask is given as.  take: every range(a, b, step) with a, b in -1..n+1 and
    step in +-1, +-2 (ascending, descending, strided, empty, reaching below 0 and beyond the row count) and every subset of
    -1..n held in every kind of container of TAKE_KINDS, members listed ascending and descending (a container is a set of
    positions: the order it lists them in is not an order of rows); filter: every mask of n-1..n+1 truth values in every kind
    of FILTER_KINDS.  Frames of 0..4 distinct rows, list- and generator-backed; take twice with one range object."""
    count = 0
    for n in range(0, 5):
        rows = [[i, -i] for i in range(n)]
        progs = []
        for a in range(-1, n + 2):
            for b in range(-1, n + 2):
                for st in (1, -1, 2, -2):
                    f = "range(%d,%d,%d)" % (a, b, st)
                    v = list(range(a, b, st))
                    progs.append([["take", 0, v, f]])
                    if (a + b + st) % 3 == 0:
                        progs.append([["take", 0, v, f + "#0"], ["head", 1, 2], ["take", 1, v, f + "#0"]])
        for m in range(0, n + 2):
            for sub in itertools.combinations(range(-1, n + 1), m):
                if n == 4 and m not in (0, 1, 2, n + 1):
                    continue
                for form in TAKE_KINDS:
                    for v in ([list(sub), list(reversed(sub))] if m > 1 else [list(sub)]):
                        if form not in ("set", "frozenset", "list") and take_form_ok(form, v):
                            progs.append([["take", 0, v, form]])
        for m in (n - 1, n, n + 1):
            for mask in itertools.product([True, False], repeat=max(m, 0)) if m <= 3 else ([True] * m, [False, True] * 2 + [True] * (m - 4)):
                for form in FILTER_KINDS:
                    if form not in ("list",):
                        progs.append([["filter", 0, list(mask), form]])
        for prog in progs:
            for lazy in (False, "gen"):
                c = {"names": ["c0", "c1"], "schema": "list" if count % 3 else "typed", "lazy": lazy, "rows": rows, "ops": prog, "read": count % 4}
                count += 1
                if valid_case(c):
                    yield c


def alike_small():
    """distinct (alone, after +, after select, twice) on every frame of <= 3 rows ("k", v) with v from one group of
    look-alike cells; interleaved batchings of one frame."""
    count = 0
    for group in ALIKE_GROUPS:
        for n in range(0, 4):
            for vs in itertools.product(group, repeat=n):
                rows = [["k", v] for v in vs]
                for ops in ([["distinct", 0]], [["add", 0, 0], ["distinct", 1]], [["select", 0, ["c1"]], ["distinct", 1], ["distinct", 2]]):
                    for lazy, schema in ((False, "list"), ("gen", "list"), (False, "dicts")):
                        if schema == "dicts" and not rows:
                            continue
                        yield {"names": ["c0", "c1"], "schema": schema, "lazy": lazy, "rows": rows, "ops": ops, "read": count % 4}
                        count += 1


def shared_small():
    """One argument object given to two operations (`cols = [...]; a.collect(cols); b[cols]`): every pair of operators
    that read the same kind of sequence, on one frame twice and on two frames that lay the columns out differently
    (reordered, narrowed, shortened), in both orders; list / tuple / set / array objects."""
    count = 0
    layouts = [None, ["select", 0, ["c2", "c1", "c0"]], ["select", 0, ["c1", "c2"]], ["select", 0, ["c2"], "tuple"], ["head", 0, 2],
               ["take", 0, [2, 0], "set"]]
    pairs = []
    for cols in (["c2", "c1"], ["c1"], ["c0", 2], [2, 0], ["c1", "c0", "c2"], [1]):
        for lim, item in ((None, False), (1, True), (None, True)):
            pairs.append((["collect", None, cols, lim, "multi#0", item], ["collect", None, cols, None, "multi#0", False]))
        if all(isinstance(x, str) for x in cols):
            pairs.append((["select", None, cols, "list#0"], ["collect", None, cols, None, "multi#0", False]))
            pairs.append((["select", None, cols, "list#0"], ["select", None, cols, "list#0"]))
            pairs.append((["select", None, cols, "tuple#0"], ["select", None, cols, "tuple#0"]))
        if all(isinstance(x, int) for x in cols):
            pairs.append((["take", None, cols, "list#0"], ["collect", None, cols, 2, "multi#0", True]))
    for idx in ([0, 2], [1], [2, 2, 0, -1], []):
        for form in ("list", "tuple", "set", "frozenset", "numpy"):
            pairs.append((["take", None, idx, form + "#0"], ["take", None, idx, form + "#0"]))
    for mask in ([True, False, True], [False, True], []):
        for form in ("list", "tuple", "numpy"):
            pairs.append((["filter", None, mask, form + "#0"], ["filter", None, mask, form + "#0"]))
    for n in (0, 1, 3):
        rows = [[i, -i, i % 2] for i in range(n)]
        for lay in layouts:
            for x, y in pairs:
                for (a, b) in ((0, 1), (1, 0), (0, 0), (1, 1)) if lay else ((0, 0),):
                    for x_, y_ in ((x, y), (y, x)) if x != y else ((x, y),):
                        prog = ([lay] if lay else []) + [[x_[0], a] + x_[2:], [y_[0], b] + y_[2:]]
                        for lazy in (False, "gen"):
                            c = {"names": ["c0", "c1", "c2"], "schema": "list" if count % 3 else "typed", "lazy": lazy, "rows": rows,
                                 "ops": prog, "read": count % 4}
                            count += 1
                            if valid_case(c):
                                yield c


def batchings_small():
    """Two batchings of one frame advanced in every small interleaving; a nested loop; DB-API reads in between."""
    count = 0
    for n in range(0, 6):
        rows = [[i, -i] for i in range(n)]
        progs = []
        for b1 in (1, 2, 3):
            for b2 in (1, 2, n + 1):
                for k1 in (0, 1, 2):
                    for k2 in (0, 1, 9):
                        progs.append([["biter", 0, b1], ["biter", 0, b2], ["bnext", 1, k1], ["bnext", 2, k2], ["bnext", 1, 1], ["bnext", 2, 1]])
                        progs.append([["biter", 0, b1], ["bnext", 1, k1], ["biter", 0, b2], ["bnext", 3, k2], ["bnext", 1, 1], ["bnext", 3, 9], ["bnext", 1, 9]])
                # nested loop: for every outer batch, all inner batches
                nest = [["biter", 0, b1]]
                for _ in range(3):
                    nest.append(["bnext", 1, 1])
                    nest.append(["biter", 0, b2])
                    nest.append(["bnext", len(nest), 99])
                progs.append(nest)
            for f in (0, 1, 2):
                progs.append([["biter", 0, b1], ["bnext", 1, 1], ["fetch", 0, f], ["bnext", 1, 1], ["fetch", 0, f], ["bnext", 1, 9]])
                progs.append([["fetch", 0, f], ["batches", 0, b1], ["fetch", 0, f], ["iter", 0], ["fetch", 0, f], ["next", 4, 9]])
            progs.append([["biter", 0, b1], ["bnext", 1, 1], ["batches", 0, 2], ["iter", 0], ["next", 4, 1], ["bnext", 1, 9], ["next", 4, 9]])
            progs.append([["head", 0, 4], ["biter", 1, b1], ["biter", 0, b1], ["bnext", 2, 1], ["bnext", 3, 1], ["bnext", 2, 9], ["bnext", 3, 9]])
        for prog in progs:
            for lazy in (False, "gen"):
                c = {"names": ["c0", "c1"], "schema": "list", "lazy": lazy, "rows": rows, "ops": prog, "read": count % 4}
                count += 1
                if valid_case(c):
                    yield c


def run(ctx):
    ctx.note("rule", "programs of DataFrame operators over small frames; non-trivial = at least one row and one operator; "
             "distinct by canonical JSON of (frame, program)")
    batch = []
    n_ex = 0
    seen3 = 0
    for c in exhaustive_small(ctx):
        if len(c["rows"]) > 2:
            seen3 += 1
            if ctx.tier == "quick" and seen3 % 3:
                continue  # quick: every frame of 0..2 rows, a third of the 3-row cases
        batch.append(c)
        n_ex += 1
        if len(batch) >= 4000:
            evaluate(ctx, batch)
            batch = []
    evaluate(ctx, batch)
    n_dag = 0
    batch = []
    for c in dag_small():
        batch.append(c)
        n_dag += 1
    evaluate(ctx, batch)
    ctx.note("sibling_scope", "two operators on the same earlier result (a selection / filter / take, then every materialising or "
             "iterating use of the same frame, and the reverse), directly on the base and one level down, frames of 0..3 rows, "
             "list- / generator- / iterator- / map-backed, frames read in register order and in reverse (%d cases)" % n_dag)
    ctx.note("exhaustive_scope", "every single operator with every small argument, and every partial / interleaved iteration "
             "prefix followed by another use, on every frame of 0..%d rows x 2 columns over a 3-row alphabet with hash-colliding "
             "rows; schema given as list, tuple, RelationSchema with and without aliases, dictionaries; list-, generator-, "
             "iterator-, map-backed (%d cases%s); then random programs"
             % (3, n_ex, "; of the 3-row cases every third" if ctx.tier == "quick" else ""))
    n_al = 0
    batch = []
    for c in alike_small():
        n_al += 1
        if ctx.tier == "quick" and len(c["rows"]) == 3 and n_al % 2:
            continue
        batch.append(c)
    evaluate(ctx, batch)
    n_sh = 0
    batch = []
    for c in shared_small():
        n_sh += 1
        if ctx.tier == "quick" and n_sh % 2 and len(c["rows"]) != 3:
            continue
        batch.append(c)
        if len(batch) >= 4000:
            evaluate(ctx, batch)
            batch = []
    evaluate(ctx, batch)
    ctx.note("shared_argument_scope", "one list / tuple / set / array object passed to two operations (collect / [] / select / take / "
             "filter, every pair that reads the same kind of sequence, both orders) on one frame and on two frames that lay the columns "
             "out differently (reordered / narrowed selection, head, take), frames of 0, 1, 3 rows x 3 columns, list- and generator-"
             "backed (%d cases%s); in the random programs an argument becomes a program variable used again with probability ~0.3; "
             "after every program each argument object is compared with a second object made the same way" % (n_sh, "; quick: half of the 0- and 1-row cases" if ctx.tier == "quick" else ""))
    batch = list(kinds_small())
    evaluate(ctx, batch)
    ctx.note("argument_kind_scope", "take with every range(a, b, step), a, b in -1..n+1, step in +-1, +-2, and with every subset of -1..n "
             "held as " + " / ".join(TAKE_KINDS[1:]) + " (members listed ascending and descending); filter with every small mask held as "
             + " / ".join(FILTER_KINDS) + "; frames of 0..4 rows, list- and generator-backed (%d cases).  Not demanded (established on the "
             "unchanged tree): take with a one-shot iterator / generator (`i in it` consumes it: the answer depends on the order of the "
             "members) or a str (TypeError); select / collect with anything but list / tuple (/ set for collect): any other object is "
             "taken as ONE column name" % len(batch))
    batch = list(batchings_small())
    evaluate(ctx, batch)
    ctx.note("lookalike_scope", "distinct (alone, after +, after select and twice) on every frame of 0..3 rows ('k', v), v from one of %d "
             "groups of cells that look alike (1/True/1.0/'1'; 0/False/-0.0/None; list vs tuple of the same values, nested; dicts in "
             "either key order and with equal values of different types; set vs tuple vs list; the NaN object; empty containers; "
             "hash-colliding -1/-2 inside tuples); results compared type by type (%d cases); every small interleaving of two "
             "batchings of one frame, nested batchings, DB-API reads (fetchone/fetchmany/fetchall) between batches (%d cases)"
             % (len(ALIKE_GROUPS), n_al, len(batch)))
    n_random = ctx.scale(30000, 300000)
    depth = ctx.scale(5, 7)
    done = 0
    while done < n_random and ctx.time_left() > 5:
        cases = [gen_case(ctx.rng, max_ops=depth, big=(ctx.tier == "thorough")) for _ in range(2000)]
        evaluate(ctx, cases)
        done += len(cases)


def intensify(ctx):
    for _ in range(10):
        evaluate(ctx, [gen_case(ctx.rng, max_ops=6, big=True) for _ in range(2000)])
        if ctx.violations:
            return


def replay(ctx, case):
    evaluate(ctx, [case])


KNOWN_PREDICATES = {}
